import CkcVerif.Model.Hand
/-!
# `src/cards/binary_card.rs` — 64-bit card sets
-/
namespace CK

/-- `from_two … from_seven`: OR of `from_ckc` of every slot -/
def bcFromHand (ws : List Nat) : Nat := ws.foldl (fun acc w => acc ||| fromCkc w) 0
def foldIn (x bc : Nat) : Nat := x ||| bc
def has (x card : Nat) : Bool := (x &&& card) == card
def numberOfCards (x : Nat) : Nat := pc 64 x
def isSingleCard (x : Nat) : Bool := numberOfCards x == 1
def bcIsValid (x : Nat) : Bool := (x != Gen.bcBlank) && decide (numberOfCards (x &&& Gen.bcOverflow) < 1)

/-- `peel` over an arbitrary deck of bit constants: (new set, returned card bit) -/
def peelWith (deck : List Nat) (x : Nat) : Nat × Nat :=
  match deck.find? (fun b => has x b) with
  | some b => (x ^^^ b, b)
  | none => (x, Gen.bcBlank)
def peel (x : Nat) : Nat × Nat := peelWith Gen.bitDeck x

/-- `k` successive peels: the returned bits, and the final set -/
def peelIterWith (deck : List Nat) : Nat → Nat → List Nat × Nat
  | 0, x => ([], x)
  | k + 1, x =>
    let r := peelWith deck x
    let rest := peelIterWith deck k r.1
    (r.2 :: rest.1, rest.2)
def peelIter (k x : Nat) : List Nat × Nat := peelIterWith Gen.bitDeck k x

inductive TwoResult where
  | ok (a b : Nat)
  | notEnoughCards
  | tooManyCards
  | invalidBinaryFormat
deriving DecidableEq, Repr

/-- `impl TryFrom<BinaryCard> for Two` -/
def twoFromBc (x : Nat) : TwoResult :=
  let n := numberOfCards x
  if n ≤ 1 then .notEnoughCards
  else if n = 2 then
    let p1 := peel x
    let p2 := peel p1.1
    let a := fromBinaryCard p1.2
    let b := fromBinaryCard p2.2
    if isValid [a, b] then .ok a b else .invalidBinaryFormat
  else .tooManyCards

end CK
