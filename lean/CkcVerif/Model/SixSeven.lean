import CkcVerif.Model.Hand
import CkcVerif.Generated.Presets
/-!
# `src/cards/six.rs`, `src/cards/seven.rs` — best five of six / seven
-/
namespace CK

/-- `five_from_permutation`: five bounds-checked slot reads -/
def pick (ws : List Nat) (row : List Nat) : Option (List Nat) :=
  match row with
  | [i0, i1, i2, i3, i4] =>
    match ws[i0]?, ws[i1]?, ws[i2]?, ws[i3]?, ws[i4]? with
    | some a, some b, some c, some d, some e => some [a, b, c, d, e]
    | _, _, _, _, _ => none
  | _ => none

/-- one iteration of the best-of loop; the accumulator is `(best_hrv, best_hand)` -/
def stepBest (T : Tables) (ws : List Nat) (acc : Option (Nat × List Nat)) (row : List Nat) :
    Option (Nat × List Nat) :=
  match acc with
  | none => none
  | some (bv, bh) =>
    match pick ws row with
    | none => none
    | some hand =>
      match handRankValue5 T hand with
      | none => none
      | some hrv => if bv == 0 || (hrv != 0 && hrv < bv) then some (hrv, hand) else some (bv, bh)

/-- `hand_rank_value_and_hand` of `Six` / `Seven` over the published slot table -/
def handRankValueAndHandN (T : Tables) (perms : List (List Nat)) (ws : List Nat) : Option (Nat × List Nat) :=
  match perms.foldl (stepBest T ws) (some (0, [0, 0, 0, 0, 0])) with
  | none => none
  | some (v, h) => some (v, sortDesc h)

def handRankValueAndHand6 (T : Tables) (ws : List Nat) := handRankValueAndHandN T Gen.perms6 ws
def handRankValueAndHand7 (T : Tables) (ws : List Nat) := handRankValueAndHandN T Gen.perms7 ws

/-- trait ranking for any of the three ranked sizes (selected by length) -/
def handRankValueAndHand (T : Tables) (ws : List Nat) : Option (Nat × List Nat) :=
  match ws.length with
  | 5 => handRankValueAndHand5 T ws
  | 6 => handRankValueAndHand6 T ws
  | 7 => handRankValueAndHand7 T ws
  | _ => none

def handRankValue (T : Tables) (ws : List Nat) : Option Nat := (handRankValueAndHand T ws).map (·.1)

def handRankValueValidated (T : Tables) (ws : List Nat) : Option Nat :=
  if !isValid ws then some Gen.noHandRankValue else handRankValue T ws

end CK
