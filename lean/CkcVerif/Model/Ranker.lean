import CkcVerif.Model.SixSeven
import CkcVerif.Model.HandRank
/-! Trait defaults `HandRanker::hand_rank` / `hand_rank_validated`: the rank converted from the value -/
namespace CK

def handRank (T : Tables) (ws : List Nat) : Option HandRank := (handRankValue T ws).map HandRank.ofValue
def handRankValidated (T : Tables) (ws : List Nat) : Option HandRank :=
  (handRankValueValidated T ws).map HandRank.ofValue

end CK
