import CkcVerif.Model.Hand
/-!
# `src/cards/two.rs` — starting hands and the Chen formula

`f32` points are modelled exactly in half-points (`Int`): every value the code can produce is a
multiple of 0.5 of small magnitude, which `f32` represents exactly, and `ceil` of a half-integer
`p/2` is `(p + 1) / 2` with floor division.  (Assumption about IEEE arithmetic recorded in the
trusted base; the correspondence check compares integer results on the whole domain.)
-/
namespace CK

def highCard (a b : Nat) : Nat := max a b
def isPocketPair (a b : Nat) : Bool := getCardRank a == getCardRank b
def isSuited (a b : Nat) : Bool := getCardSuit a == getCardSuit b

/-- `get_gap`: `u8` subtraction of the rank numbers of the sorted pair; `none` = it would underflow -/
def getGap (a b : Nat) : Option Nat :=
  match sortDesc [a, b] with
  | [s1, s2] =>
    if getCardRank s1 < getCardRank s2 then none
    else
      let d := getCardRank s1 - getCardRank s2
      some (if d < 1 then 0 else d - 1)
  | _ => none

def isConnector (a b : Nat) : Option Bool := (getGap a b).map (· == 0)
def isSuitedConnector (a b : Nat) : Option Bool :=
  if isSuited a b then isConnector a b else some false

/-- `chen_formula`, in exact half-points until the final rounding -/
def chenFormula (a b : Nat) : Option Int :=
  let hc := highCard a b
  let pts : Int := getChenPoints2 hc
  let body : Option Int :=
    if isPocketPair a b then some (max (pts * 2) 10)
    else
      match getGap a b with
      | none => none
      | some gap =>
        let pen : Int := match gap with | 1 => 2 | 2 => 4 | 3 => 8 | 0 => 0 | _ => 10
        let p := pts - pen
        some (if gap < 2 ∧ getCardRank hc < 12 then p + 2 else p)
  match body with
  | none => none
  | some p =>
    let p := if isSuited a b then p + 4 else p
    some ((p + 1) / 2)

end CK
