/-!
# Models of the `core` integer intrinsics the crate uses

`count_ones`, `leading_zeros`, `trailing_zeros` on `u32` / `u64` are given their documented meaning
(modelled, not verified; exercised by the correspondence check on every rank mask and on bit-sets).
-/
namespace CK

/-- number of set bits among the low `n` bits: `count_ones` for an `n`-bit integer -/
def pc : Nat → Nat → Nat
  | 0, _ => 0
  | n + 1, x => (if x.testBit n then 1 else 0) + pc n x

/-- `u32::leading_zeros` -/
def lz32 (x : Nat) : Nat := if x == 0 then 32 else 31 - Nat.log2 x

def tzGo : Nat → Nat → Nat → Nat
  | 0, _, acc => acc
  | f + 1, x, acc => if x % 2 == 1 then acc else tzGo f (x / 2) (acc + 1)

/-- `u32::trailing_zeros` -/
def tz32 (x : Nat) : Nat := if x == 0 then 32 else tzGo 32 x 0

end CK
