/-! # Sorting of slot arrays (no dependence on any generated data) -/
namespace CK

/-- `sort_unstable(); reverse()` on the slot array (`core`'s sort is given its documented meaning:
    an ascending rearrangement; on integers stability is unobservable) -/
def sortDesc (l : List Nat) : List Nat := (l.mergeSort (fun a b => decide (a ≤ b))).reverse

/-- the scan of `Six/Seven::are_unique` over the sorted copy -/
def scan : Nat → List Nat → Bool
  | _, [] => true
  | last, c :: cs => if c ≥ last then false else scan c cs

end CK
