/-! # Sorting of slot arrays (no dependence on any generated data) -/
namespace CK

/-- insert into a non-increasing list -/
def insertDesc (x : Nat) : List Nat → List Nat
  | [] => [x]
  | y :: ys => if x ≥ y then x :: y :: ys else y :: insertDesc x ys

/-- `sort_unstable(); reverse()` on the slot array: the non-increasing rearrangement (`core`'s sort is
    given its documented meaning; on integers stability is unobservable, so any sorting algorithm
    yields the same list — `Lemmas.sorted_perm_unique`).  Written as an insertion sort so that the
    kernel can evaluate it. -/
def sortDesc (l : List Nat) : List Nat := l.foldr insertDesc []

/-- the scan of `Six/Seven::are_unique` over the sorted copy -/
def scan : Nat → List Nat → Bool
  | _, [] => true
  | last, c :: cs => if c ≥ last then false else scan c cs

end CK
