/-!
# The containers `Two … Seven` as plain slot lists

State = the slot list.  Setters are `List.set` at the index the setter's *name* says; readers are
`getD`.  `pick` (slot-index selection) lives in `Model/SixSeven.lean`.
-/
namespace CK

inductive Op where
  | set (k : Nat) (x : Nat)       -- `set_first` is `set 0`, … `set_seventh` is `set 6`
deriving Repr

def applyOp (ws : List Nat) : Op → List Nat
  | .set k x => ws.set k x

def runOps (ws : List Nat) (ops : List Op) : List Nat := ops.foldl applyOp ws

/-- `Six::from_1_and_2_and_3(one, two, three)` -/
def six123 (one : Nat) (two three : List Nat) : List Nat := one :: (two ++ three)
/-- `Seven::new(two, five)` -/
def sevenNew (two five : List Nat) : List Nat := two ++ five

end CK
