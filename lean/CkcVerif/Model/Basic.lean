import CkcVerif.Generated.Tables
/-!
# Table access

The four lookup tables of `src/lookups` are regenerated from the compiled crate as packed `Nat`
literals.  A table access in the Rust code is a bounds-checked index expression: `none` stands for
"the Rust code panics".  The model is parametric in a `Tables` record; theorems are about
`packed` (two kernel steps per access), the compiled driver runs `arrays` (built once from the
same literals), and `arrays_eq_packed` shows they are the same record.
-/
namespace CK

/-- entry `i` of a table packed `w` bits per entry -/
def get (w P i : Nat) : Nat := (P >>> (w * i)) % 2 ^ w

structure Tables where
  flushes  : Nat → Option Nat
  unique5  : Nat → Option Nat
  products : Nat → Option Nat
  values   : Nat → Option Nat

def packed : Tables where
  flushes  := fun i => if i < Gen.flushesLen then some (get 16 Gen.flushesP i) else none
  unique5  := fun i => if i < Gen.unique5Len then some (get 16 Gen.unique5P i) else none
  products := fun i => if i < Gen.productsLen then some (get 32 Gen.productsP i) else none
  values   := fun i => if i < Gen.valuesLen then some (get 16 Gen.valuesP i) else none

def mkArr (w P len : Nat) : Array Nat := Array.ofFn (n := len) fun i => get w P i.val

def flushesA : Array Nat := mkArr 16 Gen.flushesP Gen.flushesLen
def unique5A : Array Nat := mkArr 16 Gen.unique5P Gen.unique5Len
def productsA : Array Nat := mkArr 32 Gen.productsP Gen.productsLen
def valuesA : Array Nat := mkArr 16 Gen.valuesP Gen.valuesLen

def arrays : Tables where
  flushes  := fun i => flushesA[i]?
  unique5  := fun i => unique5A[i]?
  products := fun i => productsA[i]?
  values   := fun i => valuesA[i]?

theorem mkArr_get (w P len i : Nat) :
    (mkArr w P len)[i]? = if i < len then some (get w P i) else none := by
  unfold mkArr
  rw [Array.getElem?_ofFn]
  by_cases h : i < len <;> simp [h]

theorem arrays_eq_packed : arrays = packed := by
  have h1 : (fun i => flushesA[i]?) =
      (fun i => if i < Gen.flushesLen then some (get 16 Gen.flushesP i) else none) := by
    funext i; exact mkArr_get _ _ _ _
  have h2 : (fun i => unique5A[i]?) =
      (fun i => if i < Gen.unique5Len then some (get 16 Gen.unique5P i) else none) := by
    funext i; exact mkArr_get _ _ _ _
  have h3 : (fun i => productsA[i]?) =
      (fun i => if i < Gen.productsLen then some (get 32 Gen.productsP i) else none) := by
    funext i; exact mkArr_get _ _ _ _
  have h4 : (fun i => valuesA[i]?) =
      (fun i => if i < Gen.valuesLen then some (get 16 Gen.valuesP i) else none) := by
    funext i; exact mkArr_get _ _ _ _
  show Tables.mk _ _ _ _ = Tables.mk _ _ _ _
  rw [h1, h2, h3, h4]

end CK
