import CkcVerif.Model.Five
/-!
# `HandValidator`, sorting and suit shifting for the six containers `Two … Seven`
-/
namespace CK

/-- `sort_unstable(); reverse()` on the slot array (`core`'s sort is given its documented meaning:
    an ascending rearrangement; on integers stability is unobservable) -/
def sortDesc (l : List Nat) : List Nat := (l.mergeSort (fun a b => decide (a ≤ b))).reverse

/-- the scan of `Six/Seven::are_unique` over the sorted copy -/
def scan : Nat → List Nat → Bool
  | _, [] => true
  | last, c :: cs => if c ≥ last then false else scan c cs

/-- `are_unique`, as written for each size -/
def areUnique : List Nat → Bool
  | [a, b] => a != b
  | [a, b, c] => (a != b) && (a != c) && (b != c)
  | [a, b, c, d] => (a != b) && (a != c) && (a != d) && (b != c) && (b != d) && (c != d)
  | [a, b, c, d, e] =>
    !([b, c, d, e].contains a || [c, d, e].contains b || [d, e].contains c || [e].contains d)
  | ws => scan 0xFFFFFFFF (sortDesc ws)        -- Six, Seven

def containBlank (ws : List Nat) : Bool := ws.any (· == Gen.blank)
def isCorrupt (ws : List Nat) : Bool := ws.any (fun c => filter c == Gen.blank)
def isValid (ws : List Nat) : Bool := areUnique ws && !isCorrupt ws

def shiftSuitHand (ws : List Nat) : List Nat := ws.map shiftSuit

/-- `hand_rank_value_validated` for `Five` and the free function `evaluate::five_cards` -/
def handRankValueValidated5 (T : Tables) (h : List Nat) : Option Nat :=
  if !isValid h then some Gen.noHandRankValue else handRankValue5 T h
def fiveCards (T : Tables) (h : List Nat) : Option Nat := handRankValueValidated5 T h

end CK
