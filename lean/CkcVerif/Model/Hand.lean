import CkcVerif.Model.Five
import CkcVerif.Model.Card
import CkcVerif.Model.Sort
/-!
# `HandValidator`, sorting and suit shifting for the six containers `Two … Seven`
-/
namespace CK

/-- `are_unique`, as written for each size -/
def areUnique : List Nat → Bool
  | [a, b] => a != b
  | [a, b, c] => (a != b) && (a != c) && (b != c)
  | [a, b, c, d] => (a != b) && (a != c) && (a != d) && (b != c) && (b != d) && (c != d)
  | [a, b, c, d, e] =>
    !([b, c, d, e].contains a || [c, d, e].contains b || [d, e].contains c || [e].contains d)
  | ws => scan 0xFFFFFFFF (sortDesc ws)        -- Six, Seven

def containBlank (ws : List Nat) : Bool := ws.any (· == Gen.blank)
def isCorrupt (ws : List Nat) : Bool := ws.any (fun c => filter c == Gen.blank)
def isValid (ws : List Nat) : Bool := areUnique ws && !isCorrupt ws

def shiftSuitHand (ws : List Nat) : List Nat := ws.map shiftSuit

/-- `hand_rank_value_validated` for `Five` and the free function `evaluate::five_cards` -/
def handRankValueValidated5 (T : Tables) (h : List Nat) : Option Nat :=
  if !isValid h then some Gen.noHandRankValue else handRankValue5 T h
def fiveCards (T : Tables) (h : List Nat) : Option Nat := handRankValueValidated5 T h

end CK
