import CkcVerif.Model.Basic
import CkcVerif.Model.Fields
import CkcVerif.Model.Bits
/-!
# `src/cards/five.rs` — the five-card evaluator (model of the repaired code)

A hand is a `List Nat` of length five.  `none` = the Rust code panics (bounds check, or arithmetic
overflow with overflow checks on).  Each definition mirrors the Rust function of the same name.
-/
namespace CK

def andBits : List Nat → Nat
  | [a, b, c, d, e] => a &&& b &&& c &&& d &&& e
  | _ => 0
def orBits : List Nat → Nat
  | [a, b, c, d, e] => a ||| b ||| c ||| d ||| e
  | _ => 0
/-- `multiply_primes`: a `u32` product of five values `≤ 63`, so it never overflows (`63^5 < 2^32`) -/
def multiplyPrimes : List Nat → Nat
  | [a, b, c, d, e] => getRankPrime a * getRankPrime b * getRankPrime c * getRankPrime d * getRankPrime e
  | _ => 0
def orRankBits (h : List Nat) : Nat := orBits h >>> Gen.rankFlagShift
def isFlush (h : List Nat) : Bool := (andBits h &&& Gen.suitFilter) != 0
/-- repaired `is_straight`: five rank bits set and spanning five positions, or the wheel -/
def isStraight (h : List Nat) : Bool :=
  let rb := orRankBits h
  (pc 32 rb == 5 && tz32 rb + lz32 rb == Gen.straightPadding) || rb == Gen.wheelOrBits
def isStraightFlush (h : List Nat) : Bool := isStraight h && isFlush h
def isWheel (h : List Nat) : Bool := orRankBits h == Gen.wheelOrBits

/-- deprecated free function `evaluate::is_flush` -/
def evaluateIsFlush : List Nat → Bool
  | [a, b, c, d, e] => (a &&& b &&& c &&& d &&& e &&& Gen.suitFilter) != 0
  | _ => false
/-- deprecated free function `evaluate::or_rank_bits` -/
def evaluateOrRankBits (h : List Nat) : Nat := orRankBits h

/-- repaired `Five::find_in_products`: the `while low <= high` loop, one unit of fuel per iteration;
    running out of fuel is reported as `none` (shown never to happen, `Lemmas/Find.lean`) -/
def findGo (T : Tables) (key : Nat) : Nat → Nat → Nat → Option Nat
  | 0, _, _ => none
  | fuel + 1, low, high =>
    if low ≤ high then
      let mid := (high + low) >>> 1
      match T.products mid with
      | none => none
      | some product =>
        if key < product then (if mid = 0 then some 0 else findGo T key fuel low (mid - 1))
        else if key > product then findGo T key fuel (mid + 1) high
        else some mid
    else some 0
def findInProducts (T : Tables) (key : Nat) : Option Nat := findGo T key 14 0 4887

/-- repaired `not_unique`, as a function of the prime product -/
def notUniqueKey (T : Tables) (key : Nat) : Option Nat :=
  match findInProducts T key with
  | none => none
  | some idx =>
    match T.products idx with
    | none => none
    | some p => if p != key then some Gen.noHandRankValue else T.values idx
def notUnique (T : Tables) (h : List Nat) : Option Nat := notUniqueKey T (multiplyPrimes h)

def unique (T : Tables) (index : Nat) : Option Nat :=
  if index > Gen.possibleCombinations then some Gen.blank else T.unique5 index

/-- the body of `Five::hand_rank_value_and_hand` in terms of the three quantities it computes from the
    cards: the OR-ed rank bits `i`, the prime product `key`, and the flush flag -/
def evalCore (T : Tables) (i key : Nat) (flush : Bool) : Option Nat :=
  if flush then T.flushes i
  else match unique T i with
    | none => none
    | some 0 => notUniqueKey T key
    | some u => some u

/-- `Five::hand_rank_value_and_hand`, value part -/
def handRankValue5 (T : Tables) (h : List Nat) : Option Nat :=
  evalCore T (orRankBits h) (multiplyPrimes h) (isFlush h)

def handRankValueAndHand5 (T : Tables) (h : List Nat) : Option (Nat × List Nat) :=
  match handRankValue5 T h with
  | none => none
  | some v => some (v, h)

end CK
