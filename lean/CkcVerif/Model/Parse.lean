import CkcVerif.Generated.Chars
import CkcVerif.Model.BitCard
/-!
# `src/parse.rs` and the text constructors

Text is a list of Unicode scalar values (`Nat`).  `char::is_whitespace`, `CardRank::from_char` and
`CardSuit::from_char` are the regenerated graphs over all 1,112,064 scalar values.
-/
namespace CK

def isWhitespace (c : Nat) : Bool := Gen.whitespace.contains c
def rankFromChar (c : Nat) : Nat := (Gen.rankChars.lookup c).getD Gen.rankBlank
def suitFromChar (c : Nat) : Nat := (Gen.suitChars.lookup c).getD Gen.suitBlank

/-- `str::split_whitespace`: maximal runs of non-whitespace characters -/
def tokensGo : List Nat → List Nat → List (List Nat)
  | [], cur => if cur.isEmpty then [] else [cur.reverse]
  | c :: cs, cur =>
    if isWhitespace c then (if cur.isEmpty then tokensGo cs [] else cur.reverse :: tokensGo cs [])
    else tokensGo cs (c :: cur)
def tokens (s : List Nat) : List (List Nat) := tokensGo s []

/-- `parse::get_rank_and_suit` -/
def getRankAndSuit : List Nat → Nat × Nat
  | [] => (Gen.rankBlank, Gen.suitBlank)
  | [_] => (Gen.rankBlank, Gen.suitBlank)
  | r :: s :: _ => (rankFromChar r, suitFromChar s)

/-- `CKCNumber::from_index` -/
def fromIndex (s : List Nat) : Nat :=
  let p := getRankAndSuit s
  create p.1 p.2

/-- `Two::from_index … Seven::from_index`, `parse::five_from_index`: `None` when a token is missing -/
def parseHand (n : Nat) (s : List Nat) : Option (List Nat) :=
  let ts := tokens s
  if ts.length < n then none else some ((ts.take n).map fromIndex)

/-- `BinaryCard::from_index` -/
def bcFromIndex (s : List Nat) : Nat :=
  (tokens s).foldl (fun bc t => foldIn bc (fromCkc (fromIndex t))) Gen.bcBlank

end CK
