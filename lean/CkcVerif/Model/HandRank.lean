import CkcVerif.Generated.Enums
import CkcVerif.Generated.Consts
import CkcVerif.Model.Basic
/-!
# `src/hand_rank.rs`

`determine_name` / `determine_class` are the regenerated graphs over all 65,536 values.
A `HandRank` is the triple (value, name discriminant, class discriminant).
-/
namespace CK

/-- `determine_name` / `determine_class`: the complete graphs over all 65,536 values -/
def determineName (v : Nat) : Nat := if v < Gen.nameTailStart then get 8 Gen.nameGraphP v else Gen.nameTail
def determineClass (v : Nat) : Nat := if v < Gen.classTailStart then get 16 Gen.classGraphP v else Gen.classTail

structure HandRank where
  value : Nat
  name : Nat
  cls : Nat
deriving DecidableEq, Repr

/-- `HandRank::from(value)` -/
def HandRank.ofValue (v : Nat) : HandRank := ⟨v, determineName v, determineClass v⟩
def HandRank.default : HandRank := HandRank.ofValue 0
def HandRank.isInvalid (r : HandRank) : Bool := r.name == Gen.nameInvalid
def HandRank.isAValidHandRank (r : HandRank) : Bool := r == HandRank.ofValue r.value

/-- repaired `impl Ord for HandRank` -/
def HandRank.cmp (a b : HandRank) : Ordering :=
  if a.isInvalid && b.isInvalid then compare b.value a.value
  else if a.isInvalid then .lt
  else if b.isInvalid then .gt
  else if a.value < b.value then .gt
  else if a.value > b.value then .lt
  else .eq

/-- `partial_cmp` is `Some(cmp)`; the four operators are derived from it by `core` -/
def HandRank.lt (a b : HandRank) : Bool := a.cmp b == .lt
def HandRank.le (a b : HandRank) : Bool := a.cmp b != .gt
def HandRank.gt (a b : HandRank) : Bool := a.cmp b == .gt
def HandRank.ge (a b : HandRank) : Bool := a.cmp b != .lt

/-- derived `Ord` of the two enumerations: the regenerated comparison matrices -/
def nameOrd (i j : Nat) : Nat := get 4 Gen.nameOrdP (i * Gen.nameOrdN + j)
def classOrd (i j : Nat) : Nat := get 4 Gen.classOrdP (i * Gen.classOrdN + j)

def ordCode : Ordering → Nat
  | .lt => 0 | .eq => 1 | .gt => 2

end CK
