import CkcVerif.Model.Five
import CkcVerif.Model.HandRank
/-!
# Frozen copies of the three definitions as they were at the pinned commit (before the `fix:` commits)

Kept only so that the findings stay machine-checked: `Props/C05|C07|C13` prove that the properties
FAIL for these definitions, with the concrete witnesses that were replayed on the real code.
-/
namespace CK.Legacy

/-- original `find_in_products`: `high = mid - 1` without the `mid == 0` guard (`none` = the usize
    subtraction overflows: panic with overflow checks, out-of-bounds index without) -/
def findGo (T : Tables) (key : Nat) : Nat → Nat → Nat → Option Nat
  | 0, _, _ => none
  | fuel + 1, low, high =>
    if low ≤ high then
      let mid := (high + low) >>> 1
      match T.products mid with
      | none => none
      | some product =>
        if key < product then (if mid = 0 then none else findGo T key fuel low (mid - 1))
        else if key > product then findGo T key fuel (mid + 1) high
        else some mid
    else some 0
def findInProducts (T : Tables) (key : Nat) : Option Nat := findGo T key 14 0 4887

/-- original `not_unique`: `VALUES[find_in_products(..)]`, index 0 standing for "not found" -/
def notUniqueKey (T : Tables) (key : Nat) : Option Nat :=
  match findInProducts T key with
  | none => none
  | some idx => T.values idx

def handRankValue5 (T : Tables) (h : List Nat) : Option Nat :=
  let i := orRankBits h
  if isFlush h then T.flushes i
  else match unique T i with
    | none => none
    | some 0 => notUniqueKey T (multiplyPrimes h)
    | some u => some u

/-- original `is_straight`: the padding test alone -/
def isStraight (h : List Nat) : Bool :=
  let rb := orRankBits h
  (tz32 rb + lz32 rb == Gen.straightPadding) || rb == Gen.wheelOrBits

/-- original `Ord for HandRank`: two invalid ranks compare `Equal` -/
def cmp (a b : HandRank) : Ordering :=
  if a.isInvalid && b.isInvalid then .eq
  else if a.isInvalid then .lt
  else if b.isInvalid then .gt
  else if a.value < b.value then .gt
  else if a.value > b.value then .lt
  else .eq

end CK.Legacy
