import CkcVerif.Model.HandRank
/-! `Ord::max` / `Ord::min` as `core` derives them from `cmp` (default methods of the `Ord` trait) -/
namespace CK

/-- `core::cmp::Ord::max`: `match self.cmp(&other) { Greater => self, _ => other }` -/
def HandRank.max (a b : HandRank) : HandRank := if a.cmp b == .gt then a else b
/-- `core::cmp::Ord::min`: `match self.cmp(&other) { Greater => other, _ => self }` -/
def HandRank.min (a b : HandRank) : HandRank := if a.cmp b == .gt then b else a

end CK
