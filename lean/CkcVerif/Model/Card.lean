import CkcVerif.Generated.Cards
import CkcVerif.Generated.Graphs
import CkcVerif.Model.Basic
import CkcVerif.Model.Fields
/-!
# Card-level functions of `src/lib.rs`

Two kinds of definition live here.

* **Graphs** (regenerated): `filter`, `isBlank`, `create`, the rank-field and suit-field
  accessors.  These are look-ups in the complete function graphs dumped from the compiled crate
  (all 2^32 words for `filter`/`is_blank`; all 8,192 rank-field and 16 suit-field values for the
  accessors, together with the list of words — of all 2^32 — at which the accessor does not factor
  through its field, `Gen.accessorViolations`, which `Props/C10` proves empty).
* **Formulas** (hand-written, tied by the correspondence check): the mask/shift readers, the
  multiples flags, `shiftSuit`, `fromIndex` glue.

`CardRank` / `CardSuit` values are represented by their discriminants (`ACE = 14 … TWO = 2`,
`BLANK = 0`; `SPADES = 4 … CLUBS = 1`, `BLANK = 0`).
-/
namespace CK

/-- `CardNumber::filter` / `PokerCard::filter`: graph over all 2^32 words -/
def filter (w : Nat) : Nat := (Gen.filterPoints.lookup w).getD 0

/-- `is_blank` -/
def isBlank (w : Nat) : Bool := Gen.isBlankPoints.contains w


/-- index of a word in the rank-field graphs (the graphs were dumped at `m <<< 16`, m < 8192) -/
def rankIdx (w : Nat) : Nat := (w &&& Gen.rankFlagFilter) >>> 16
/-- index of a word in the suit-field graphs (dumped at `s <<< 12`, s < 16) -/
def suitIdx (w : Nat) : Nat := (w &&& Gen.suitFilter) >>> 12

/-- `get_card_rank() as u8` -/
def getCardRank (w : Nat) : Nat := get 8 Gen.rankFieldRankP (rankIdx w)
/-- `get_rank_char()` as a code point -/
def getRankChar (w : Nat) : Nat := get 32 Gen.rankFieldCharP (rankIdx w)
/-- twice `get_chen_points()` (every value is a multiple of 0.5: `Gen.chenExact`) -/
def getChenPoints2 (w : Nat) : Nat := get 8 Gen.rankFieldChen2P (rankIdx w)
/-- `get_card_suit() as u8` -/
def getCardSuit (w : Nat) : Nat := Gen.suitFieldSuit.getD (suitIdx w) 0
def getSuitChar (w : Nat) : Nat := Gen.suitFieldChar.getD (suitIdx w) 0
def getSuitLetter (w : Nat) : Nat := Gen.suitFieldLetter.getD (suitIdx w) 0
/-- `next_suit() as u8` -/
def nextSuit (w : Nat) : Nat := Gen.suitFieldNext.getD (suitIdx w) 0

/-- `CKCNumber::create(rank, suit)` on enumeration discriminants: graph over all 14 × 5 pairs.
    A pair of numbers that are not discriminants cannot be passed in Rust; the model gives 0. -/
def create (rank suit : Nat) : Nat :=
  match Gen.createGraph.find? (fun t => t.1 == rank && t.2.1 == suit) with
  | some t => t.2.2
  | none => 0

/-- `Shifty for CKCNumber` -/
def shiftSuit (w : Nat) : Nat := create (getCardRank w) (nextSuit w)


/-- `CKCNumber::from_binary_card`: exact-match table on the dumped points, default blank -/
def fromBinaryCard (x : Nat) : Nat := (Gen.fromBcPoints.lookup x).getD 0

/-- `BinaryCard::from_ckc`: graph over all 2^32 words -/
def fromCkc (w : Nat) : Nat := (Gen.fromCkcPoints.lookup w).getD 0

/-- `Deck::get(index)` -/
def deckGet (i : Nat) : Nat := if i < Gen.deckLen then Gen.deck.getD i 0 else Gen.blank

end CK
