import CkcVerif.Generated.Consts
/-!
# Mask/shift field readers and multiples flags of `src/lib.rs` (hand-written formulas)

The extractor compares each of these with the crate for all 2^32 words (`Gen.accessorViolations`,
proved empty in `Props/C10`), and the correspondence check runs them against the crate as well.
-/
namespace CK

def getRankFlag (w : Nat) : Nat := w &&& Gen.rankFlagFilter
def getRankBit (w : Nat) : Nat := getRankFlag w >>> Gen.rankFlagShift
def getRankPrime (w : Nat) : Nat := w &&& Gen.rankPrimeFilter
def getSuitFlag (w : Nat) : Nat := w &&& Gen.suitFilter
def getSuitBit (w : Nat) : Nat := getSuitFlag w >>> Gen.suitShift

def flagAsPair (w : Nat) : Nat := w ||| Gen.pairFlag
def flagAsTrips (w : Nat) : Nat := w ||| Gen.tripsFlag
def flagAsQuads (w : Nat) : Nat := w ||| Gen.quadsFlag
def stripMultiplesFlags (w : Nat) : Nat := Gen.multiplesFilter &&& w

end CK
