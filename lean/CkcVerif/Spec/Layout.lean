/-!
# The documented card layout (specification; no reference to the crate)

```
+--------+--------+--------+--------+
|mmmbbbbb|bbbbbbbb|SHDCrrrr|xxpppppp|
+--------+--------+--------+--------+
p = prime of rank (deuce=2 … ace=41)   r = rank (deuce=0 … ace=12)
SHDC = one suit bit (clubs lowest)      b = one rank bit    m = multiples flags
```
-/
namespace Spec

/-- the first thirteen primes, in rank order deuce..ace -/
def prime : Nat → Nat
  | 0 => 2 | 1 => 3 | 2 => 5 | 3 => 7 | 4 => 11 | 5 => 13 | 6 => 17
  | 7 => 19 | 8 => 23 | 9 => 29 | 10 => 31 | 11 => 37 | 12 => 41 | _ => 0

/-- a real card: rank 0..12 (deuce..ace), suit 0..3 (clubs, diamonds, hearts, spades) -/
structure Card where
  rank : Nat
  suit : Nat
deriving DecidableEq, Repr

def Card.ok (c : Card) : Prop := c.rank < 13 ∧ c.suit < 4
instance (c : Card) : Decidable c.ok := by unfold Card.ok; infer_instance

/-- the 32-bit word of a card -/
def Card.word (c : Card) : Nat :=
  (1 <<< (16 + c.rank)) ||| (c.rank <<< 8) ||| (1 <<< (12 + c.suit)) ||| prime c.rank

def word (r s : Nat) : Nat := (Card.mk r s).word

/-- the deck in documented order: spades, hearts, diamonds, clubs; each ace down to deuce -/
def deckCards : List Card := (List.range 52).map fun i => ⟨12 - i % 13, 3 - i / 13⟩
def deckWords : List Nat := deckCards.map Card.word

/-- position in the deck of a card -/
def Card.deckIndex (c : Card) : Nat := (3 - c.suit) * 13 + (12 - c.rank)

/-- rank symbols deuce..ace and suit symbols clubs..spades, as code points -/
def rankCharOf : Nat → Nat
  | 0 => 50 | 1 => 51 | 2 => 52 | 3 => 53 | 4 => 54 | 5 => 55 | 6 => 56 | 7 => 57
  | 8 => 84 | 9 => 74 | 10 => 81 | 11 => 75 | 12 => 65 | _ => 95     -- '2'..'9' 'T' 'J' 'Q' 'K' 'A', '_'
def suitLetterOf : Nat → Nat
  | 0 => 67 | 1 => 68 | 2 => 72 | 3 => 83 | _ => 95                  -- 'C' 'D' 'H' 'S'
def suitGlyphOf : Nat → Nat
  | 0 => 0x2663 | 1 => 0x2666 | 2 => 0x2665 | 3 => 0x2660 | _ => 95  -- ♣ ♦ ♥ ♠

/-- discriminants of the crate's `CardRank` / `CardSuit` enumerations for a rank / suit number -/
def rankDisc (r : Nat) : Nat := r + 2
def suitDisc (s : Nat) : Nat := s + 1

end Spec
