import CkcVerif.Spec.Poker
/-!
# Names of poker hand classes (specification)

A hand's *descriptor* is read off the base-13 digits of its strength: the category, its first
tie-break rank, and — for full houses and two pairs — the second one.  There are 309 descriptors.
-/
namespace Spec

def singular : Nat → String
  | 12 => "Ace" | 11 => "King" | 10 => "Queen" | 9 => "Jack" | 8 => "Ten" | 7 => "Nine" | 6 => "Eight"
  | 5 => "Seven" | 4 => "Six" | 3 => "Five" | 2 => "Four" | 1 => "Trey" | _ => "Deuce"
def plural : Nat → String
  | 12 => "Aces" | 11 => "Kings" | 10 => "Queens" | 9 => "Jacks" | 8 => "Tens" | 7 => "Nines" | 6 => "Eights"
  | 5 => "Sevens" | 4 => "Sixes" | 3 => "Fives" | 2 => "Fours" | 1 => "Treys" | _ => "Deuces"

/-- category names, weakest (0, high card) to strongest (8, straight flush) -/
def categoryName : Nat → String
  | 8 => "StraightFlush" | 7 => "FourOfAKind" | 6 => "FullHouse" | 5 => "Flush" | 4 => "Straight"
  | 3 => "ThreeOfAKind" | 2 => "TwoPair" | 1 => "Pair" | _ => "HighCard"

/-- (category, first tie-break rank, second tie-break rank or 0) -/
abbrev Descr := Nat × Nat × Nat

def specName : Descr → String
  | (8, 12, _) => "RoyalFlush"
  | (8, t, _) => singular t ++ "HighStraightFlush"
  | (7, q, _) => "Four" ++ plural q
  | (6, t, p) => plural t ++ "Over" ++ plural p
  | (5, a, _) => singular a ++ "HighFlush"
  | (4, t, _) => singular t ++ "HighStraight"
  | (3, t, _) => "Three" ++ plural t
  | (2, p, q) => plural p ++ "And" ++ plural q
  | (1, p, _) => "PairOf" ++ plural p
  | (_, a, _) => singular a ++ "High"

/-- ranks from `hi` down to `lo` -/
def down (hi lo : Nat) : List Nat := ((List.range (hi + 1 - lo)).map (fun k => hi - k))

/-- all 309 descriptors, strongest first -/
def allDescr : List Descr :=
  (down 12 3).map (fun t => (8, t, 0)) ++
  (down 12 0).map (fun q => (7, q, 0)) ++
  (down 12 0).flatMap (fun t => ((down 12 0).filter (· != t)).map (fun p => (6, t, p))) ++
  (down 12 5).map (fun a => (5, a, 0)) ++
  (down 12 3).map (fun t => (4, t, 0)) ++
  (down 12 0).map (fun t => (3, t, 0)) ++
  (down 12 1).flatMap (fun p => (down (p - 1) 0).map (fun q => (2, p, q))) ++
  (down 12 0).map (fun p => (1, p, 0)) ++
  (down 12 5).map (fun a => (0, a, 0))

/-- descriptor of a strength value (digits of the base-13 number) -/
def descrOfStrength (s : Nat) : Descr :=
  let cat := s / 13 ^ 5
  let d1 := s / 13 ^ 4 % 13
  let d2 := s / 13 ^ 3 % 13
  (cat, d1, if cat == 6 || cat == 2 then d2 else 0)

/-- position of a descriptor in `allDescr` (closed form; `descrIdx_allDescr` checks it against the list) -/
def descrIdx : Descr → Nat
  | (8, t, _) => 12 - t
  | (7, q, _) => 10 + (12 - q)
  | (6, t, p) => 23 + (12 - t) * 12 + (if p > t then 12 - p else 11 - p)
  | (5, a, _) => 179 + (12 - a)
  | (4, t, _) => 187 + (12 - t)
  | (3, t, _) => 197 + (12 - t)
  | (2, p, q) => 210 + (78 - p * (p + 1) / 2) + (p - 1 - q)
  | (1, p, _) => 288 + (12 - p)
  | (_, a, _) => 301 + (12 - a)

end Spec
