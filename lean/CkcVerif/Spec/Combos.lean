/-!
# Combinations (specification): all k-element sublists, in lexicographic order of positions
-/
namespace Spec

def combos {α : Type} : Nat → List α → List (List α)
  | 0, _ => [[]]
  | _ + 1, [] => []
  | k + 1, x :: xs => (combos k xs).map (x :: ·) ++ combos (k + 1) xs

end Spec
