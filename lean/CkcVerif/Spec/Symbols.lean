/-!
# Card symbols (specification): which characters name a rank or a suit

Code point ↦ discriminant of the crate's `CardRank` (`ACE = 14 … TWO = 2`) / `CardSuit`
(`SPADES = 4, HEARTS = 3, DIAMONDS = 2, CLUBS = 1`); every other character is blank (0).
Listed in code-point order.
-/
namespace Spec

/-- A K Q J T 0 9-2, letters in either case -/
def rankSymbols : List (Nat × Nat) :=
  [(0x30, 10),                                                                  -- '0' = ten
   (0x32, 2), (0x33, 3), (0x34, 4), (0x35, 5), (0x36, 6), (0x37, 7), (0x38, 8), (0x39, 9),   -- '2'..'9'
   (0x41, 14), (0x4A, 11), (0x4B, 13), (0x51, 12), (0x54, 10),                   -- 'A' 'J' 'K' 'Q' 'T'
   (0x61, 14), (0x6A, 11), (0x6B, 13), (0x71, 12), (0x74, 10)]                   -- 'a' 'j' 'k' 'q' 't'

/-- S H D C in either case, filled and outline suit glyphs -/
def suitSymbols : List (Nat × Nat) :=
  [(0x43, 1), (0x44, 2), (0x48, 3), (0x53, 4),                                   -- 'C' 'D' 'H' 'S'
   (0x63, 1), (0x64, 2), (0x68, 3), (0x73, 4),                                   -- 'c' 'd' 'h' 's'
   (0x2660, 4), (0x2661, 3), (0x2662, 2), (0x2663, 1),                           -- ♠ ♡ ♢ ♣
   (0x2664, 4), (0x2665, 3), (0x2666, 2), (0x2667, 1)]                           -- ♤ ♥ ♦ ♧

def rankOfChar (c : Nat) : Nat := (rankSymbols.lookup c).getD 0
def suitOfChar (c : Nat) : Nat := (suitSymbols.lookup c).getD 0

/-- Unicode `White_Space` -/
def whiteSpace : List Nat :=
  [0x9, 0xA, 0xB, 0xC, 0xD, 0x20, 0x85, 0xA0, 0x1680, 0x2000, 0x2001, 0x2002, 0x2003, 0x2004, 0x2005, 0x2006,
   0x2007, 0x2008, 0x2009, 0x200A, 0x2028, 0x2029, 0x202F, 0x205F, 0x3000]

end Spec
