/-!
# Straights (specification at the level of rank sets)
-/
namespace Spec

/-- the ten sets of five consecutive ranks, the ace playing low in the last one -/
def straightSets : List (List Nat) :=
  (List.range 9).map (fun lo => [lo, lo + 1, lo + 2, lo + 3, lo + 4]) ++ [[0, 1, 2, 3, 12]]

def wheelSet : List Nat := [0, 1, 2, 3, 12]

/-- the ranks present are exactly the set `S` -/
def rankSetIs (rs S : List Nat) : Bool := (List.range 13).all fun i => decide (i ∈ rs) == decide (i ∈ S)

/-- five cards are a straight when their ranks are distinct and consecutive, i.e. the set of ranks
    present is one of the ten straight sets (five cards covering a five-element set are distinct) -/
def isStraightRanks (rs : List Nat) : Bool := straightSets.any (rankSetIs rs)
def isWheelRanks (rs : List Nat) : Bool := rankSetIs rs wheelSet

end Spec
