import CkcVerif.Spec.Layout
import CkcVerif.Spec.Poker
import CkcVerif.Spec.Combos
/-!
# Poker hands of real cards (specification)
-/
namespace Spec

/-- `n` distinct real cards, in some slot order -/
structure IsHand (n : Nat) (cs : List Card) : Prop where
  len : cs.length = n
  nodup : cs.Nodup
  ok : ∀ c ∈ cs, c.ok

/-- all cards share one suit -/
def sameSuit (cs : List Card) : Bool := cs.all fun a => cs.all fun b => a.suit == b.suit

/-- strength of a five-card hand under the rules of poker -/
def handStrength (cs : List Card) : Nat := strength (cs.map (·.rank)) (sameSuit cs)

def beats (h1 h2 : List Card) : Prop := handStrength h1 > handStrength h2
def ties (h1 h2 : List Card) : Prop := handStrength h1 = handStrength h2

/-- rule-based evaluation of six or seven cards: the greatest strength over all five-card subsets -/
def bestStrength (cs : List Card) : Nat := ((combos 5 cs).map handStrength).foldl max 0

def ranks (cs : List Card) : List Nat := cs.map (·.rank)

def words (cs : List Card) : List Nat := cs.map Card.word

end Spec
