import CkcVerif.Spec.Poker
/-!
# Closed form of `Spec.strength` on a descending rank tuple

`key r1 … r5 flush` is what `strength [r1,…,r5] flush` evaluates to when `r1 ≥ r2 ≥ r3 ≥ r4 ≥ r5`
(`strength_eq_key`, checked by the kernel on all 7,462 feasible classes — a fact about the
specification only, independent of the crate).  The table-dependent kernel checks use `key` because
the kernel evaluates it ~1000× faster than the list-based `strength`.
-/
namespace Spec

def enc5 (c a b d e f : Nat) : Nat := ((((c * 13 + a) * 13 + b) * 13 + d) * 13 + e) * 13 + f

def key (r1 r2 r3 r4 r5 : Nat) (flush : Bool) : Nat :=
  if r1 == r2 && r2 == r3 && r3 == r4 then enc5 7 r1 r5 0 0 0
  else if r2 == r3 && r3 == r4 && r4 == r5 then enc5 7 r2 r1 0 0 0
  else if r1 == r2 && r2 == r3 && r4 == r5 then enc5 6 r1 r4 0 0 0
  else if r1 == r2 && r3 == r4 && r4 == r5 then enc5 6 r3 r1 0 0 0
  else if r1 == r2 && r2 == r3 then enc5 3 r1 r4 r5 0 0
  else if r2 == r3 && r3 == r4 then enc5 3 r2 r1 r5 0 0
  else if r3 == r4 && r4 == r5 then enc5 3 r3 r1 r2 0 0
  else if r1 == r2 && r3 == r4 then enc5 2 r1 r3 r5 0 0
  else if r1 == r2 && r4 == r5 then enc5 2 r1 r4 r3 0 0
  else if r2 == r3 && r4 == r5 then enc5 2 r2 r4 r1 0 0
  else if r1 == r2 then enc5 1 r1 r3 r4 r5 0
  else if r2 == r3 then enc5 1 r2 r1 r4 r5 0
  else if r3 == r4 then enc5 1 r3 r1 r2 r5 0
  else if r4 == r5 then enc5 1 r4 r1 r2 r3 0
  else
    let top : Option Nat :=
      if r1 == r5 + 4 then some r1
      else if r1 == 12 && r2 == 3 && r3 == 2 && r4 == 1 && r5 == 0 then some 3 else none
    match top, flush with
    | some t, true => enc5 8 t 0 0 0 0
    | none, true => enc5 5 r1 r2 r3 r4 r5
    | some t, false => enc5 4 t 0 0 0 0
    | none, false => enc5 0 r1 r2 r3 r4 r5

/-- a feasible class: descending rank tuple, not five of one rank; flush only with distinct ranks -/
structure Feasible (r1 r2 r3 r4 r5 : Nat) (f : Bool) : Prop where
  h1 : r1 < 13
  h2 : r2 ≤ r1
  h3 : r3 ≤ r2
  h4 : r4 ≤ r3
  h5 : r5 ≤ r4
  hne : r1 ≠ r5
  hf : f = true → r1 ≠ r2 ∧ r2 ≠ r3 ∧ r3 ≠ r4 ∧ r4 ≠ r5

def chkS : Bool :=
  (List.range 13).all fun r1 => (List.range (r1 + 1)).all fun r2 => (List.range (r2 + 1)).all fun r3 =>
  (List.range (r3 + 1)).all fun r4 => (List.range (r4 + 1)).all fun r5 =>
    (r1 == r5) ||
      ((strength [r1, r2, r3, r4, r5] false == key r1 r2 r3 r4 r5 false) &&
       ((r1 == r2 || r2 == r3 || r3 == r4 || r4 == r5) ||
          strength [r1, r2, r3, r4, r5] true == key r1 r2 r3 r4 r5 true))

/-- S: kernel pass over all feasible classes (about 2.5 minutes; independent of the crate) -/
theorem chkS_ok : chkS = true := by decide +kernel

theorem strength_eq_key {r1 r2 r3 r4 r5 : Nat} {f : Bool} (h : Feasible r1 r2 r3 r4 r5 f) :
    strength [r1, r2, r3, r4, r5] f = key r1 r2 r3 r4 r5 f := by
  have hS := chkS_ok
  simp only [chkS, List.all_eq_true, List.mem_range] at hS
  have := hS r1 h.h1 r2 (by have := h.h2; omega) r3 (by have := h.h3; omega) r4 (by have := h.h4; omega)
    r5 (by have := h.h5; omega)
  simp only [Bool.or_eq_true, Bool.and_eq_true, beq_iff_eq] at this
  rcases this with h0 | ⟨ha, hb⟩
  · exact absurd h0 h.hne
  · cases f with
    | false => exact ha
    | true =>
      obtain ⟨n1, n2, n3, n4⟩ := h.hf rfl
      rcases hb with hb | hb
      · omega
      · exact hb

end Spec
