/-!
# Bill Chen's starting-hand formula (specification)

In half-points, so that everything is an integer.  `hi ≥ lo` are ranks as pips: 2..10, J = 11,
Q = 12, K = 13, A = 14.
-/
namespace Spec

/-- high-card points, doubled: ace 10, king 8, queen 7, jack 6, otherwise half the pip value -/
def highCardPts2 (r : Nat) : Int :=
  if r = 14 then 20 else if r = 13 then 16 else if r = 12 then 14 else if r = 11 then 12 else r

/-- gap penalty, doubled: 0, 1, 2, 4, 5 points for gaps 0, 1, 2, 3, 4+ -/
def gapPenalty2 : Nat → Int
  | 0 => 0 | 1 => 2 | 2 => 4 | 3 => 8 | _ => 10

/-- round half up: ⌊p/2 + 1/2⌋ for a number of half-points `p2` -/
def roundHalfUp (p2 : Int) : Int := (p2 + 1) / 2

def chenSpec (hi lo : Nat) (suited : Bool) : Int :=
  let base := highCardPts2 hi
  let p :=
    if hi = lo then max (2 * base) 10                          -- a pair: doubled, minimum 5
    else
      let gap := hi - lo - 1
      base - gapPenalty2 gap + (if gap < 2 ∧ hi < 12 then 2 else 0)   -- +1 for a 0/1-gap below a queen
  roundHalfUp (p + (if suited then 4 else 0))                  -- +2 if suited

end Spec
