/-!
# The rules of poker for five cards (specification; no reference to any lookup table)

Ranks are 0..12 (deuce..ace).  `strength rs flush` is larger for the stronger hand; equal for ties.
It is the category digit followed by the tie-break ranks, read as a base-13 number, so that
"category first, then tie-break ranks in order" is plain `<` on `Nat`.
-/
namespace Spec

/-- (rank, how many of the five cards have it), for the ranks present, ace first -/
def counts (rs : List Nat) : List (Nat × Nat) :=
  ([12, 11, 10, 9, 8, 7, 6, 5, 4, 3, 2, 1, 0].map fun r => (r, rs.count r)).filter fun p => p.2 != 0

/-- the same, ordered by multiplicity first: quads, trips, pairs (high to low), then kickers (high to low) -/
def groups (rs : List Nat) : List (Nat × Nat) :=
  let c := counts rs
  c.filter (·.2 == 4) ++ c.filter (·.2 == 3) ++ c.filter (·.2 == 2) ++ c.filter (·.2 == 1)

/-- category digit followed by up to five tie-break ranks, read as a base-13 number -/
def enc (category : Nat) (ranks : List Nat) : Nat :=
  ((category :: ranks) ++ [0, 0, 0, 0, 0]).take 6 |>.foldl (fun acc d => acc * 13 + d) 0

/-- top card of a straight made of five distinct ranks given high to low; the ace may play low -/
def straightTop (a b c d e : Nat) : Option Nat :=
  if a == e + 4 then some a
  else if a == 12 && b == 3 && c == 2 && d == 1 && e == 0 then some 3
  else none

/-- categories: 8 straight flush, 7 four of a kind, 6 full house, 5 flush, 4 straight,
    3 three of a kind, 2 two pair, 1 pair, 0 high card -/
def strength (rs : List Nat) (flush : Bool) : Nat :=
  match groups rs with
  | [(q, 4), (k, 1)]                 => enc 7 [q, k]
  | [(t, 3), (p, 2)]                 => enc 6 [t, p]
  | [(t, 3), (a, 1), (b, 1)]         => enc 3 [t, a, b]
  | [(p, 2), (q, 2), (k, 1)]         => enc 2 [p, q, k]
  | [(p, 2), (a, 1), (b, 1), (c, 1)] => enc 1 [p, a, b, c]
  | [(a, 1), (b, 1), (c, 1), (d, 1), (e, 1)] =>
    match straightTop a b c d e, flush with
    | some t, true  => enc 8 [t]
    | none,   true  => enc 5 [a, b, c, d, e]
    | some t, false => enc 4 [t]
    | none,   false => enc 0 [a, b, c, d, e]
  | _ => 0                                            -- not five cards of a 52-card deck

/-- category of a hand (the leading base-13 digit of its strength) -/
def category (rs : List Nat) (flush : Bool) : Nat := strength rs flush / 13 ^ 5

end Spec
