import CkcVerif.Lemmas.HandValue
import CkcVerif.Lemmas.Ranking
import CkcVerif.Lemmas.FindCorrect
import CkcVerif.Lemmas.SpecCensus
import CkcVerif.Model.SixSeven
/-!
# C01 — the five-card rank value is the hand's exact poker strength ordinal

For **every** list of five distinct real cards (the list order is the slot order, so every slot order
is covered) and all three five-card entry points.  Proof: general lemmas (bridge from words to
ranks, permutation invariance, order embedding) plus kernel evaluation of the 7,462 hand classes
against the regenerated tables (facts A, B, W) and of the specification (fact S).
-/
namespace C01
open CK Spec Lemmas

/-- every five-card entry point returns (never panics) the same value, in 1..7462 -/
theorem C01_entry_points {cs : List Card} (h : IsHand 5 cs) :
    ∃ v, 1 ≤ v ∧ v ≤ 7462 ∧
      handRankValue5 packed (words cs) = some v ∧
      handRankValueAndHand5 packed (words cs) = some (v, words cs) ∧
      handRankValue packed (words cs) = some v ∧
      handRankValueValidated5 packed (words cs) = some v ∧
      handRankValueValidated packed (words cs) = some v ∧
      fiveCards packed (words cs) = some v := by
  obtain ⟨v, _, _, _, _, _, _, e, a1, a2, _⟩ := hand_value h
  have hv : isValid (words cs) = true :=
    isValid_cards cs (by rw [h.len]; omega) h.ok h.nodup
  have hlen : (words cs).length = 5 := by simp [words, h.len]
  have e1 : handRankValueAndHand5 packed (words cs) = some (v, words cs) := by
    unfold handRankValueAndHand5; rw [e]
  have e2 : handRankValue packed (words cs) = some v := by
    unfold handRankValue handRankValueAndHand; rw [hlen]; simp only; rw [e1]; rfl
  refine ⟨v, a1, a2, e, e1, e2, ?_, ?_, ?_⟩
  · unfold handRankValueValidated5; rw [hv]; simpa using e
  · unfold handRankValueValidated; rw [hv]; simpa using e2
  · unfold fiveCards handRankValueValidated5; rw [hv]; simpa using e

/-- a lower value exactly when the first hand beats the second -/
theorem C01_lower_iff_beats {h1 h2 : List Card} (k1 : IsHand 5 h1) (k2 : IsHand 5 h2) {v1 v2 : Nat}
    (e1 : handRankValue5 packed (words h1) = some v1) (e2 : handRankValue5 packed (words h2) = some v2) :
    v1 < v2 ↔ beats h1 h2 := by
  obtain ⟨v, _, _, _, _, _, _, e, _, _, f1, a1, s1⟩ := hand_value k1
  obtain ⟨w, _, _, _, _, _, _, e', _, _, f2, a2, s2⟩ := hand_value k2
  rw [e1] at e; rw [e2] at e'; cases e; cases e'
  unfold beats
  rw [s1, s2]
  exact value_lt_iff f1 f2 a1 a2

/-- the same value exactly when the two hands tie -/
theorem C01_equal_iff_ties {h1 h2 : List Card} (k1 : IsHand 5 h1) (k2 : IsHand 5 h2) {v1 v2 : Nat}
    (e1 : handRankValue5 packed (words h1) = some v1) (e2 : handRankValue5 packed (words h2) = some v2) :
    v1 = v2 ↔ ties h1 h2 := by
  obtain ⟨v, _, _, _, _, _, _, e, _, _, f1, a1, s1⟩ := hand_value k1
  obtain ⟨w, _, _, _, _, _, _, e', _, _, f2, a2, s2⟩ := hand_value k2
  rw [e1] at e; rw [e2] at e'; cases e; cases e'
  unfold ties
  rw [s1, s2]
  exact value_eq_iff f1 f2 a1 a2

/-- the value does not depend on the slot order -/
theorem C01_any_order {h1 h2 : List Card} (k1 : IsHand 5 h1) (p : h1.Perm h2) :
    handRankValue5 packed (words h1) = handRankValue5 packed (words h2) := by
  have k2 : IsHand 5 h2 := ⟨by rw [← p.length_eq, k1.len], p.nodup_iff.mp k1.nodup,
    fun c hc => k1.ok c (p.mem_iff.mpr hc)⟩
  obtain ⟨v, _, _, e1, _⟩ := C01_entry_points k1
  obtain ⟨w, _, _, e2, _⟩ := C01_entry_points k2
  rw [e1, e2]
  have := (C01_equal_iff_ties k1 k2 e1 e2).mpr (handStrength_perm p)
  rw [this]

/-- every value 1..7462 is produced by some hand of five distinct real cards -/
theorem C01_onto (v : Nat) (h1 : 1 ≤ v) (h2 : v ≤ 7462) :
    ∃ cs, IsHand 5 cs ∧ handRankValue5 packed (words cs) = some v := by
  obtain ⟨r1, r2, r3, r4, r5, f, hf, he⟩ := class_onto v h1 h2
  have hw := witness_ok hf
  unfold witnessOk at hw
  match hwit : witness r1 r2 r3 r4 r5 f, hw with
  | [c1, c2, c3, c4, c5], hw =>
    simp only [Bool.and_eq_true, decide_eq_true_eq, List.all_eq_true, beq_iff_eq] at hw
    obtain ⟨⟨⟨hnd, hok⟩, ⟨⟨⟨⟨e1, e2⟩, e3⟩, e4⟩, e5⟩⟩, hs⟩ := hw
    refine ⟨[c1, c2, c3, c4, c5], ⟨rfl, hnd, hok⟩, ?_⟩
    show handRankValue5 packed [c1.word, c2.word, c3.word, c4.word, c5.word] = some v
    rw [eval5_cards c1 c2 c3 c4 c5 (hok c1 (by simp)) (hok c2 (by simp)) (hok c3 (by simp))
      (hok c4 (by simp)) (hok c5 (by simp)), e1, e2, e3, e4, e5, hs, he]

/-- the ends of the scale: a royal flush (any suit) is 1, 7-5-4-3-2 unsuited is 7462; nothing is
    stronger than the former or weaker than the latter -/
theorem C01_ends :
    (∀ s < 4, handRankValue5 packed (words [⟨12, s⟩, ⟨11, s⟩, ⟨10, s⟩, ⟨9, s⟩, ⟨8, s⟩]) = some 1) ∧
    handRankValue5 packed (words [⟨5, 0⟩, ⟨3, 1⟩, ⟨2, 2⟩, ⟨1, 3⟩, ⟨0, 3⟩]) = some 7462 := by
  decide +kernel

/-- **the value is a position**: listing the hand classes by value 1, 2, …, 7462 gives a list that is
    strictly decreasing in strength and contains every feasible class — i.e. the list of all poker hand
    classes sorted strongest first — and the class of five distinct real cards stands in it at position
    `value` (counting from 1) -/
theorem C01_position {cs : List Card} (h : IsHand 5 cs) {v : Nat} (e : handRankValue5 packed (words cs) = some v) :
    ranking.length = 7462 ∧ ranking.Pairwise (fun c d => keyC c > keyC d) ∧
    ∃ c, ranking[v - 1]? = some c ∧ keyC c = handStrength cs ∧
      (ranks cs).Perm [c.1, c.2.1, c.2.2.1, c.2.2.2.1, c.2.2.2.2.1] ∧ c.2.2.2.2.2 = sameSuit cs := by
  obtain ⟨c1, c2, c3, c4, c5, rfl⟩ := hand5_cases h
  have k := h.ok
  have k1 := k c1 (by simp); have k2 := k c2 (by simp); have k3 := k c3 (by simp)
  have k4 := k c4 (by simp); have k5 := k c5 (by simp)
  obtain ⟨q1, q2, q3, q4, q5, hp, hf, he⟩ := five_cards_class c1 c2 c3 c4 c5 k1 k2 k3 k4 k5 h.nodup
  have e' : handRankValue5 packed [c1.word, c2.word, c3.word, c4.word, c5.word] = some v := e
  rw [he] at e'
  obtain ⟨_, _, hget⟩ := ranking_complete hf e'
  refine ⟨ranking_length, ranking_sorted, _, hget, ?_, hp, ?_⟩
  · show key q1 q2 q3 q4 q5 _ = _
    unfold handStrength
    rw [sameSuit5]
    show _ = strength [c1.rank, c2.rank, c3.rank, c4.rank, c5.rank] _
    rw [strength_perm hp, strength_eq_key hf]
  · exact (sameSuit5 c1 c2 c3 c4 c5).symm

/-- every entry of the ranking is a feasible class (a descending rank tuple realisable by five distinct
    cards), and every feasible class is an entry: the ranking lists the 7,462 classes exactly -/
theorem C01_ranking_exact :
    (∀ c ∈ ranking, Feasible c.1 c.2.1 c.2.2.1 c.2.2.2.1 c.2.2.2.2.1 c.2.2.2.2.2) ∧
    (∀ r1 r2 r3 r4 r5 f, Feasible r1 r2 r3 r4 r5 f → (r1, r2, r3, r4, r5, f) ∈ ranking) := by
  constructor
  · intro c hc
    unfold ranking at hc
    obtain ⟨k, hk, e⟩ := List.mem_map.mp hc
    have := (classOf_ok (k + 1) (by omega) (by have := List.mem_range.mp hk; omega)).1
    rw [e] at this
    exact this
  · intro r1 r2 r3 r4 r5 f hf
    obtain ⟨v, ev, _⟩ := feasible_ok hf
    obtain ⟨_, _, hget⟩ := ranking_complete hf ev
    exact List.mem_of_getElem? hget

/-- consequently the value is one more than the number of hand classes that are strictly stronger -/
theorem C01_count_stronger {cs : List Card} (h : IsHand 5 cs) {v : Nat} (e : handRankValue5 packed (words cs) = some v) :
    v = 1 + (ranking.filter (fun c => decide (keyC c > handStrength cs))).length := by
  obtain ⟨hl, hs, c, hget, hk, _⟩ := C01_position h e
  obtain ⟨_, _, _, _, a1, a2, _⟩ := C01_entry_points h
  have hv : 1 ≤ v ∧ v ≤ 7462 := by
    obtain ⟨w, b1, b2, e2, _⟩ := C01_entry_points h
    rw [e] at e2; cases e2; exact ⟨b1, b2⟩
  have hi : v - 1 < ranking.length := by rw [hl]; omega
  have hc : ranking[v - 1] = c := by
    have := List.getElem?_eq_getElem hi
    rw [this] at hget
    exact Option.some.inj hget
  have := count_gt_of_sorted keyC ranking hs (v - 1) hi
  rw [hc, hk] at this
  omega

/-- the binary search of the evaluator is functionally correct for every key: it returns the index of a
    product that is in the (strictly increasing) table, so a non-flush hand with repeated ranks gets the
    value stored with its prime product, and 0 only if the product is absent -/
theorem C01_search_correct (i : Nat) (hi : i < 4888) :
    findInProducts packed (get 32 Gen.productsP i) = some i ∧
    notUniqueKey packed (get 32 Gen.productsP i) = packed.values i :=
  ⟨findInProducts_found i hi, (notUniqueKey_spec _).1 i hi rfl⟩

/-- the specification the values are measured against reproduces the textbook census of poker hands:
    per category (high card … straight flush) 1,277 / 2,860 / 858 / 858 / 10 / 1,277 / 156 / 156 / 10 classes
    and 1,302,540 / 1,098,240 / 123,552 / 54,912 / 10,200 / 5,108 / 3,744 / 624 / 40 hands; 7,462 classes and
    C(52,5) = 2,598,960 hands in all (independent of the crate) -/
theorem C01_spec_census : census =
    [(1277, 1302540), (2860, 1098240), (858, 123552), (858, 54912), (10, 10200), (1277, 5108),
     (156, 3744), (156, 624), (10, 40)] ∧
    (census.map (·.1)).foldl (· + ·) 0 = 7462 ∧ (census.map (·.2)).foldl (· + ·) 0 = 2598960 := census_ok

/-- two hands tie only if they have the same ranks and the same flush-ness: strength determines the class -/
theorem C01_strength_determines_class {r1 r2 r3 r4 r5 : Nat} {f : Bool} {q1 q2 q3 q4 q5 : Nat} {g : Bool}
    (hc : Feasible r1 r2 r3 r4 r5 f) (hd : Feasible q1 q2 q3 q4 q5 g)
    (h : strength [r1, r2, r3, r4, r5] f = strength [q1, q2, q3, q4, q5] g) :
    r1 = q1 ∧ r2 = q2 ∧ r3 = q3 ∧ r4 = q4 ∧ r5 = q5 ∧ f = g := by
  rw [strength_eq_key hc, strength_eq_key hd] at h
  exact key_injective hc hd h

/-- non-vacuity: the hypotheses are met by 7♣ 5♦ 4♥ 3♠ 2♠ -/
example : IsHand 5 [⟨5, 0⟩, ⟨3, 1⟩, ⟨2, 2⟩, ⟨1, 3⟩, ⟨0, 3⟩] := ⟨rfl, by decide, by decide⟩

end C01

#print axioms C01.C01_entry_points
#print axioms C01.C01_lower_iff_beats
#print axioms C01.C01_equal_iff_ties
#print axioms C01.C01_any_order
#print axioms C01.C01_onto
#print axioms C01.C01_ends
#print axioms C01.C01_position
#print axioms C01.C01_ranking_exact
#print axioms C01.C01_count_stronger
#print axioms C01.C01_search_correct
#print axioms C01.C01_spec_census
#print axioms C01.C01_strength_determines_class
