import CkcVerif.Lemmas.HandValue
import CkcVerif.Model.SixSeven
/-!
# C01 — the five-card rank value is the hand's exact poker strength ordinal

For **every** list of five distinct real cards (the list order is the slot order, so every slot order
is covered) and all three five-card entry points.  Proof: general lemmas (bridge from words to
ranks, permutation invariance, order embedding) plus kernel evaluation of the 7,462 hand classes
against the regenerated tables (facts A, B, W) and of the specification (fact S).
-/
namespace C01
open CK Spec Lemmas

/-- every five-card entry point returns (never panics) the same value, in 1..7462 -/
theorem C01_entry_points {cs : List Card} (h : IsHand 5 cs) :
    ∃ v, 1 ≤ v ∧ v ≤ 7462 ∧
      handRankValue5 packed (words cs) = some v ∧
      handRankValueAndHand5 packed (words cs) = some (v, words cs) ∧
      handRankValue packed (words cs) = some v ∧
      handRankValueValidated5 packed (words cs) = some v ∧
      handRankValueValidated packed (words cs) = some v ∧
      fiveCards packed (words cs) = some v := by
  obtain ⟨v, _, _, _, _, _, _, e, a1, a2, _⟩ := hand_value h
  have hv : isValid (words cs) = true :=
    isValid_cards cs (by rw [h.len]; omega) h.ok h.nodup
  have hlen : (words cs).length = 5 := by simp [words, h.len]
  have e1 : handRankValueAndHand5 packed (words cs) = some (v, words cs) := by
    unfold handRankValueAndHand5; rw [e]
  have e2 : handRankValue packed (words cs) = some v := by
    unfold handRankValue handRankValueAndHand; rw [hlen]; simp only; rw [e1]; rfl
  refine ⟨v, a1, a2, e, e1, e2, ?_, ?_, ?_⟩
  · unfold handRankValueValidated5; rw [hv]; simpa using e
  · unfold handRankValueValidated; rw [hv]; simpa using e2
  · unfold fiveCards handRankValueValidated5; rw [hv]; simpa using e

/-- a lower value exactly when the first hand beats the second -/
theorem C01_lower_iff_beats {h1 h2 : List Card} (k1 : IsHand 5 h1) (k2 : IsHand 5 h2) {v1 v2 : Nat}
    (e1 : handRankValue5 packed (words h1) = some v1) (e2 : handRankValue5 packed (words h2) = some v2) :
    v1 < v2 ↔ beats h1 h2 := by
  obtain ⟨v, _, _, _, _, _, _, e, _, _, f1, a1, s1⟩ := hand_value k1
  obtain ⟨w, _, _, _, _, _, _, e', _, _, f2, a2, s2⟩ := hand_value k2
  rw [e1] at e; rw [e2] at e'; cases e; cases e'
  unfold beats
  rw [s1, s2]
  exact value_lt_iff f1 f2 a1 a2

/-- the same value exactly when the two hands tie -/
theorem C01_equal_iff_ties {h1 h2 : List Card} (k1 : IsHand 5 h1) (k2 : IsHand 5 h2) {v1 v2 : Nat}
    (e1 : handRankValue5 packed (words h1) = some v1) (e2 : handRankValue5 packed (words h2) = some v2) :
    v1 = v2 ↔ ties h1 h2 := by
  obtain ⟨v, _, _, _, _, _, _, e, _, _, f1, a1, s1⟩ := hand_value k1
  obtain ⟨w, _, _, _, _, _, _, e', _, _, f2, a2, s2⟩ := hand_value k2
  rw [e1] at e; rw [e2] at e'; cases e; cases e'
  unfold ties
  rw [s1, s2]
  exact value_eq_iff f1 f2 a1 a2

/-- the value does not depend on the slot order -/
theorem C01_any_order {h1 h2 : List Card} (k1 : IsHand 5 h1) (p : h1.Perm h2) :
    handRankValue5 packed (words h1) = handRankValue5 packed (words h2) := by
  have k2 : IsHand 5 h2 := ⟨by rw [← p.length_eq, k1.len], p.nodup_iff.mp k1.nodup,
    fun c hc => k1.ok c (p.mem_iff.mpr hc)⟩
  obtain ⟨v, _, _, e1, _⟩ := C01_entry_points k1
  obtain ⟨w, _, _, e2, _⟩ := C01_entry_points k2
  rw [e1, e2]
  have := (C01_equal_iff_ties k1 k2 e1 e2).mpr (handStrength_perm p)
  rw [this]

/-- every value 1..7462 is produced by some hand of five distinct real cards -/
theorem C01_onto (v : Nat) (h1 : 1 ≤ v) (h2 : v ≤ 7462) :
    ∃ cs, IsHand 5 cs ∧ handRankValue5 packed (words cs) = some v := by
  obtain ⟨r1, r2, r3, r4, r5, f, hf, he⟩ := class_onto v h1 h2
  have hw := witness_ok hf
  unfold witnessOk at hw
  match hwit : witness r1 r2 r3 r4 r5 f, hw with
  | [c1, c2, c3, c4, c5], hw =>
    simp only [Bool.and_eq_true, decide_eq_true_eq, List.all_eq_true, beq_iff_eq] at hw
    obtain ⟨⟨⟨hnd, hok⟩, ⟨⟨⟨⟨e1, e2⟩, e3⟩, e4⟩, e5⟩⟩, hs⟩ := hw
    refine ⟨[c1, c2, c3, c4, c5], ⟨rfl, hnd, hok⟩, ?_⟩
    show handRankValue5 packed [c1.word, c2.word, c3.word, c4.word, c5.word] = some v
    rw [eval5_cards c1 c2 c3 c4 c5 (hok c1 (by simp)) (hok c2 (by simp)) (hok c3 (by simp))
      (hok c4 (by simp)) (hok c5 (by simp)), e1, e2, e3, e4, e5, hs, he]

/-- the ends of the scale: a royal flush (any suit) is 1, 7-5-4-3-2 unsuited is 7462; nothing is
    stronger than the former or weaker than the latter -/
theorem C01_ends :
    (∀ s < 4, handRankValue5 packed (words [⟨12, s⟩, ⟨11, s⟩, ⟨10, s⟩, ⟨9, s⟩, ⟨8, s⟩]) = some 1) ∧
    handRankValue5 packed (words [⟨5, 0⟩, ⟨3, 1⟩, ⟨2, 2⟩, ⟨1, 3⟩, ⟨0, 3⟩]) = some 7462 := by
  decide +kernel

/-- non-vacuity: the hypotheses are met by 7♣ 5♦ 4♥ 3♠ 2♠ -/
example : IsHand 5 [⟨5, 0⟩, ⟨3, 1⟩, ⟨2, 2⟩, ⟨1, 3⟩, ⟨0, 3⟩] := ⟨rfl, by decide, by decide⟩

end C01

#print axioms C01.C01_entry_points
#print axioms C01.C01_lower_iff_beats
#print axioms C01.C01_equal_iff_ties
#print axioms C01.C01_any_order
#print axioms C01.C01_onto
#print axioms C01.C01_ends
