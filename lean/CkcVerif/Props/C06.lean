import CkcVerif.Model.Ranker
import CkcVerif.Props.C02
import CkcVerif.Lemmas.KernNames
import CkcVerif.Lemmas.NamesDistinct
import CkcVerif.Lemmas.HandValue
/-!
# C06 — hand rank name and class describe exactly the poker class of the value
-/
namespace C06
open CK Spec Lemmas

/-- **Invalid for both exactly when the value is 0 or above 7462** — every value (all of `Nat`, in
    particular all 65,536 `u16` values) -/
theorem C06_invalid_iff (v : Nat) :
    (determineName v = Gen.nameInvalid ↔ (v = 0 ∨ v > 7462)) ∧
    (determineClass v = Gen.classInvalid ↔ (v = 0 ∨ v > 7462)) := invalid_iff v

/-- the enumerations have exactly the specified variants, strongest first, `Invalid` last, with
    discriminants 0, 1, 2, … -/
theorem C06_variant_names :
    Gen.nameNames = (down 8 0).map categoryName ++ ["Invalid"] ∧ Gen.nameDiscs = List.range 10 ∧
    Gen.classNames = allDescr.map specName ++ ["Invalid"] ∧ Gen.classDiscs = List.range 310 := by
  decide +kernel

/-- for every value 1..7462 the class variant is the descriptor (category, first and — for full houses and
    two pairs — second tie-break rank) of the hand class with that value, and the name variant its category -/
theorem C06_describes (v : Nat) (h1 : 1 ≤ v) (h2 : v ≤ 7462) :
    let c := classOf v
    Feasible c.1 c.2.1 c.2.2.1 c.2.2.2.1 c.2.2.2.2.1 c.2.2.2.2.2 ∧
    evalAbs c.1 c.2.1 c.2.2.1 c.2.2.2.1 c.2.2.2.2.1 c.2.2.2.2.2 = some v ∧
    allDescr.getD (determineClass v) (0, 0, 0) = descrOfStrength (keyC c) ∧
    determineName v = 8 - keyC c / 13 ^ 5 := by
  have hw := checkW_ok
  simp only [checkW, List.all_eq_true, List.mem_range, Bool.and_eq_true, beq_iff_eq] at hw
  have := hw (v - 1) (by omega)
  have e : v - 1 + 1 = v := by omega
  rw [e] at this
  obtain ⟨_, n, _, _, d, _⟩ := names_at v h1 h2
  exact ⟨(feasibleB_iff _).mp this.1, this.2, d, n⟩

/-- each of the 309 non-Invalid classes is the class of one contiguous, non-empty value range -/
theorem C06_contiguous : contiguousChk = true := contiguousChk_ok

/-- a converted rank passes its own consistency test; the default rank is the conversion of 0 -/
theorem C06_consistent (v : Nat) : (HandRank.ofValue v).isAValidHandRank = true ∧ (HandRank.ofValue v).value = v ∧
    HandRank.default = HandRank.ofValue 0 := by
  refine ⟨?_, rfl, rfl⟩
  unfold HandRank.isAValidHandRank
  simp [HandRank.ofValue]

/-- link to the cards: the rank reported for five distinct real cards (any order) carries the hand's
    value, and its category and class are those of the hand's strength under the rules of poker -/
theorem C06_hand {cs : List Card} (h : IsHand 5 cs) {v : Nat} (e : handRankValue5 packed (words cs) = some v) :
    let r := HandRank.ofValue v
    r.value = v ∧ r.name = 8 - handStrength cs / 13 ^ 5 ∧
    allDescr.getD r.cls (0, 0, 0) = descrOfStrength (handStrength cs) ∧
    Gen.classNames.getD r.cls "" = specName (descrOfStrength (handStrength cs)) ∧
    Gen.nameNames.getD r.name "" = categoryName (handStrength cs / 13 ^ 5) := by
  obtain ⟨v', q1, q2, q3, q4, q5, f, e', a1, a2, hf, hev, hs⟩ := hand_value h
  rw [e] at e'; cases e'
  obtain ⟨cf, ce, cd, cn⟩ := C06_describes v a1 a2
  have hk : keyC (classOf v) = key q1 q2 q3 q4 q5 f := (value_eq_iff cf hf ce hev).mp rfl
  obtain ⟨_, _, hlt, _, _, hc⟩ := names_at v a1 a2
  simp only [HandRank.ofValue]
  rw [hs, ← hk]
  refine ⟨trivial, cn, cd, ?_, ?_⟩
  · rw [C06_variant_names.2.2.1]
    have hl := descrIdx_allDescr.1
    rw [List.getD_eq_getElem?_getD, List.getElem?_append_left (by simp [hl]; exact hlt)]
    rw [List.getElem?_map, ← cd, List.getD_eq_getElem?_getD]
    have : determineClass v < allDescr.length := by rw [hl]; exact hlt
    simp [List.getElem?_eq_getElem this]
  · rw [C06_variant_names.1, cn]
    have : ∀ c ≤ 8, ((down 8 0).map categoryName ++ ["Invalid"]).getD (8 - c) "" = categoryName c := by decide
    exact this _ hc

example : (HandRank.ofValue 1).name = 0 ∧ (HandRank.ofValue 1).cls = 0 ∧ Gen.classNames.getD 0 "" = "RoyalFlush" := by
  decide +kernel

/-- the rank reported for five distinct real cards (trait default `hand_rank`, and the validated form)
    carries the hand's value and names the category and class of the hand's own strength -/
theorem C06_hand_rank_five {cs : List Card} (h : IsHand 5 cs) :
    ∃ r, handRank packed (words cs) = some r ∧ handRankValidated packed (words cs) = some r ∧
      handRankValue packed (words cs) = some r.value ∧ r.isInvalid = false ∧
      Gen.nameNames.getD r.name "" = categoryName (handStrength cs / 13 ^ 5) ∧
      Gen.classNames.getD r.cls "" = specName (descrOfStrength (handStrength cs)) := by
  obtain ⟨v, a1, a2, e5, _, e, _, ev, _⟩ := C01.C01_entry_points h
  obtain ⟨_, _, _, hc, hn⟩ := C06_hand h e5
  refine ⟨HandRank.ofValue v, ?_, ?_, e, ?_, hn, hc⟩
  · unfold handRank; rw [e]; rfl
  · unfold handRankValidated; rw [ev]; rfl
  · cases hi : (HandRank.ofValue v).isInvalid with
    | false => rfl
    | true => have := (isInvalid_iff v).mp hi; omega

/-- for six or seven distinct real cards the reported rank names the category and class of the best
    five-card hand they contain -/
theorem C06_hand_rank_six_seven {n : Nat} (hn : n = 6 ∨ n = 7) {cs : List Card} (h : IsHand n cs) :
    ∃ r best, best ∈ combos 5 cs ∧ handRank packed (words cs) = some r ∧
      handRankValidated packed (words cs) = some r ∧ r.isInvalid = false ∧
      (∀ sub ∈ combos 5 cs, handStrength sub ≤ handStrength best) ∧
      Gen.nameNames.getD r.name "" = categoryName (handStrength best / 13 ^ 5) ∧
      Gen.classNames.getD r.cls "" = specName (descrOfStrength (handStrength best)) := by
  obtain ⟨v, best, hb, a1, a2, e, ev, eb, _, hs, _⟩ := C02.C02_best_of hn h
  obtain ⟨_, _, _, hc, hnm⟩ := C06_hand (sub_isHand h hb) eb
  refine ⟨HandRank.ofValue v, best, hb, ?_, ?_, ?_, hs, hnm, hc⟩
  · unfold handRank; rw [e]; rfl
  · unfold handRankValidated; rw [ev]; rfl
  · cases hi : (HandRank.ofValue v).isInvalid with
    | false => rfl
    | true => have := (isInvalid_iff v).mp hi; omega

/-- the 309 class names of the specification are pairwise distinct (so a name identifies a class) -/
theorem C06_names_distinct : allDescr.Nodup ∧ (allDescr.map specName).Nodup ∧ allDescr.length = 309 :=
  names_distinct

end C06

#print axioms C06.C06_invalid_iff
#print axioms C06.C06_variant_names
#print axioms C06.C06_describes
#print axioms C06.C06_contiguous
#print axioms C06.C06_consistent
#print axioms C06.C06_hand
#print axioms C06.C06_hand_rank_five
#print axioms C06.C06_hand_rank_six_seven
#print axioms C06.C06_names_distinct
