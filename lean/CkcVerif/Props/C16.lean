import CkcVerif.Lemmas.Pop
import CkcVerif.Model.BitCard
import CkcVerif.Spec.Layout
/-!
# C16 — two-card hand from a bit-set: succeeds exactly for two card bits, round-trips
-/
namespace C16
open CK Spec Lemmas

/-- fewer than two bits: not enough cards; more than two: too many — for every 64-bit value -/
theorem C16_counts (x : Nat) :
    (pc 64 x < 2 → twoFromBc x = .notEnoughCards) ∧ (pc 64 x > 2 → twoFromBc x = .tooManyCards) := by
  unfold twoFromBc numberOfCards
  constructor
  · intro h
    have : pc 64 x ≤ 1 := by omega
    simp [this]
  · intro h
    have h1 : ¬ pc 64 x ≤ 1 := by omega
    have h2 : ¬ pc 64 x = 2 := by omega
    simp [h1, h2]

/-- what conversion must give for the two-bit value `2^i ||| 2^j`, `j < i < 64` -/
def twoSpec (i j : Nat) : TwoResult :=
  if i < 52 then .ok (deckWords.getD (51 - i) 0) (deckWords.getD (51 - j) 0) else .invalidBinaryFormat

def twoChk : Bool := (List.range 64).all fun i => (List.range i).all fun j =>
  let x := 2 ^ i ||| 2 ^ j
  (twoFromBc x == twoSpec i j) &&
    (match twoFromBc x with
     | .ok a b => bcFromHand [a, b] == x
     | _ => true)

/-- K over all 2,016 two-bit values -/
theorem C16_two_bits_checked : twoChk = true := by decide +kernel

/-- **exactly two bits**: both card bits ⇒ those two cards in deck order (higher bit first), and converting
    the hand back yields the same set; otherwise an invalid binary format — for every 64-bit value -/
theorem C16_two_bits (x : Nat) (hx : x < 2 ^ 64) (h : pc 64 x = 2) :
    ∃ i j, j < i ∧ i < 64 ∧ x = 2 ^ i ||| 2 ^ j ∧ twoFromBc x = twoSpec i j ∧
      (∀ a b, twoFromBc x = .ok a b → bcFromHand [a, b] = x) := by
  obtain ⟨i, j, hji, hi, e⟩ := two_bits x hx h
  have hk := C16_two_bits_checked
  simp only [twoChk, List.all_eq_true, List.mem_range, Bool.and_eq_true, beq_iff_eq] at hk
  have := hk i hi j hji
  rw [← e] at this
  refine ⟨i, j, hji, hi, e, this.1, ?_⟩
  intro a b hab
  have h2 := this.2
  rw [hab] at h2
  simpa using h2

/-- success happens exactly when the set consists of two real card bits -/
theorem C16_success_iff (x : Nat) (hx : x < 2 ^ 64) :
    (∃ a b, twoFromBc x = .ok a b) ↔ (∃ i j, j < i ∧ i < 52 ∧ x = 2 ^ i ||| 2 ^ j) := by
  constructor
  · rintro ⟨a, b, hab⟩
    have hc : pc 64 x = 2 := by
      by_cases h1 : pc 64 x < 2
      · rw [(C16_counts x).1 h1] at hab; cases hab
      · by_cases h2 : pc 64 x > 2
        · rw [(C16_counts x).2 h2] at hab; cases hab
        · omega
    obtain ⟨i, j, hji, hi, e, hs, _⟩ := C16_two_bits x hx hc
    refine ⟨i, j, hji, ?_, e⟩
    rw [hs] at hab
    unfold twoSpec at hab
    by_cases h52 : i < 52
    · exact h52
    · rw [if_neg h52] at hab; cases hab
  · rintro ⟨i, j, hji, hi, e⟩
    have hk := C16_two_bits_checked
    simp only [twoChk, List.all_eq_true, List.mem_range, Bool.and_eq_true, beq_iff_eq] at hk
    have := (hk i (by omega) j hji).1
    rw [← e] at this
    rw [this]
    unfold twoSpec
    rw [if_pos hi]
    exact ⟨_, _, rfl⟩

example : twoFromBc 3 = .ok 135427 69634 ∧ twoFromBc 1 = .notEnoughCards ∧ twoFromBc 7 = .tooManyCards ∧
    twoFromBc (2 ^ 52 + 1) = .invalidBinaryFormat := by decide +kernel

end C16

#print axioms C16.C16_counts
#print axioms C16.C16_two_bits_checked
#print axioms C16.C16_two_bits
#print axioms C16.C16_success_iff
