import CkcVerif.Model.Card
import CkcVerif.Spec.Layout
import CkcVerif.Lemmas.Lookup
/-!
# C10 — card words follow the documented bit layout; exactly 52 words are cards

Everything here is decided by kernel evaluation over the *regenerated* constants and complete
function graphs (translation + `decide`); nothing hand-modelled is involved except the one-line
mask/shift readers, which the extractor checks against the crate for all 2^32 words
(`Gen.accessorViolations`).
-/
namespace C10
open CK Spec Lemmas

/-- the documented field masks and shifts -/
theorem C10_masks :
    Gen.rankFlagFilter = 0x1FFF0000 ∧ Gen.rankFlagShift = 16 ∧ Gen.rankPrimeFilter = 0x3F ∧
    Gen.suitFilter = 0xF000 ∧ Gen.suitShift = 12 ∧ Gen.suitShortMask = 0xF ∧ Gen.blank = 0 := by decide

/-- each named constant, in the order spades..clubs, ace..deuce, is the layout word -/
theorem C10_named_constants : Gen.cardConsts = deckWords := by decide

/-- the deck produces the same 52 words -/
theorem C10_deck_words : Gen.deck = deckWords := by decide

/-- the 52 layout words are pairwise distinct, non-zero and below 2^29 -/
theorem C10_words_distinct : deckWords.Nodup ∧ ∀ w ∈ deckWords, 0 < w ∧ w < 2 ^ 29 := by decide

/-- the enumerations have exactly the documented members (discriminants, in iteration order) -/
theorem C10_enums :
    Gen.cardRanks = [14, 13, 12, 11, 10, 9, 8, 7, 6, 5, 4, 3, 2, 0] ∧ Gen.cardSuits = [4, 3, 2, 1, 0] ∧
    Gen.rankBlank = 0 ∧ Gen.suitBlank = 0 := by decide

/-- what construction from a rank and a suit must give: the layout word, blank if either is BLANK -/
def createSpec (rd sd : Nat) : Nat := if rd = 0 ∨ sd = 0 then 0 else word (rd - 2) (sd - 1)

/-- construction: the dumped graph covers all 14 × 5 enumeration pairs, in order, with the layout word -/
theorem C10_create_graph :
    Gen.createGraph = Gen.cardRanks.flatMap fun r => Gen.cardSuits.map fun s => (r, s, createSpec r s) := by
  decide

/-- hence `create` of any proper rank and suit is that card's word, and blank members give blank -/
theorem C10_create : ∀ r ∈ Gen.cardRanks, ∀ s ∈ Gen.cardSuits, create r s = createSpec r s := by decide

theorem C10_create_card (c : Card) (h : c.ok) : create (rankDisc c.rank) (suitDisc c.suit) = c.word := by
  obtain ⟨r, s⟩ := c
  have : ∀ r < 13, ∀ s < 4, create (rankDisc r) (suitDisc s) = word r s := by decide
  exact this r h.1 s h.2

/-- suit signatures: one bit in 12..15, clubs lowest -/
theorem C10_suit_signature :
    Gen.suitSignature = [(4, 1 <<< 15), (3, 1 <<< 14), (2, 1 <<< 13), (1, 1 <<< 12), (0, 0)] := by decide

/-- the filter graph over all 2^32 words is exactly the identity on the 52 layout words -/
theorem C10_filter_graph :
    Gen.filterPoints.length = 52 ∧ (∀ p ∈ Gen.filterPoints, p.1 = p.2 ∧ p.1 ∈ deckWords) ∧
    (∀ w ∈ deckWords, (w, w) ∈ Gen.filterPoints) ∧ (Gen.filterPoints.map (·.1)).Nodup := by decide

/-- **of all words the card filter passes exactly the 52 cards and maps every other word to blank**
    (for every natural number, in particular all 2^32 words) -/
theorem C10_filter (w : Nat) : filter w = if w ∈ deckWords then w else 0 := by
  obtain ⟨_, h2, h3, h4⟩ := C10_filter_graph
  unfold filter
  by_cases hw : w ∈ deckWords
  · rw [if_pos hw, lookup_mem (h3 w hw) h4]; rfl
  · rw [if_neg hw, lookup_none]; rfl
    intro p hp e
    exact hw (e ▸ (h2 p hp).2)

/-- no accessor departs from its field anywhere in the 2^32 words; blank test is `= 0` -/
theorem C10_accessors_factor : Gen.accessorViolations = [] ∧ Gen.isBlankPoints = [0] := by decide

theorem C10_is_blank (w : Nat) : isBlank w = true ↔ w = 0 := by
  unfold isBlank; rw [C10_accessors_factor.2]; simp

/-- on the 52 cards every accessor reads its field back -/
theorem C10_accessors : ∀ r < 13, ∀ s < 4,
    let w := word r s
    getCardRank w = rankDisc r ∧ getCardSuit w = suitDisc s ∧ getRankPrime w = prime r ∧
    getRankBit w = 1 <<< r ∧ getRankFlag w = 1 <<< (16 + r) ∧
    getSuitBit w = 1 <<< s ∧ getSuitFlag w = 1 <<< (12 + s) ∧
    getRankChar w = rankCharOf r ∧ getSuitChar w = suitGlyphOf s ∧ getSuitLetter w = suitLetterOf s ∧
    (w >>> 8) &&& 0xF = r := by
  decide

theorem C10_card (c : Card) (h : c.ok) :
    getCardRank c.word = rankDisc c.rank ∧ getCardSuit c.word = suitDisc c.suit ∧
    getRankPrime c.word = prime c.rank ∧ getRankBit c.word = 1 <<< c.rank ∧
    getSuitBit c.word = 1 <<< c.suit ∧ getRankChar c.word = rankCharOf c.rank ∧
    getSuitChar c.word = suitGlyphOf c.suit ∧ getSuitLetter c.word = suitLetterOf c.suit ∧
    filter c.word = c.word := by
  obtain ⟨r, s⟩ := c
  have h1 := C10_accessors r h.1 s h.2
  have hm : word r s ∈ deckWords := by
    have : ∀ r < 13, ∀ s < 4, word r s ∈ deckWords := by decide
    exact this r h.1 s h.2
  simp only at h1
  refine ⟨h1.1, h1.2.1, h1.2.2.1, h1.2.2.2.1, h1.2.2.2.2.2.1, h1.2.2.2.2.2.2.2.1,
    h1.2.2.2.2.2.2.2.2.1, h1.2.2.2.2.2.2.2.2.2.1, ?_⟩
  show filter (word r s) = word r s
  rw [C10_filter, if_pos hm]

/-- blank has no rank, no suit, and the placeholder characters -/
theorem C10_blank : getCardRank 0 = 0 ∧ getCardSuit 0 = 0 ∧ getRankChar 0 = 95 ∧ getSuitChar 0 = 95 ∧
    getSuitLetter 0 = 95 ∧ filter 0 = 0 ∧ isBlank 0 = true := by decide

/-- the primes are prime, increasing with rank -/
theorem C10_primes : ∀ r < 13, 2 ≤ prime r ∧ (∀ d < prime r, 2 ≤ d → prime r % d ≠ 0) ∧
    (r + 1 < 13 → prime r < prime (r + 1)) := by decide

/-- non-vacuity: the ace of spades and the deuce of clubs -/
example : (Card.mk 12 3).ok ∧ (Card.mk 12 3).word = 268471337 ∧ (Card.mk 0 0).word = 69634 := by decide

end C10

#print axioms C10.C10_masks
#print axioms C10.C10_named_constants
#print axioms C10.C10_deck_words
#print axioms C10.C10_words_distinct
#print axioms C10.C10_enums
#print axioms C10.C10_create_graph
#print axioms C10.C10_create
#print axioms C10.C10_create_card
#print axioms C10.C10_suit_signature
#print axioms C10.C10_filter_graph
#print axioms C10.C10_filter
#print axioms C10.C10_accessors_factor
#print axioms C10.C10_is_blank
#print axioms C10.C10_accessors
#print axioms C10.C10_card
#print axioms C10.C10_blank
#print axioms C10.C10_primes
