import CkcVerif.Props.C02
import CkcVerif.Props.C01
import CkcVerif.Lemmas.SubHands
/-!
# C09 — more cards never weaken a hand: seven ≤ every six-subset ≤ every five-subset
-/
namespace C09
open CK Spec Lemmas

/-- a six-card hand is no weaker than any five of its cards, and equals the best of them -/
theorem C09_six_vs_five {g : List Card} (h : IsHand 6 g) :
    (∀ f ∈ combos 5 g, valueD g ≤ valueD f) ∧ (∃ f ∈ combos 5 g, valueD g = valueD f) := by
  obtain ⟨⟨b, hb, e⟩, hmin⟩ := rank_min (Or.inl rfl) h
  refine ⟨fun f hf => ?_, ⟨b, hb, ?_⟩⟩
  · rw [value5 (sub_hand h hf)]; exact hmin f hf
  · rw [value5 (sub_hand h hb)]; exact e

/-- a seven-card hand is no weaker than any six of its cards, and equals the best of them -/
theorem C09_seven_vs_six {cs : List Card} (h : IsHand 7 cs) :
    (∀ g ∈ combos 6 cs, valueD cs ≤ valueD g) ∧ (∃ g ∈ combos 6 cs, valueD cs = valueD g) := by
  obtain ⟨⟨b, hb, e⟩, hmin⟩ := rank_min (Or.inr rfl) h
  have le : ∀ g ∈ combos 6 cs, valueD cs ≤ valueD g := by
    intro g hg
    have hg6 := sub_hand h hg
    obtain ⟨⟨f, hf, ef⟩, _⟩ := rank_min (Or.inl rfl) hg6
    rw [ef]
    exact hmin f (combos_sub 5 g cs f ((mem_combos 6 cs g).mp hg).1 hf)
  refine ⟨le, ?_⟩
  -- the best five cards lie inside some six of the seven
  obtain ⟨hsub, hlen⟩ := (mem_combos 5 cs b).mp hb
  obtain ⟨g, h1, h2, h3⟩ := sublist_interp hsub (by rw [hlen, h.len]; omega)
  have hg : g ∈ combos 6 cs := (mem_combos 6 cs g).mpr ⟨h2, by rw [h3, hlen]⟩
  refine ⟨g, hg, ?_⟩
  have hbg : b ∈ combos 5 g := (mem_combos 5 g b).mpr ⟨h1, hlen⟩
  have h6 := (rank_min (Or.inl rfl) (sub_hand h hg)).2 b hbg
  have := le g hg
  omega

/-- the whole chain, for any six of seven and any five of those six -/
theorem C09_chain {cs g f : List Card} (h : IsHand 7 cs) (hg : g ∈ combos 6 cs) (hf : f ∈ combos 5 g) :
    valueD cs ≤ valueD g ∧ valueD g ≤ valueD f :=
  ⟨(C09_seven_vs_six h).1 g hg, (C09_six_vs_five (sub_hand h hg)).1 f hf⟩

example : IsHand 7 [⟨0, 0⟩, ⟨12, 3⟩, ⟨5, 1⟩, ⟨11, 3⟩, ⟨10, 3⟩, ⟨9, 3⟩, ⟨8, 3⟩] := ⟨rfl, by decide, by decide⟩

/-- the whole chain in terms of strength: the best five of the seven cards is at least as strong as the
    best five of any six of them, which is at least as strong as any five of those six -/
theorem C09_strength_chain {cs g f : List Card} (h : IsHand 7 cs) (hg : g ∈ combos 6 cs) (hf : f ∈ combos 5 g) :
    handStrength f ≤ bestStrength g ∧ bestStrength g ≤ bestStrength cs := by
  have hg6 := sub_hand h hg
  obtain ⟨_, b6, hb6, _, _, _, _, _, _, hs6, e6⟩ := C02.C02_best_of (Or.inl rfl) hg6
  obtain ⟨_, b7, hb7, _, _, _, _, _, _, hs7, e7⟩ := C02.C02_best_of (Or.inr rfl) h
  rw [e6, e7]
  refine ⟨hs6 f hf, ?_⟩
  exact hs7 b6 (combos_sub 5 g cs b6 ((mem_combos 6 cs g).mp hg).1 hb6)

/-- the same chain with the values made explicit (no defaulting): all three rankings return, and
    seven ≤ six ≤ five -/
theorem C09_chain_values {cs g f : List Card} (h : IsHand 7 cs) (hg : g ∈ combos 6 cs) (hf : f ∈ combos 5 g) :
    ∃ v7 v6 v5, handRankValue packed (words cs) = some v7 ∧ handRankValue packed (words g) = some v6 ∧
      handRankValue packed (words f) = some v5 ∧ 1 ≤ v7 ∧ v7 ≤ v6 ∧ v6 ≤ v5 ∧ v5 ≤ 7462 := by
  have hg6 := sub_hand h hg
  have hf5 := sub_hand hg6 hf
  obtain ⟨v7, _, _, a7, _, e7, _⟩ := C02.C02_best_of (Or.inr rfl) h
  obtain ⟨v6, _, _, _, _, e6, _⟩ := C02.C02_best_of (Or.inl rfl) hg6
  obtain ⟨v5, _, b5, _, _, e5, _⟩ := C01.C01_entry_points hf5
  obtain ⟨c1, c2⟩ := C09_chain h hg hf
  have d7 : valueD cs = v7 := by unfold valueD; rw [e7]; rfl
  have d6 : valueD g = v6 := by unfold valueD; rw [e6]; rfl
  have d5 : valueD f = v5 := by unfold valueD; rw [e5]; rfl
  rw [d7, d6] at c1
  rw [d6, d5] at c2
  exact ⟨v7, v6, v5, e7, e6, e5, a7, c1, c2, b5⟩

end C09

#print axioms C09.C09_six_vs_five
#print axioms C09.C09_seven_vs_six
#print axioms C09.C09_chain
#print axioms C09.C09_strength_chain
#print axioms C09.C09_chain_values
