import CkcVerif.Lemmas.Peel
import CkcVerif.Lemmas.Pop
import CkcVerif.Model.Parse
import CkcVerif.Spec.Layout
import CkcVerif.Lemmas.Lookup
/-!
# C15 — card bit-sets behave as sets: union, subset, count, validity, ordered peel

Membership of card `i` (deck position) in a set `x` is `x.testBit (51 - i)`.
-/
namespace C15
open CK Spec Lemmas

/-- the image of word → bit: deck position `i` ↦ bit `51 - i`, anything else ↦ no bit -/
theorem from_ckc_bit (w k : Nat) :
    (fromCkc w).testBit k = true ↔ (k < 52 ∧ w = deckWords.getD (51 - k) 0) := by
  have hpts : ∀ p ∈ Gen.fromCkcPoints, ∃ i < 52, p = (deckWords.getD i 0, 2 ^ (51 - i)) := by decide +kernel
  have hall : ∀ i < 52, fromCkc (deckWords.getD i 0) = 2 ^ (51 - i) := by decide +kernel
  have hinj : ∀ i < 52, ∀ j < 52, deckWords.getD i 0 = deckWords.getD j 0 → i = j := by decide +kernel
  constructor
  · intro hb
    unfold fromCkc at hb
    cases hl : Gen.fromCkcPoints.lookup w with
    | none => rw [hl] at hb; simp at hb
    | some v =>
      rw [hl] at hb
      have hm : (w, v) ∈ Gen.fromCkcPoints := by
        obtain ⟨l1, l2, he, _⟩ := List.lookup_eq_some_iff.mp hl
        rw [he]; simp
      obtain ⟨i, hi, e⟩ := hpts (w, v) hm
      simp only [Prod.mk.injEq] at e
      obtain ⟨e1, e2⟩ := e
      simp only [Option.getD_some] at hb
      rw [e2, Nat.testBit_two_pow] at hb
      have : 51 - i = k := by simpa using hb
      refine ⟨by omega, ?_⟩
      rw [e1]; congr 1; omega
  · rintro ⟨hk, e⟩
    rw [e, hall (51 - k) (by omega), Nat.testBit_two_pow]
    simp; omega

/-- **a set built from a hand of any size contains exactly the real cards among its slots**:
    card at deck position `i` is a member iff its word occurs in some slot; no other bit is ever set -/
theorem C15_from_hand (ws : List Nat) (k : Nat) :
    (bcFromHand ws).testBit k = true ↔ (k < 52 ∧ deckWords.getD (51 - k) 0 ∈ ws) := by
  unfold bcFromHand
  rw [testBit_foldl_or_map]
  simp only [Nat.zero_testBit, Bool.false_or, List.any_eq_true]
  constructor
  · rintro ⟨w, hw, hb⟩
    obtain ⟨hk, e⟩ := (from_ckc_bit w k).mp hb
    exact ⟨hk, e ▸ hw⟩
  · rintro ⟨hk, hm⟩
    exact ⟨_, hm, (from_ckc_bit _ k).mpr ⟨hk, rfl⟩⟩

/-- the same for a set built from text: the cards named by its tokens -/
theorem C15_from_text (s : List Nat) : bcFromIndex s = bcFromHand ((tokens s).map fromIndex) := by
  unfold bcFromIndex bcFromHand foldIn
  rw [List.foldl_map, bcBlank_zero]

/-- folding in is union -/
theorem C15_fold_in (x y k : Nat) : (foldIn x y).testBit k = (x.testBit k || y.testBit k) := by
  unfold foldIn; rw [Nat.testBit_or]

/-- the membership test is a subset test -/
theorem C15_has (x y : Nat) : has x y = true ↔ ∀ k, y.testBit k = true → x.testBit k = true := has_iff_subset x y

/-- the count is the number of members (bits 0..63 set) -/
theorem C15_count (x : Nat) : numberOfCards x = ((List.range 64).filter (fun k => x.testBit k)).length := by
  unfold numberOfCards
  have : ∀ n, pc n x = ((List.range n).filter (fun k => x.testBit k)).length := by
    intro n
    induction n with
    | zero => rfl
    | succ n ih =>
      unfold pc
      rw [List.range_succ, List.filter_append, List.length_append, ih]
      by_cases hb : x.testBit n <;> simp [hb]; omega
  exact this 64

/-- a set is valid exactly when it is non-empty and has no bits above the 52 card bits (any 64-bit value) -/
theorem C15_valid (x : Nat) (hx : x < 2 ^ 64) :
    bcIsValid x = true ↔ (x ≠ 0 ∧ ∀ k, 52 ≤ k → x.testBit k = false) := by
  have hov : Gen.bcOverflow = 2 ^ 64 - 2 ^ 52 ∧ Gen.bcBlank = 0 := by decide
  have hovb : ∀ k, (2 ^ 64 - 2 ^ 52 : Nat).testBit k = (decide (52 ≤ k) && decide (k < 64)) := by
    intro k
    have : (2 ^ 64 - 2 ^ 52 : Nat) = (2 ^ 12 - 1) <<< 52 := by decide
    rw [this, Nat.testBit_shiftLeft, Nat.testBit_two_pow_sub_one]
    by_cases h1 : 52 ≤ k <;> by_cases h2 : k < 64 <;> simp [h1, h2] <;> omega
  unfold bcIsValid numberOfCards
  rw [hov.1, hov.2]
  simp only [Bool.and_eq_true, bne_iff_ne, ne_eq, decide_eq_true_eq]
  constructor
  · rintro ⟨h0, hp⟩
    refine ⟨h0, fun k hk => ?_⟩
    by_cases h64 : k < 64
    · have hz : pc 64 (x &&& (2 ^ 64 - 2 ^ 52)) = 0 := by omega
      have := pc_zero 64 _ hz k h64
      rw [Nat.testBit_and, hovb] at this
      simpa [hk, h64] using this
    · exact Nat.testBit_lt_two_pow (Nat.lt_of_lt_of_le hx (Nat.pow_le_pow_right (by omega) (by omega)))
  · rintro ⟨h0, hb⟩
    refine ⟨h0, ?_⟩
    have : x &&& (2 ^ 64 - 2 ^ 52) = 0 := by
      apply Nat.eq_of_testBit_eq
      intro k
      rw [Nat.testBit_and, hovb, Nat.zero_testBit]
      by_cases h1 : 52 ≤ k
      · simp [hb k h1]
      · simp [h1]
    rw [this, pc_zero_arg]; omega

/-- the bit deck is the list of distinct powers 2^51 … 2^0 -/
theorem bit_deck_pows : Gen.bitDeck = pows ((List.range 52).reverse) ∧ ((List.range 52).reverse).Nodup := by
  decide +kernel

/-- **peeling removes and returns the highest remaining card in deck order**, or returns blank and leaves
    the set unchanged when no card bit is set -/
theorem C15_peel (x : Nat) :
    ((Gen.bitDeck.filter (fun b => has x b) = []) ∧ peel x = (x, 0)) ∨
    (∃ b m, Gen.bitDeck.filter (fun b => has x b) = b :: m ∧ peel x = (x ^^^ b, b) ∧
        Gen.bitDeck.filter (fun b' => has (x ^^^ b) b') = m) := by
  unfold peel
  rw [bit_deck_pows.1]
  have := peel_step _ bit_deck_pows.2 x
  rw [bcBlank_zero] at this
  exact this

/-- **repeated peeling lists the members in deck order and then returns blank for ever** -/
theorem C15_peel_sequence (k x : Nat) :
    (peelIter k x).1 = ((Gen.bitDeck.filter (fun b => has x b)) ++ List.replicate k 0).take k := by
  unfold peelIter
  rw [bit_deck_pows.1]
  exact peelIter_spec _ bit_deck_pows.2 k x

example : (peelIter 4 0b1011).1 = [8, 2, 1, 0] := by decide +kernel
example : bcFromHand [268471337, 0, 69634, 268471337] = 2 ^ 51 + 1 := by decide +kernel

end C15

#print axioms C15.from_ckc_bit
#print axioms C15.C15_from_hand
#print axioms C15.C15_from_text
#print axioms C15.C15_fold_in
#print axioms C15.C15_has
#print axioms C15.C15_count
#print axioms C15.C15_valid
#print axioms C15.bit_deck_pows
#print axioms C15.C15_peel
#print axioms C15.C15_peel_sequence
