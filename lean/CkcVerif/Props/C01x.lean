import CkcVerif.Props.C01
import CkcVerif.Lemmas.Ranking
import CkcVerif.Lemmas.FindCorrect
namespace C01
open CK Spec Lemmas

/-- **the value is a position**: listing the hand classes by value 1, 2, …, 7462 gives a list that is
    strictly decreasing in strength and contains every feasible class — i.e. the list of all poker hand
    classes sorted strongest first — and the class of five distinct real cards stands in it at position
    `value` (counting from 1) -/
theorem C01_position {cs : List Card} (h : IsHand 5 cs) {v : Nat} (e : handRankValue5 packed (words cs) = some v) :
    ranking.length = 7462 ∧ ranking.Pairwise (fun c d => keyC c > keyC d) ∧
    ∃ c, ranking[v - 1]? = some c ∧ keyC c = handStrength cs ∧
      (ranks cs).Perm [c.1, c.2.1, c.2.2.1, c.2.2.2.1, c.2.2.2.2.1] ∧ c.2.2.2.2.2 = sameSuit cs := by
  obtain ⟨c1, c2, c3, c4, c5, rfl⟩ := hand5_cases h
  have k := h.ok
  have k1 := k c1 (by simp); have k2 := k c2 (by simp); have k3 := k c3 (by simp)
  have k4 := k c4 (by simp); have k5 := k c5 (by simp)
  obtain ⟨q1, q2, q3, q4, q5, hp, hf, he⟩ := five_cards_class c1 c2 c3 c4 c5 k1 k2 k3 k4 k5 h.nodup
  have e' : handRankValue5 packed [c1.word, c2.word, c3.word, c4.word, c5.word] = some v := e
  rw [he] at e'
  obtain ⟨_, _, hget⟩ := ranking_complete hf e'
  refine ⟨ranking_length, ranking_sorted, _, hget, ?_, hp, ?_⟩
  · show key q1 q2 q3 q4 q5 _ = _
    unfold handStrength
    rw [sameSuit5]
    show _ = strength [c1.rank, c2.rank, c3.rank, c4.rank, c5.rank] _
    rw [strength_perm hp, strength_eq_key hf]
  · exact (sameSuit5 c1 c2 c3 c4 c5).symm

/-- every entry of the ranking is a feasible class (a descending rank tuple realisable by five distinct
    cards), and every feasible class is an entry: the ranking lists the 7,462 classes exactly -/
theorem C01_ranking_exact :
    (∀ c ∈ ranking, Feasible c.1 c.2.1 c.2.2.1 c.2.2.2.1 c.2.2.2.2.1 c.2.2.2.2.2) ∧
    (∀ r1 r2 r3 r4 r5 f, Feasible r1 r2 r3 r4 r5 f → (r1, r2, r3, r4, r5, f) ∈ ranking) := by
  constructor
  · intro c hc
    unfold ranking at hc
    obtain ⟨k, hk, e⟩ := List.mem_map.mp hc
    have := (classOf_ok (k + 1) (by omega) (by have := List.mem_range.mp hk; omega)).1
    rw [e] at this
    exact this
  · intro r1 r2 r3 r4 r5 f hf
    obtain ⟨v, ev, _⟩ := feasible_ok hf
    obtain ⟨_, _, hget⟩ := ranking_complete hf ev
    exact List.mem_of_getElem? hget

/-- consequently the value is one more than the number of hand classes that are strictly stronger -/
theorem C01_count_stronger {cs : List Card} (h : IsHand 5 cs) {v : Nat} (e : handRankValue5 packed (words cs) = some v) :
    v = 1 + (ranking.filter (fun c => decide (keyC c > handStrength cs))).length := by
  obtain ⟨hl, hs, c, hget, hk, _⟩ := C01_position h e
  obtain ⟨_, _, _, _, a1, a2, _⟩ := C01_entry_points h
  have hv : 1 ≤ v ∧ v ≤ 7462 := by
    obtain ⟨w, b1, b2, e2, _⟩ := C01_entry_points h
    rw [e] at e2; cases e2; exact ⟨b1, b2⟩
  have hi : v - 1 < ranking.length := by rw [hl]; omega
  have hc : ranking[v - 1] = c := by
    have := List.getElem?_eq_getElem hi
    rw [this] at hget
    exact Option.some.inj hget
  have := count_gt_of_sorted keyC ranking hs (v - 1) hi
  rw [hc, hk] at this
  omega

/-- the binary search of the evaluator is functionally correct for every key: it returns the index of a
    product that is in the (strictly increasing) table, so a non-flush hand with repeated ranks gets the
    value stored with its prime product, and 0 only if the product is absent -/
theorem C01_search_correct (i : Nat) (hi : i < 4888) :
    findInProducts packed (get 32 Gen.productsP i) = some i ∧
    notUniqueKey packed (get 32 Gen.productsP i) = packed.values i :=
  ⟨findInProducts_found i hi, (notUniqueKey_spec _).1 i hi rfl⟩

end C01
#print axioms C01.C01_position
#print axioms C01.C01_ranking_exact
#print axioms C01.C01_count_stronger
#print axioms C01.C01_search_correct
