import CkcVerif.Lemmas.ValidHand
import CkcVerif.Props.C02
/-!
# C04 — validated ranking yields 0 exactly for non-hands, for any 32-bit words
-/
namespace C04
open CK Spec Lemmas

/-- **valid ⇔ every slot holds one of the 52 card words and no two slots are equal**, for every size
    2..7 and arbitrary 32-bit words -/
theorem C04_valid_iff (ws : List Nat) (hl : 2 ≤ ws.length ∧ ws.length ≤ 7) (hb : ∀ w ∈ ws, w < 2 ^ 32) :
    isValid ws = true ↔ (∀ w ∈ ws, w ∈ deckWords) ∧ ws.Nodup := isValid_iff ws hl hb

/-- the per-slot recogniser on every word (all 2^32 and beyond) -/
theorem C04_slot_recogniser (w : Nat) : (filter w ≠ Gen.blank ↔ w ∈ deckWords) ∧ (filter w = w ∨ filter w = 0) := by
  rw [filter_eq, blank_zero.1]
  by_cases h : w ∈ deckWords
  · have := (deckWords_facts.2 w h).1
    simp [h]; omega
  · simp [h]

/-- the parts of validity: uniqueness as written for each size, corruption, blanks -/
theorem C04_parts (ws : List Nat) (hl : 2 ≤ ws.length ∧ ws.length ≤ 7) (hb : ∀ w ∈ ws, w < 2 ^ 32) :
    (areUnique ws = true ↔ ws.Nodup ∧ (6 ≤ ws.length → 0xFFFFFFFF ∉ ws)) ∧
    (isCorrupt ws = false ↔ ∀ w ∈ ws, w ∈ deckWords) ∧ (containBlank ws = true ↔ 0 ∈ ws) :=
  ⟨areUnique_iff ws hl hb, isCorrupt_iff ws, containBlank_iff ws⟩

/-- **validated ranking of five, six or seven arbitrary 32-bit words never panics, is 0 exactly when the
    hand is not valid, and otherwise is the (non-zero) value of unvalidated ranking**; the free
    five-card function is the five-slot validated ranking -/
theorem C04_validated (ws : List Nat) (hl : ws.length = 5 ∨ ws.length = 6 ∨ ws.length = 7)
    (hb : ∀ w ∈ ws, w < 2 ^ 32) :
    ∃ r, handRankValueValidated packed ws = some r ∧ (r = 0 ↔ isValid ws = false) ∧
      (isValid ws = true → handRankValue packed ws = some r ∧ 1 ≤ r ∧ r ≤ 7462) ∧
      (ws.length = 5 → fiveCards packed ws = some r ∧ handRankValueValidated5 packed ws = some r) := by
  have z : Gen.noHandRankValue = 0 := blank_zero.2
  cases hv : isValid ws with
  | false =>
    refine ⟨0, ?_, by simp, by simp, ?_⟩
    · unfold handRankValueValidated; rw [hv, z]; rfl
    · intro _; unfold fiveCards handRankValueValidated5; rw [hv, z]; exact ⟨rfl, rfl⟩
  | true =>
    have hl' : 2 ≤ ws.length ∧ ws.length ≤ 7 := by omega
    obtain ⟨hm, hnd⟩ := (isValid_iff ws hl' hb).mp hv
    obtain ⟨cs, hcs, hw⟩ := valid_is_hand ws hm hnd
    have key : ∃ v, handRankValue packed ws = some v ∧ 1 ≤ v ∧ v ≤ 7462 := by
      rcases hl with h5 | h6 | h7
      · rw [h5] at hcs
        obtain ⟨v, a1, a2, _, _, e, _⟩ := C01.C01_entry_points hcs
        exact ⟨v, hw ▸ e, a1, a2⟩
      · rw [h6] at hcs
        obtain ⟨v, _, _, a1, a2, e, _⟩ := C02.C02_best_of (Or.inl rfl) hcs
        exact ⟨v, hw ▸ e, a1, a2⟩
      · rw [h7] at hcs
        obtain ⟨v, _, _, a1, a2, e, _⟩ := C02.C02_best_of (Or.inr rfl) hcs
        exact ⟨v, hw ▸ e, a1, a2⟩
    obtain ⟨v, e, a1, a2⟩ := key
    refine ⟨v, ?_, ?_, fun _ => ⟨e, a1, a2⟩, ?_⟩
    · unfold handRankValueValidated; rw [hv]; simpa using e
    · constructor
      · intro h0; omega
      · intro h; cases h
    · intro h5
      have e5 : handRankValue5 packed ws = some v := by
        unfold handRankValue handRankValueAndHand handRankValueAndHand5 at e
        rw [h5] at e
        simp only at e
        cases hh : handRankValue5 packed ws with
        | none => rw [hh] at e; cases e
        | some u => rw [hh] at e; simpa using e
      unfold fiveCards handRankValueValidated5
      rw [hv]
      simp [e5]

example : isValid [268471337, 134253349] = true ∧ isValid [268471337, 268471337] = false ∧
    isValid [268471337, 23] = false := by decide

end C04

#print axioms C04.C04_valid_iff
#print axioms C04.C04_slot_recogniser
#print axioms C04.C04_parts
#print axioms C04.C04_validated
