import CkcVerif.Model.Card
import CkcVerif.Spec.Layout
import CkcVerif.Lemmas.Lookup
/-!
# C14 — bit-set card form and word form are mutually inverse over the 52 cards
-/
namespace C14
open CK Spec Lemmas

/-- card bit of deck position `i`: bit 51 for the ace of spades down to bit 0 for the deuce of clubs -/
def cardBit (i : Nat) : Nat := 2 ^ (51 - i)

/-- the bit deck and the 52 named bit constants are the card bits in deck order -/
theorem C14_bit_deck : Gen.bitDeck = (List.range 52).map cardBit ∧ Gen.bcConsts = Gen.bitDeck := by decide +kernel

/-- word → bit on the 52 cards, in deck order -/
theorem C14_from_ckc_deck : ∀ i < 52, fromCkc (deckWords.getD i 0) = cardBit i := by decide +kernel

/-- the complete graph of word → bit over all 2^32 words has exactly the 52 card words as support -/
theorem C14_from_ckc_graph : Gen.fromCkcPoints.length = 52 ∧ (∀ p ∈ Gen.fromCkcPoints, p.1 ∈ deckWords) := by
  decide +kernel

/-- **every other word converts to the empty set** (every natural number, in particular all 2^32 words) -/
theorem C14_from_ckc_other (w : Nat) (h : w ∉ deckWords) : fromCkc w = 0 := by
  unfold fromCkc
  rw [lookup_none]; rfl
  intro p hp e
  exact h (e ▸ C14_from_ckc_graph.2 p hp)

/-- bit → word on the 52 card bits -/
theorem C14_from_bc_deck : ∀ i < 52, fromBinaryCard (cardBit i) = deckWords.getD i 0 := by decide +kernel

/-- the dumped points of bit → word: anything with a non-blank image is one of the 52 card bits -/
theorem C14_from_bc_points : ∀ p ∈ Gen.fromBcPoints, p.2 ≠ 0 → ∃ i < 52, p.1 = cardBit i := by decide +kernel

/-- **every 64-bit value (indeed every number) that is not exactly one card bit converts to blank**.
    This is a theorem about the model's shape (exact-match table, default blank); that the crate's
    `from_binary_card` has that shape off the 65 dumped points is what the correspondence samples. -/
theorem C14_from_bc_other (x : Nat) (h : ∀ i < 52, x ≠ cardBit i) : fromBinaryCard x = 0 := by
  unfold fromBinaryCard
  cases hl : Gen.fromBcPoints.lookup x with
  | none => rfl
  | some v =>
    have hm : (x, v) ∈ Gen.fromBcPoints := by
      have := List.lookup_eq_some_iff.mp hl
      obtain ⟨l1, l2, he, _⟩ := this
      rw [he]; simp
    by_cases hv : v = 0
    · simp [hv]
    · obtain ⟨i, hi, e⟩ := C14_from_bc_points (x, v) hm hv
      exact absurd e (h i hi)

/-- mutually inverse on the 52 cards -/
theorem C14_round_trip : (∀ i < 52, fromBinaryCard (fromCkc (deckWords.getD i 0)) = deckWords.getD i 0) ∧
    (∀ i < 52, fromCkc (fromBinaryCard (cardBit i)) = cardBit i) := by decide +kernel

theorem C14_round_trip_card (c : Card) (h : c.ok) :
    fromCkc c.word = cardBit c.deckIndex ∧ fromBinaryCard (fromCkc c.word) = c.word := by
  obtain ⟨r, s⟩ := c
  have : ∀ r < 13, ∀ s < 4, fromCkc (word r s) = cardBit (Card.mk r s).deckIndex ∧
      fromBinaryCard (fromCkc (word r s)) = word r s := by decide +kernel
  exact this r h.1 s h.2

/-- the aggregate constants: all 52 bits, the twelve overflow bits, the thirteen rank groups -/
theorem C14_aggregates : Gen.bcAll = 2 ^ 52 - 1 ∧ Gen.bcOverflow = 2 ^ 64 - 2 ^ 52 ∧ Gen.bcBlank = 0 ∧
    Gen.rankGroups = (List.range 13).map fun k =>
      cardBit k ||| cardBit (13 + k) ||| cardBit (26 + k) ||| cardBit (39 + k) := by decide +kernel

example : fromCkc 268471337 = 2 ^ 51 ∧ fromBinaryCard 1 = 69634 ∧ fromBinaryCard 3 = 0 ∧
    fromBinaryCard (2 ^ 52) = 0 := by decide +kernel

end C14

#print axioms C14.C14_bit_deck
#print axioms C14.C14_from_ckc_deck
#print axioms C14.C14_from_ckc_graph
#print axioms C14.C14_from_ckc_other
#print axioms C14.C14_from_bc_deck
#print axioms C14.C14_from_bc_points
#print axioms C14.C14_from_bc_other
#print axioms C14.C14_round_trip
#print axioms C14.C14_round_trip_card
#print axioms C14.C14_aggregates
