import CkcVerif.Lemmas.Sort
import CkcVerif.Spec.Layout
/-!
# C11 — numeric card order is rank-then-suit; sorting is a descending rearrangement
-/
namespace C11
open CK Spec Lemmas

def orderChk : Bool :=
  (List.range 13).all fun r => (List.range 4).all fun s => (List.range 13).all fun r' => (List.range 4).all fun s' =>
    (decide (word r s < word r' s') == decide (r < r' ∨ (r = r' ∧ s < s'))) && decide (0 < word r s)

theorem C11_order_checked : orderChk = true := by decide +kernel

/-- comparing two real card words as integers compares rank first (ace high) and then suit (spades above
    hearts above diamonds above clubs); blank (0) is below every card — all 52 × 52 pairs -/
theorem C11_card_order (c d : Card) (hc : c.ok) (hd : d.ok) :
    (c.word < d.word ↔ (c.rank < d.rank ∨ (c.rank = d.rank ∧ c.suit < d.suit))) ∧ 0 < c.word := by
  obtain ⟨r, s⟩ := c; obtain ⟨r', s'⟩ := d
  have h := C11_order_checked
  simp only [orderChk, List.all_eq_true, List.mem_range, Bool.and_eq_true, beq_iff_eq, decide_eq_true_eq] at h
  have := h r hc.1 s hc.2 r' hd.1 s' hd.2
  refine ⟨?_, this.2⟩
  have e := this.1
  constructor
  · intro hlt
    have : decide (word r s < word r' s') = true := decide_eq_true hlt
    rw [e] at this
    exact of_decide_eq_true this
  · intro hr
    have : decide (r < r' ∨ r = r' ∧ s < s') = true := decide_eq_true hr
    rw [← e] at this
    exact of_decide_eq_true this

/-- sorting a hand of any size holding any words returns the same multiset of words … -/
theorem C11_sort_perm (ws : List Nat) : (sortDesc ws).Perm ws := sortDesc_perm ws
/-- … in non-increasing order … -/
theorem C11_sort_sorted (ws : List Nat) : (sortDesc ws).Pairwise (fun a b => a ≥ b) := sortDesc_sorted ws
/-- … is idempotent, and depends only on the multiset (so the copying form `sort` and the in-place form
    `sort_in_place`, both modelled by `sortDesc`, agree with any correct sort) -/
theorem C11_sort_idempotent (ws : List Nat) : sortDesc (sortDesc ws) = sortDesc ws := sortDesc_idem ws
theorem C11_sort_unique (ws out : List Nat) (hp : out.Perm ws) (hs : out.Pairwise (fun a b => a ≥ b)) :
    out = sortDesc ws :=
  sorted_perm_unique (hp.trans (sortDesc_perm ws).symm) hs (sortDesc_sorted ws)
theorem C11_sort_length (ws : List Nat) : (sortDesc ws).length = ws.length := sortDesc_length ws

example : sortDesc [3, 0xFFFFFFFF, 0, 7, 3] = [0xFFFFFFFF, 7, 3, 3, 0] := by decide

end C11

#print axioms C11.C11_order_checked
#print axioms C11.C11_card_order
#print axioms C11.C11_sort_perm
#print axioms C11.C11_sort_sorted
#print axioms C11.C11_sort_idempotent
#print axioms C11.C11_sort_unique
#print axioms C11.C11_sort_length
