import CkcVerif.Lemmas.Total
import CkcVerif.Model.HandRank
import CkcVerif.Model.Legacy
/-!
# C05 — ranking never panics on card-or-blank hands; a blank five is Invalid
  (model of the repaired `find_in_products` / `not_unique`)

`none` is the model's panic (bounds check or arithmetic overflow).  No arithmetic site of the
evaluator can overflow on this domain (`multiply_primes ≤ 63^5 < 2^32`; `high + low ≤ 9774`;
`mid - 1` guarded), so checked and wrapping builds agree; the harness runs both.
-/
namespace C05
open CK Spec Lemmas

/-- the public product search returns an in-range index for **every** key -/
theorem C05_find_total (key : Nat) : ∃ j, findInProducts packed key = some j ∧ j < 4888 :=
  findInProducts_total key

/-- the only multiplication of the evaluator never exceeds `u32` -/
theorem C05_no_overflow (a b c d e : Nat) : multiplyPrimes [a, b, c, d, e] < 2 ^ 32 := by
  unfold multiplyPrimes getRankPrime
  rw [eval_consts.2.2]
  have h : ∀ x : Nat, x &&& 63 ≤ 63 := fun x => Nat.and_le_right
  have ha := h a; have hb := h b; have hc := h c; have hd := h d; have he := h e
  calc (a &&& 63) * (b &&& 63) * (c &&& 63) * (d &&& 63) * (e &&& 63)
      ≤ 63 * 63 * 63 * 63 * 63 :=
        Nat.mul_le_mul (Nat.mul_le_mul (Nat.mul_le_mul (Nat.mul_le_mul ha hb) hc) hd) he
    _ < 2 ^ 32 := by decide

/-- every five-slot entry point returns normally on five card-or-blank slots, with any repetition -/
theorem C05_five_total (ws : List Nat) (hl : ws.length = 5) (h : ∀ w ∈ ws, CardOrBlank w) :
    (handRankValueAndHand5 packed ws).isSome ∧ (handRankValue packed ws).isSome ∧
    (handRankValueValidated5 packed ws).isSome ∧ (handRankValueValidated packed ws).isSome ∧
    (fiveCards packed ws).isSome := by
  match ws, hl with
  | [a, b, c, d, e], _ =>
    obtain ⟨v, hv⟩ := five_total (h a (by simp)) (h b (by simp)) (h c (by simp)) (h d (by simp)) (h e (by simp))
    have e1 : handRankValueAndHand5 packed [a, b, c, d, e] = some (v, [a, b, c, d, e]) := by
      unfold handRankValueAndHand5; rw [hv]
    have e2 : handRankValue packed [a, b, c, d, e] = some v := by
      unfold handRankValue handRankValueAndHand; simp only [List.length_cons, List.length_nil]; rw [e1]; rfl
    refine ⟨by rw [e1]; rfl, by rw [e2]; rfl, ?_, ?_, ?_⟩
    · unfold handRankValueValidated5; split <;> simp [hv]
    · unfold handRankValueValidated; split <;> simp [e2]
    · unfold fiveCards handRankValueValidated5; split <;> simp [hv]

/-- a five-slot hand that contains a blank has value 0, through every entry point -/
theorem C05_blank_five_value (ws : List Nat) (hl : ws.length = 5) (h : ∀ w ∈ ws, CardOrBlank w) (hb : 0 ∈ ws) :
    handRankValue packed ws = some 0 ∧ handRankValueValidated packed ws = some 0 ∧ fiveCards packed ws = some 0 := by
  match ws, hl with
  | [a, b, c, d, e], _ =>
    have hv := five_blank (h a (by simp)) (h b (by simp)) (h c (by simp)) (h d (by simp)) (h e (by simp)) hb
    have e2 : handRankValue packed [a, b, c, d, e] = some 0 := by
      unfold handRankValue handRankValueAndHand handRankValueAndHand5
      simp only [List.length_cons, List.length_nil]; rw [hv]; rfl
    have z : Gen.noHandRankValue = 0 := by decide
    refine ⟨e2, ?_, ?_⟩
    · unfold handRankValueValidated; split <;> simp [e2, z]
    · unfold fiveCards handRankValueValidated5; split <;> simp [hv, z]

/-- … and its rank is Invalid in name and class -/
theorem C05_blank_five_invalid : (HandRank.ofValue 0).isInvalid = true ∧
    (HandRank.ofValue 0).name = Gen.nameInvalid ∧ (HandRank.ofValue 0).cls = Gen.classInvalid ∧
    HandRank.default = HandRank.ofValue 0 := by decide +kernel

/-- six- and seven-slot ranking returns normally on card-or-blank slots -/
theorem C05_six_total (ws : List Nat) (hl : ws.length = 6) (h : ∀ w ∈ ws, CardOrBlank w) :
    (handRankValueAndHand6 packed ws).isSome ∧ (handRankValue packed ws).isSome ∧
    (handRankValueValidated packed ws).isSome := by
  obtain ⟨r, hr⟩ := sixseven_total Gen.perms6 ws h (by rw [hl]; exact perms_in_range.1)
  have e1 : handRankValueAndHand6 packed ws = some r := hr
  have e2 : handRankValue packed ws = some r.1 := by
    unfold handRankValue handRankValueAndHand; rw [hl]; simp only; rw [e1]; rfl
  refine ⟨by rw [e1]; rfl, by rw [e2]; rfl, ?_⟩
  unfold handRankValueValidated; split <;> simp [e2]

theorem C05_seven_total (ws : List Nat) (hl : ws.length = 7) (h : ∀ w ∈ ws, CardOrBlank w) :
    (handRankValueAndHand7 packed ws).isSome ∧ (handRankValue packed ws).isSome ∧
    (handRankValueValidated packed ws).isSome := by
  obtain ⟨r, hr⟩ := sixseven_total Gen.perms7 ws h (by rw [hl]; exact perms_in_range.2)
  have e1 : handRankValueAndHand7 packed ws = some r := hr
  have e2 : handRankValue packed ws = some r.1 := by
    unfold handRankValue handRankValueAndHand; rw [hl]; simp only; rw [e1]; rfl
  refine ⟨by rw [e1]; rfl, by rw [e2]; rfl, ?_⟩
  unfold handRankValueValidated; split <;> simp [e2]

/-- the code as it was at the pinned commit panics on A♠ K♠ Q♠ J♠ + blank, on the all-blank default and
    on every key below the smallest product -/
theorem C05_legacy_refuted :
    Legacy.handRankValue5 packed [268471337, 134253349, 67144223, 33589533, 0] = none ∧
    Legacy.handRankValue5 packed [0, 0, 0, 0, 0] = none ∧ Legacy.findInProducts packed 47 = none := by
  decide +kernel

example : CardOrBlank 0 ∧ CardOrBlank 268471337 := ⟨Or.inl rfl, Or.inr (by decide)⟩
example : handRankValue packed [268471337, 134253349, 67144223, 33589533, 0] = some 0 := by decide +kernel

end C05

#print axioms C05.C05_find_total
#print axioms C05.C05_no_overflow
#print axioms C05.C05_five_total
#print axioms C05.C05_blank_five_value
#print axioms C05.C05_blank_five_invalid
#print axioms C05.C05_six_total
#print axioms C05.C05_seven_total
#print axioms C05.C05_legacy_refuted
