import CkcVerif.Lemmas.HandValue
import CkcVerif.Lemmas.KernCat
/-!
# C13 — flush, straight and wheel predicates agree with the hand's actual category
  (model of the repaired `is_straight`)
-/
namespace C13
open CK Spec Lemmas

/-- flush predicate ⇔ all five share a suit -/
theorem C13_flush {cs : List Card} (h : IsHand 5 cs) : isFlush (words cs) = sameSuit cs := (hand_quantities h).2

/-- straight predicate ⇔ the five ranks are distinct and consecutive, ace allowed low -/
theorem C13_straight {cs : List Card} (h : IsHand 5 cs) : isStraight (words cs) = isStraightRanks (ranks cs) := by
  have e := (isStraightMask_ranks (ranks cs) (ranks_lt h)).1
  rw [← e, ← (hand_quantities h).1]; rfl

/-- straight-flush predicate ⇔ both -/
theorem C13_straight_flush {cs : List Card} (h : IsHand 5 cs) :
    isStraightFlush (words cs) = (isStraightRanks (ranks cs) && sameSuit cs) := by
  unfold isStraightFlush; rw [C13_straight h, C13_flush h]

/-- wheel predicate ⇔ the ranks are exactly 5-4-3-2-A -/
theorem C13_wheel {cs : List Card} (h : IsHand 5 cs) : isWheel (words cs) = isWheelRanks (ranks cs) := by
  have e := (isStraightMask_ranks (ranks cs) (ranks_lt h)).2
  rw [← e, ← (hand_quantities h).1]; rfl

/-- the predicates agree with the category of the hand's strength under the rules of poker
    (category digit: 4 straight, 5 flush, 8 straight flush) -/
theorem C13_category {cs : List Card} (h : IsHand 5 cs) :
    let cat := handStrength cs / 13 ^ 5
    isStraight (words cs) = (cat == 4 || cat == 8) ∧ isFlush (words cs) = (cat == 5 || cat == 8) ∧
    isStraightFlush (words cs) = (cat == 8) := by
  obtain ⟨c1, c2, c3, c4, c5, rfl⟩ := hand5_cases h
  have k := h.ok
  have k1 := k c1 (by simp); have k2 := k c2 (by simp); have k3 := k c3 (by simp)
  have k4 := k c4 (by simp); have k5 := k c5 (by simp)
  obtain ⟨q1, q2, q3, q4, q5, hp, hf, _⟩ := five_cards_class c1 c2 c3 c4 c5 k1 k2 k3 k4 k5 h.nodup
  have hs : handStrength [c1, c2, c3, c4, c5] =
      key q1 q2 q3 q4 q5 (allSame c1.suit c2.suit c3.suit c4.suit c5.suit) := by
    unfold handStrength
    rw [sameSuit5]
    show strength [c1.rank, c2.rank, c3.rank, c4.rank, c5.rank] _ = _
    rw [strength_perm hp, strength_eq_key hf]
  have hc := cat_ok hf
  unfold catOk at hc
  simp only [Bool.and_eq_true, beq_iff_eq] at hc
  obtain ⟨hc1, hc2⟩ := hc
  have hm : orRankBits (words [c1, c2, c3, c4, c5]) = orMask5 q1 q2 q3 q4 q5 := by
    rw [(hand_quantities h).1]
    have : orMask5 q1 q2 q3 q4 q5 = orMaskL [q1, q2, q3, q4, q5] := by simp [orMask5, orMaskL, List.foldl]
    rw [this]
    exact orMaskL_perm hp
  have e1 : isStraight (words [c1, c2, c3, c4, c5]) = isStraightMask (orMask5 q1 q2 q3 q4 q5) := by
    rw [← hm]; rfl
  have e2 : isFlush (words [c1, c2, c3, c4, c5]) = allSame c1.suit c2.suit c3.suit c4.suit c5.suit := by
    rw [(hand_quantities h).2, sameSuit5]
  simp only
  rw [hs]
  generalize key q1 q2 q3 q4 q5 (allSame c1.suit c2.suit c3.suit c4.suit c5.suit) / 13 ^ 5 = cat at hc1 hc2 ⊢
  refine ⟨e1.trans hc1, e2.trans hc2, ?_⟩
  unfold isStraightFlush
  rw [e1, e2, hc1, hc2]
  by_cases a : cat = 8
  · subst a; rfl
  · by_cases b : cat = 4
    · subst b; rfl
    · by_cases c : cat = 5
      · subst c; rfl
      · have e8 : (cat == 8) = false := by simpa using a
        have e4 : (cat == 4) = false := by simpa using b
        rw [e8, e4]; rfl

/-- the deprecated free functions agree with the methods, for any five words -/
theorem C13_free_functions (a b c d e : Nat) :
    evaluateIsFlush [a, b, c, d, e] = isFlush [a, b, c, d, e] ∧
    evaluateOrRankBits [a, b, c, d, e] = orRankBits [a, b, c, d, e] := ⟨rfl, rfl⟩

/-- the unrepaired predicate (padding test alone) is refuted on the rank mask of 6-5-4-2-2 -/
theorem C13_legacy_refuted :
    (tz32 0b11101 + lz32 0b11101 == 27) = true ∧ isStraightRanks [4, 3, 2, 0, 0] = false ∧
    isStraightMask 0b11101 = false := by decide

example : IsHand 5 [⟨4, 3⟩, ⟨3, 3⟩, ⟨2, 2⟩, ⟨0, 1⟩, ⟨0, 0⟩] := ⟨rfl, by decide, by decide⟩
example : isStraight (words [⟨4, 3⟩, ⟨3, 3⟩, ⟨2, 2⟩, ⟨0, 1⟩, ⟨0, 0⟩]) = false := by decide
example : isStraight (words [⟨12, 3⟩, ⟨3, 3⟩, ⟨2, 2⟩, ⟨1, 1⟩, ⟨0, 0⟩]) = true := by decide

end C13

#print axioms C13.C13_flush
#print axioms C13.C13_straight
#print axioms C13.C13_straight_flush
#print axioms C13.C13_wheel
#print axioms C13.C13_category
#print axioms C13.C13_free_functions
#print axioms C13.C13_legacy_refuted
