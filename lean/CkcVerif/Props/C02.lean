import CkcVerif.Lemmas.SubHands
import CkcVerif.Props.C01
/-!
# C02 — six- and seven-card value is the best five-card hand they contain
-/
namespace C02
open CK Spec Lemmas

/-- For six or seven distinct real cards in ANY slot order: ranking (plain and validated) returns the
    value `v` of a five-card sub-hand `best`; no five-card sub-hand has a smaller value; and `best` is
    a sub-hand of greatest strength under the rules of poker (the rule-based reading). -/
theorem C02_best_of {n : Nat} (hn : n = 6 ∨ n = 7) {cs : List Card} (h : IsHand n cs) :
    ∃ v best, best ∈ combos 5 cs ∧ 1 ≤ v ∧ v ≤ 7462 ∧
      handRankValue packed (words cs) = some v ∧ handRankValueValidated packed (words cs) = some v ∧
      handRankValue5 packed (words best) = some v ∧
      (∀ sub ∈ combos 5 cs, ∀ w, handRankValue5 packed (words sub) = some w → v ≤ w) ∧
      (∀ sub ∈ combos 5 cs, handStrength sub ≤ handStrength best) ∧
      bestStrength cs = handStrength best := by
  obtain ⟨best, hb, hv, hmin⟩ := rank_n hn h
  have hbh := sub_isHand h hb
  obtain ⟨e, a1, a2⟩ := value5D_hand hbh
  have hval : handRankValue packed (words cs) = some (value5D (words best)) := by
    unfold handRankValue; rw [hv]; rfl
  have hvalid : isValid (words cs) = true :=
    isValid_cards cs (by rw [h.len]; rcases hn with rfl | rfl <;> omega) h.ok h.nodup
  have hmin' : ∀ sub ∈ combos 5 cs, ∀ w, handRankValue5 packed (words sub) = some w → value5D (words best) ≤ w := by
    intro sub hs w hw
    have := hmin sub hs
    have e2 := (value5D_hand (sub_isHand h hs)).1
    rw [hw] at e2; cases e2
    exact this
  have hstr : ∀ sub ∈ combos 5 cs, handStrength sub ≤ handStrength best := by
    intro sub hs
    have e2 := (value5D_hand (sub_isHand h hs)).1
    have hle := hmin sub hs
    have := C01.C01_lower_iff_beats (sub_isHand h hs) hbh e2 e
    unfold beats at this
    omega
  refine ⟨_, best, hb, a1, a2, hval, ?_, e, hmin', hstr, ?_⟩
  · unfold handRankValueValidated; rw [hvalid]; simpa using hval
  · unfold bestStrength
    exact foldl_max_eq _ _ (List.mem_map.mpr ⟨best, hb, rfl⟩)
      (fun x hx => by obtain ⟨s, hs, e⟩ := List.mem_map.mp hx; exact e ▸ hstr s hs)

/-- the value does not depend on the slot order -/
theorem C02_any_order {n : Nat} (hn : n = 6 ∨ n = 7) {cs cs' : List Card} (h : IsHand n cs) (p : cs.Perm cs') :
    handRankValue packed (words cs) = handRankValue packed (words cs') := by
  have h' : IsHand n cs' := ⟨by rw [← p.length_eq, h.len], p.nodup_iff.mp h.nodup,
    fun c hc => h.ok c (p.mem_iff.mpr hc)⟩
  obtain ⟨v, b, hb, _, _, e1, _, eb, m1, _⟩ := C02_best_of hn h
  obtain ⟨v', b', hb', _, _, e1', _, eb', m1', _⟩ := C02_best_of hn h'
  rw [e1, e1']
  -- each best sub-hand is, up to order, a sub-hand of the other list
  have key : ∀ {l l' : List Card} {s : List Card}, IsHand n l → l.Perm l' → s ∈ combos 5 l →
      ∃ s' ∈ combos 5 l', handRankValue5 packed (words s') = handRankValue5 packed (words s) := by
    intro l l' s hl pl hs
    obtain ⟨hsub, hlen⟩ := (mem_combos 5 l s).mp hs
    obtain ⟨s', ps, hsub'⟩ := List.exists_perm_sublist hsub pl
    refine ⟨s', (mem_combos 5 l' s').mpr ⟨hsub', by rw [ps.length_eq, hlen]⟩, ?_⟩
    have hs5 : IsHand 5 s' := ⟨by rw [ps.length_eq, hlen], ps.nodup_iff.mpr (hsub.nodup hl.nodup),
      fun c hc => hl.ok c (hsub.subset (ps.mem_iff.mp hc))⟩
    exact C01.C01_any_order hs5 ps
  obtain ⟨s', hs', es'⟩ := key h p hb
  obtain ⟨s, hs, es⟩ := key h' p.symm hb'
  have le1 : v' ≤ v := m1' s' hs' v (by rw [es', eb])
  have le2 : v ≤ v' := m1 s hs v' (by rw [es, eb'])
  have : v = v' := by omega
  rw [this]

/-- non-vacuity: seven distinct real cards; the value is that of the royal flush they contain -/
example : IsHand 7 [⟨0, 0⟩, ⟨12, 3⟩, ⟨5, 1⟩, ⟨11, 3⟩, ⟨10, 3⟩, ⟨9, 3⟩, ⟨8, 3⟩] := ⟨rfl, by decide, by decide⟩
example : handRankValue packed (words [⟨0, 0⟩, ⟨12, 3⟩, ⟨5, 1⟩, ⟨11, 3⟩, ⟨10, 3⟩, ⟨9, 3⟩, ⟨8, 3⟩]) = some 1 := by
  decide +kernel

end C02

#print axioms C02.C02_best_of
#print axioms C02.C02_any_order
