import CkcVerif.Model.Card
import CkcVerif.Spec.Layout
/-!
# C20 — multiples flags leave card fields intact, strip cleanly, and dominate order
-/
namespace C20
open CK Spec

/-- apply the combination of marks `m` (bit 0 = pair, bit 1 = trips, bit 2 = quads) -/
def mark (m w : Nat) : Nat :=
  let w := if m.testBit 0 then flagAsPair w else w
  let w := if m.testBit 1 then flagAsTrips w else w
  if m.testBit 2 then flagAsQuads w else w

/-- the three flags are bits 29, 30, 31 and the strip mask is everything below -/
theorem C20_constants : Gen.pairFlag = 2 ^ 29 ∧ Gen.tripsFlag = 2 ^ 30 ∧ Gen.quadsFlag = 2 ^ 31 ∧
    Gen.multiplesFilter = 2 ^ 29 - 1 := by decide

/-- on every card and every combination of marks: only the top three bits change; rank, suit, prime and
    characters read the same; marking is idempotent; stripping returns the card -/
theorem C20_fields : ∀ w ∈ deckWords, ∀ m < 8,
    let x := mark m w
    x = w ||| (m <<< 29) ∧ x < 2 ^ 32 ∧
    getCardRank x = getCardRank w ∧ getCardSuit x = getCardSuit w ∧ getRankPrime x = getRankPrime w ∧
    getRankChar x = getRankChar w ∧ getSuitChar x = getSuitChar w ∧ getSuitLetter x = getSuitLetter w ∧
    getRankBit x = getRankBit w ∧ getSuitBit x = getSuitBit w ∧
    mark m x = x ∧ stripMultiplesFlags x = w ∧
    (∀ m' < 8, stripMultiplesFlags (mark m' x) = w) := by decide +kernel

/-- every marked word is above every unmarked card; quads above everything without quads; trips
    (without quads) above everything with at most a pair mark — all 52 × 8 × 52 × 8 combinations
    (arithmetic from `C20_fields`: a marked word is the card plus `m * 2^29`, and cards are below 2^29) -/
theorem C20_order : ∀ w ∈ deckWords, ∀ v ∈ deckWords, ∀ m < 8, ∀ m' < 8,
    (0 < m → mark m w > v) ∧
    (m.testBit 2 = true → m'.testBit 2 = false → mark m w > mark m' v) ∧
    (m.testBit 1 = true → m.testBit 2 = false → m' < 2 → mark m w > mark m' v) := by
  intro w hw v hv m hm m' hm'
  have hb : ∀ w ∈ deckWords, w < 2 ^ 29 := by decide
  have e1 := (C20_fields w hw m hm).1
  have e2 := (C20_fields v hv m' hm').1
  have a1 : w ||| m <<< 29 = m * 2 ^ 29 + w := by
    rw [Nat.or_comm, ← Nat.shiftLeft_add_eq_or_of_lt (hb w hw), Nat.shiftLeft_eq]
  have a2 : v ||| m' <<< 29 = m' * 2 ^ 29 + v := by
    rw [Nat.or_comm, ← Nat.shiftLeft_add_eq_or_of_lt (hb v hv), Nat.shiftLeft_eq]
  rw [e1, e2, a1, a2]
  have hw' := hb w hw
  have hv' := hb v hv
  have tb : ∀ m < 8, (m.testBit 2 = true ↔ 4 ≤ m) ∧ (m.testBit 1 = true → 2 ≤ m) := by decide
  have t1 := tb m hm
  have t2 := tb m' hm'
  refine ⟨by omega, ?_, ?_⟩
  · intro h1 h2
    have : 4 ≤ m := t1.1.mp h1
    have : ¬ 4 ≤ m' := fun h => by simp [t2.1.mpr h] at h2
    omega
  · intro h1 h2 h3
    have : 2 ≤ m := t1.2 h1
    omega

/-- the same bit-level facts for an arbitrary word below 2^29 (not only the 52 cards) -/
theorem C20_any_word (w : Nat) (hw : w < 2 ^ 29) (m : Nat) (_hm : m < 8) :
    stripMultiplesFlags (w ||| (m <<< 29)) = w ∧ (0 < m → w ||| (m <<< 29) ≥ 2 ^ 29) := by
  have hmf : Gen.multiplesFilter = 2 ^ 29 - 1 := C20_constants.2.2.2
  constructor
  · unfold stripMultiplesFlags
    rw [hmf]
    apply Nat.eq_of_testBit_eq
    intro i
    rw [Nat.testBit_and, Nat.testBit_two_pow_sub_one, Nat.testBit_or, Nat.testBit_shiftLeft]
    by_cases hi : i < 29
    · have : ¬ i ≥ 29 := by omega
      simp [hi, this]
    · have hwi : w.testBit i = false :=
        Nat.testBit_lt_two_pow (Nat.lt_of_lt_of_le hw (Nat.pow_le_pow_right (by omega) (by omega)))
      simp [hi, hwi]
  · intro h0
    have h1 : m <<< 29 ≥ 2 ^ 29 := by
      rw [Nat.shiftLeft_eq]
      have : 1 * 2 ^ 29 ≤ m * 2 ^ 29 := Nat.mul_le_mul_right _ h0
      omega
    exact Nat.le_trans h1 Nat.right_le_or

example : mark 5 268471337 = 268471337 + 2 ^ 29 + 2 ^ 31 := by decide

end C20

#print axioms C20.C20_constants
#print axioms C20.C20_fields
#print axioms C20.C20_order
#print axioms C20.C20_any_word
