import CkcVerif.Props.C02
import CkcVerif.Lemmas.SubHands
/-!
# C08 — suit shifting is a rank-preserving 4-cycle and never changes a hand's value
-/
namespace C08
open CK Spec Lemmas

/-- spades → hearts → diamonds → clubs → spades (suit numbers 3, 2, 1, 0) -/
def nextSuitNo (s : Nat) : Nat := (s + 3) % 4

/-- relabel the suit of a card -/
def relabel (σ : Nat → Nat) (c : Card) : Card := ⟨c.rank, σ c.suit⟩

/-- a consistent relabelling of the four suits -/
structure SuitPerm (σ : Nat → Nat) : Prop where
  lt : ∀ s < 4, σ s < 4
  inj : ∀ s < 4, ∀ t < 4, σ s = σ t → s = t

theorem nextSuit_perm : SuitPerm nextSuitNo := ⟨by decide, by decide⟩

/-- shifting a real card keeps its rank and moves its suit one step down the cycle; blank stays blank;
    four shifts restore every card -/
theorem C08_shift_card : (∀ r < 13, ∀ s < 4, shiftSuit (word r s) = word r (nextSuitNo s)) ∧ shiftSuit 0 = 0 ∧
    (∀ w ∈ 0 :: deckWords, shiftSuit (shiftSuit (shiftSuit (shiftSuit w))) = w) ∧
    (∀ w ∈ deckWords, shiftSuit w ≠ w ∧ shiftSuit (shiftSuit w) ≠ w ∧ shiftSuit (shiftSuit (shiftSuit w)) ≠ w) := by
  decide +kernel

/-- shifting a hand of any size shifts the card in every slot -/
theorem C08_container (ws : List Nat) : shiftSuitHand ws = ws.map shiftSuit ∧ (shiftSuitHand ws).length = ws.length :=
  ⟨rfl, by simp [shiftSuitHand]⟩

theorem shift_words (cs : List Card) (h : ∀ c ∈ cs, c.ok) :
    shiftSuitHand (words cs) = words (cs.map (relabel nextSuitNo)) := by
  unfold shiftSuitHand words
  rw [List.map_map, List.map_map]
  apply List.map_congr_left
  intro c hc
  obtain ⟨r, s⟩ := c
  exact C08_shift_card.1 r (h _ hc).1 s (h _ hc).2

theorem relabel_hand {n : Nat} {σ : Nat → Nat} (hσ : SuitPerm σ) {cs : List Card} (h : IsHand n cs) :
    IsHand n (cs.map (relabel σ)) := by
  refine ⟨by simp [h.len], ?_, ?_⟩
  · rw [List.nodup_iff_pairwise_ne, List.pairwise_map]
    exact (List.nodup_iff_pairwise_ne.mp h.nodup).imp_of_mem (fun {a b} ha hb hne e => by
      obtain ⟨r1, s1⟩ := a; obtain ⟨r2, s2⟩ := b
      simp only [relabel, Card.mk.injEq] at e
      have := hσ.inj s1 (h.ok _ ha).2 s2 (h.ok _ hb).2 e.2
      exact hne (by rw [e.1, this]))
  · intro c hc
    obtain ⟨d, hd, e⟩ := List.mem_map.mp hc
    rw [← e]
    exact ⟨(h.ok d hd).1, hσ.lt _ (h.ok d hd).2⟩

theorem relabel_strength {n : Nat} {σ : Nat → Nat} (hσ : SuitPerm σ) {cs : List Card} (h : IsHand n cs) :
    handStrength (cs.map (relabel σ)) = handStrength cs := by
  unfold handStrength
  have e1 : (cs.map (relabel σ)).map (·.rank) = cs.map (·.rank) := by
    rw [List.map_map]; rfl
  have e2 : sameSuit (cs.map (relabel σ)) = sameSuit cs := by
    rw [Bool.eq_iff_iff]
    simp only [sameSuit, List.all_eq_true, beq_iff_eq, List.mem_map, forall_exists_index, and_imp,
      forall_apply_eq_imp_iff₂]
    constructor
    · intro hh a ha b hb
      exact hσ.inj _ (h.ok a ha).2 _ (h.ok b hb).2 (hh a ha b hb)
    · intro hh a ha b hb
      show σ a.suit = σ b.suit
      rw [hh a ha b hb]
  rw [e1, e2]

/-- no suit outranks another: any consistent relabelling of the four suits leaves a five-card value
    unchanged — all 24 relabellings, all hands, all slot orders -/
theorem C08_relabel_five {σ : Nat → Nat} (hσ : SuitPerm σ) {cs : List Card} (h : IsHand 5 cs) :
    handRankValue5 packed (words (cs.map (relabel σ))) = handRankValue5 packed (words cs) := by
  have h' := relabel_hand hσ h
  obtain ⟨v, _, _, e, _⟩ := C01.C01_entry_points h
  obtain ⟨w, _, _, e', _⟩ := C01.C01_entry_points h'
  rw [e, e']
  have := (C01.C01_equal_iff_ties h' h e' e).mpr (relabel_strength hσ h)
  rw [this]

/-- the same for six and seven cards -/
theorem C08_relabel_six_seven {n : Nat} (hn : n = 6 ∨ n = 7) {σ : Nat → Nat} (hσ : SuitPerm σ)
    {cs : List Card} (h : IsHand n cs) :
    handRankValue packed (words (cs.map (relabel σ))) = handRankValue packed (words cs) := by
  have h' := relabel_hand hσ h
  obtain ⟨v, b, hb, _, _, e1, _, eb, m1, _⟩ := C02.C02_best_of hn h
  obtain ⟨v', b', hb', _, _, e1', _, eb', m1', _⟩ := C02.C02_best_of hn h'
  rw [e1, e1']
  have hc : combos 5 (cs.map (relabel σ)) = (combos 5 cs).map (List.map (relabel σ)) := combos_map _ 5 cs
  -- the relabelled best five of `cs` is a sub-hand of the relabelled cards, with the same value
  have le1 : v' ≤ v := by
    apply m1' (b.map (relabel σ)) (by rw [hc]; exact List.mem_map.mpr ⟨b, hb, rfl⟩)
    rw [C08_relabel_five hσ (sub_isHand h hb), eb]
  -- and the best five of the relabelled cards is the relabelling of a sub-hand of `cs`
  have le2 : v ≤ v' := by
    rw [hc] at hb'
    obtain ⟨s, hs, es⟩ := List.mem_map.mp hb'
    apply m1 s hs
    rw [← C08_relabel_five hσ (sub_isHand h hs), es, eb']
  have : v = v' := by omega
  rw [this]

/-- in particular shifting never changes the value of a five-, six- or seven-card hand -/
theorem C08_shift_value {n : Nat} (hn : n = 5 ∨ n = 6 ∨ n = 7) {cs : List Card} (h : IsHand n cs) :
    handRankValue packed (shiftSuitHand (words cs)) = handRankValue packed (words cs) := by
  rw [shift_words cs h.ok]
  rcases hn with rfl | hn
  · have h' := relabel_hand nextSuit_perm h
    obtain ⟨v, _, _, e5, _, e, _⟩ := C01.C01_entry_points h
    obtain ⟨v', _, _, e5', _, e', _⟩ := C01.C01_entry_points h'
    rw [e, e']
    have := C08_relabel_five nextSuit_perm h
    rw [e5, e5'] at this
    exact this
  · exact C08_relabel_six_seven hn nextSuit_perm h

example : shiftSuit 268471337 = 268454953 := by decide +kernel

end C08

#print axioms C08.C08_shift_card
#print axioms C08.C08_container
#print axioms C08.C08_relabel_five
#print axioms C08.C08_relabel_six_seven
#print axioms C08.C08_shift_value
#print axioms C08.nextSuit_perm
#print axioms C08.shift_words
#print axioms C08.relabel_hand
#print axioms C08.relabel_strength
