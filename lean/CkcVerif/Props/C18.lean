import CkcVerif.Model.Card
import CkcVerif.Generated.Presets
import CkcVerif.Spec.Layout
import CkcVerif.Spec.Combos
import CkcVerif.Lemmas.Combos
/-!
# C18 — deck and published combination tables are complete and duplicate-free

All tables are regenerated from the compiled crate; the statements are kernel evaluations over them,
lifted to "every combination exactly once" by `Lemmas.mem_combos`.
-/
namespace C18
open CK Spec Lemmas

/-- the deck lists spades, hearts, diamonds, clubs, each ace down to deuce -/
theorem C18_deck : Gen.deck = deckWords ∧ Gen.deck.length = 52 ∧ Gen.deck.Nodup ∧ Gen.deckLen = 52 ∧
    Gen.deckSize = 52 := by decide

/-- every card occurs exactly once, at its documented position -/
theorem C18_deck_complete : ∀ r < 13, ∀ s < 4, Gen.deck.count (word r s) = 1 ∧
    Gen.deck[(Card.mk r s).deckIndex]? = some (word r s) := by decide

/-- **indexing at or past the end gives blank, for every index** -/
theorem C18_deck_get (i : Nat) : deckGet i = if i < 52 then deckWords.getD i 0 else 0 := by
  unfold deckGet
  rw [C18_deck.2.2.2.1, C18_deck.1]
  rfl

/-- all unordered pairs of the four suits, higher suit first: (3,2) (3,1) (3,0) (2,1) (2,0) (1,0) -/
def suitPairs : List (Nat × Nat) := (combos 2 [3, 2, 1, 0]).map fun p => (p.getD 0 0, p.getD 1 0)

/-- the six ace pairs: every unordered pair of aces once, higher suit first -/
theorem C18_AA : Gen.presetAA = suitPairs.map (fun p => [word 12 p.1, word 12 p.2]) ∧ Gen.presetAA.Nodup := by
  decide

/-- all 16 ace-kings (ace first): the four suited ones first (spades..clubs), then the twelve offsuit
    ones by ace suit then king suit, both descending -/
def bigSlick (k : Nat) : List (List Nat) :=
  ([3, 2, 1, 0].map fun s => [word 12 s, word k s]) ++
  ([3, 2, 1, 0].flatMap fun s => ([3, 2, 1, 0].filter (· != s)).map fun t => [word 12 s, word k t])

theorem C18_AK : Gen.presetAK = bigSlick 11 ∧ Gen.presetAK.Nodup ∧ Gen.presetAK.length = 16 := by decide
theorem C18_AK_split : Gen.presetAKs ++ Gen.presetAKo = Gen.presetAK ∧ Gen.presetAKs.length = 4 ∧
    Gen.presetAKo.length = 12 ∧ (∀ h ∈ Gen.presetAKs, ∃ s < 4, h = [word 12 s, word 11 s]) ∧
    (∀ h ∈ Gen.presetAKo, ∃ s < 4, ∃ t < 4, s ≠ t ∧ h = [word 12 s, word 11 t]) := by decide
theorem C18_AQ : Gen.presetAQs ++ Gen.presetAQo = bigSlick 10 ∧ Gen.presetAQs.length = 4 ∧
    Gen.presetAQo.length = 12 ∧ (Gen.presetAQs ++ Gen.presetAQo).Nodup := by decide

/-- every ace-king combination is present: for any ace suit and king suit -/
theorem C18_AK_complete : ∀ s < 4, ∀ t < 4, [word 12 s, word 11 t] ∈ Gen.presetAK ∧
    [word 12 s, word 10 t] ∈ Gen.presetAQs ++ Gen.presetAQo := by decide

/-- the published slot-index tables are the combinations, in lexicographic order -/
theorem C18_slot_tables : Gen.omaha = combos 2 (List.range 4) ∧ Gen.perms6 = combos 5 (List.range 6) ∧
    Gen.perms7 = combos 5 (List.range 7) := by decide

/-- hence a row is in the seven-slot table iff it is a strictly increasing 5-tuple of slots 0..6 -/
theorem C18_perms7_mem (row : List Nat) :
    row ∈ Gen.perms7 ↔ row.Sublist (List.range 7) ∧ row.length = 5 := by
  rw [C18_slot_tables.2.2]; exact mem_combos 5 _ row
theorem C18_perms6_mem (row : List Nat) :
    row ∈ Gen.perms6 ↔ row.Sublist (List.range 6) ∧ row.length = 5 := by
  rw [C18_slot_tables.2.1]; exact mem_combos 5 _ row
theorem C18_omaha_mem (row : List Nat) :
    row ∈ Gen.omaha ↔ row.Sublist (List.range 4) ∧ row.length = 2 := by
  rw [C18_slot_tables.1]; exact mem_combos 2 _ row
/-- … each exactly once, with the expected counts 6, 6, 21 -/
theorem C18_slot_tables_nodup : Gen.omaha.Nodup ∧ Gen.perms6.Nodup ∧ Gen.perms7.Nodup ∧
    Gen.omaha.length = 6 ∧ Gen.perms6.length = 6 ∧ Gen.perms7.length = 21 := by decide

/-- non-vacuity -/
example : [0, 2, 3, 5, 6] ∈ Gen.perms7 := by decide
example : deckGet 0 = 268471337 ∧ deckGet 51 = 69634 ∧ deckGet 52 = 0 ∧ deckGet (2 ^ 64 - 1) = 0 := by decide

end C18

#print axioms C18.C18_deck
#print axioms C18.C18_deck_complete
#print axioms C18.C18_deck_get
#print axioms C18.C18_AA
#print axioms C18.C18_AK
#print axioms C18.C18_AK_split
#print axioms C18.C18_AQ
#print axioms C18.C18_AK_complete
#print axioms C18.C18_slot_tables
#print axioms C18.C18_perms7_mem
#print axioms C18.C18_perms6_mem
#print axioms C18.C18_omaha_mem
#print axioms C18.C18_slot_tables_nodup
