import CkcVerif.Lemmas.SubHands
import CkcVerif.Props.C01
/-!
# C03 — the reported best hand is a sorted five-card witness drawn from the input
-/
namespace C03
open CK Spec Lemmas

/-- for a five-card input the reported hand is the input unchanged (any five words for which ranking
    returns) -/
theorem C03_five_identity (ws : List Nat) (v : Nat) (h : handRankValue5 packed ws = some v) :
    handRankValueAndHand5 packed ws = some (v, ws) := by
  unfold handRankValueAndHand5; rw [h]

/-- for six or seven distinct real cards in any order the reported hand `hand`
    * consists of five distinct words, all taken from the input (it is a rearrangement of the words of
      a five-card sub-hand `best` of the input cards),
    * is arranged in descending card order,
    * and ranking it on its own gives exactly the reported value -/
theorem C03_witness {n : Nat} (hn : n = 6 ∨ n = 7) {cs : List Card} (h : IsHand n cs) :
    ∃ v hand best, handRankValueAndHand packed (words cs) = some (v, hand) ∧
      best ∈ combos 5 cs ∧ hand.Perm (words best) ∧
      hand.length = 5 ∧ hand.Nodup ∧ (∀ w ∈ hand, w ∈ words cs) ∧
      hand.Pairwise (fun a b => a ≥ b) ∧
      handRankValue5 packed hand = some v ∧ handRankValueAndHand5 packed hand = some (v, hand) := by
  obtain ⟨best, hb, hv, _⟩ := rank_n hn h
  have hbh := sub_isHand h hb
  obtain ⟨e, _, _⟩ := value5D_hand hbh
  have hp := sortDesc_perm (words best)
  have hlen : (words best).length = 5 := by simp [words, hbh.len]
  have hval : handRankValue5 packed (sortDesc (words best)) = some (value5D (words best)) := by
    rw [handRankValue5_perm packed (by rw [sortDesc_length, hlen]) hp, e]
  refine ⟨_, _, best, hv, hb, hp, by rw [sortDesc_length, hlen], ?_, ?_, sortDesc_sorted _, hval, ?_⟩
  · exact hp.nodup_iff.mpr (words_nodup best hbh.ok hbh.nodup)
  · intro w hw
    have hm := hp.mem_iff.mp hw
    obtain ⟨c, hc, e2⟩ := List.mem_map.mp hm
    have hsub := ((mem_combos 5 cs best).mp hb).1
    exact List.mem_map.mpr ⟨c, hsub.subset hc, e2⟩
  · exact C03_five_identity _ _ hval

example : handRankValueAndHand packed (words [⟨0, 0⟩, ⟨12, 3⟩, ⟨5, 1⟩, ⟨11, 3⟩, ⟨10, 3⟩, ⟨9, 3⟩, ⟨8, 3⟩]) =
    some (1, words [⟨12, 3⟩, ⟨11, 3⟩, ⟨10, 3⟩, ⟨9, 3⟩, ⟨8, 3⟩]) := by decide +kernel

end C03

#print axioms C03.C03_five_identity
#print axioms C03.C03_witness
