import CkcVerif.Lemmas.TokensSplit
import CkcVerif.Lemmas.Tokens
import CkcVerif.Spec.Symbols
import CkcVerif.Spec.Layout
/-!
# C12 — text parsing is total; a token is a card iff it starts with rank+suit symbols

Text is a list of Unicode scalar values.  The model has no panic path (the parsing code contains no
index expression and no arithmetic); "never panics" for the real code is observed by the
correspondence check under `catch_unwind` — this part of the property is partial.
-/
namespace C12
open CK Spec Lemmas

/-- the three character graphs (over all 1,112,064 scalar values) are the documented symbol tables -/
theorem C12_symbol_tables : Gen.rankChars = rankSymbols ∧ Gen.suitChars = suitSymbols ∧
    Gen.whitespace = whiteSpace ∧ Gen.rankBlank = 0 ∧ Gen.suitBlank = 0 := by decide

theorem C12_chars (c : Nat) : rankFromChar c = rankOfChar c ∧ suitFromChar c = suitOfChar c ∧
    isWhitespace c = whiteSpace.contains c := by
  obtain ⟨h1, h2, h3, h4, h5⟩ := C12_symbol_tables
  unfold rankFromChar suitFromChar isWhitespace rankOfChar suitOfChar
  rw [h1, h2, h3, h4, h5]
  exact ⟨rfl, rfl, rfl⟩

/-- what a card token must mean -/
def tokenSpec : List Nat → Nat
  | c1 :: c2 :: _ =>
    if rankOfChar c1 ≠ 0 ∧ suitOfChar c2 ≠ 0 then word (rankOfChar c1 - 2) (suitOfChar c2 - 1) else 0
  | _ => 0

/-- construction on every pair of symbol-table values -/
theorem create_table : ∀ r ∈ 0 :: rankSymbols.map (·.2), ∀ s ∈ 0 :: suitSymbols.map (·.2),
    create r s = if r ≠ 0 ∧ s ≠ 0 then word (r - 2) (s - 1) else 0 := by decide +kernel

theorem lookup_mem_values (l : List (Nat × Nat)) (c : Nat) : (l.lookup c).getD 0 ∈ 0 :: l.map (·.2) := by
  induction l with
  | nil => simp
  | cons p ps ih =>
    obtain ⟨a, b⟩ := p
    rw [List.lookup_cons]
    by_cases h : c == a
    · simp [h]
    · simp only [h]
      rcases List.mem_cons.mp ih with h0 | h1
      · rw [h0]; simp
      · exact List.mem_cons_of_mem _ (by rw [List.map_cons]; exact List.mem_cons_of_mem _ h1)

/-- **a token is a real card exactly when its first character is a rank symbol and its second a suit
    symbol — namely the card of that rank and suit; anything else is blank** (every string) -/
theorem C12_token (s : List Nat) : fromIndex s = tokenSpec s := by
  unfold fromIndex getRankAndSuit tokenSpec
  match s with
  | [] => simp only; rw [C12_symbol_tables.2.2.2.1, C12_symbol_tables.2.2.2.2]; decide +kernel
  | [_] => simp only; rw [C12_symbol_tables.2.2.2.1, C12_symbol_tables.2.2.2.2]; decide +kernel
  | c1 :: c2 :: rest =>
    simp only
    rw [(C12_chars c1).1, (C12_chars c2).2.1]
    exact create_table _ (lookup_mem_values _ c1) _ (lookup_mem_values _ c2)

/-- a card token yields a real card word or blank, never anything else -/
theorem C12_token_range (s : List Nat) : fromIndex s = 0 ∨ fromIndex s ∈ deckWords := by
  rw [C12_token]
  unfold tokenSpec
  match s with
  | [] => left; rfl
  | [_] => left; rfl
  | c1 :: c2 :: _ =>
    simp only
    have h : ∀ r ∈ 0 :: rankSymbols.map (·.2), ∀ su ∈ 0 :: suitSymbols.map (·.2),
        (if r ≠ 0 ∧ su ≠ 0 then word (r - 2) (su - 1) else 0) = 0 ∨
        (if r ≠ 0 ∧ su ≠ 0 then word (r - 2) (su - 1) else 0) ∈ deckWords := by decide +kernel
    exact h _ (lookup_mem_values _ c1) _ (lookup_mem_values _ c2)

/-- **parsing a hand fails exactly when the text has fewer whitespace-separated tokens than slots, and
    otherwise fills the slots in token order** -/
theorem C12_hand (n : Nat) (s : List Nat) :
    (parseHand n s = none ↔ (tokens s).length < n) ∧
    (n ≤ (tokens s).length → parseHand n s = some (((tokens s).take n).map tokenSpec)) := by
  unfold parseHand
  constructor
  · by_cases h : (tokens s).length < n <;> simp [h]
  · intro h
    have : ¬ (tokens s).length < n := by omega
    simp only [this, if_false]
    congr 1
    apply List.map_congr_left
    intro t _
    exact C12_token t

/-- tokens are the maximal whitespace-free runs: each is non-empty and has no whitespace; text without
    whitespace is one token -/
theorem C12_tokens (s : List Nat) :
    (∀ t ∈ tokens s, t ≠ [] ∧ ∀ c ∈ t, isWhitespace c = false) ∧
    ((∀ c ∈ s, isWhitespace c = false) → s ≠ [] → tokens s = [s]) :=
  ⟨tokens_spec s, fun h hne => tokens_no_ws s h hne⟩

/-- rendering any of the 52 cards with its rank character and its suit glyph or suit letter parses back
    to the same card -/
theorem C12_round_trip : ∀ w ∈ deckWords,
    fromIndex [getRankChar w, getSuitChar w] = w ∧ fromIndex [getRankChar w, getSuitLetter w] = w ∧
    parseHand 1 [getRankChar w, getSuitLetter w] = some [w] := by decide +kernel

example : fromIndex [0x41, 0x2660] = 268471337 ∧ fromIndex [0x74, 0x63, 0x21] = word 8 0 ∧
    fromIndex [0x31, 0x53] = 0 := by decide +kernel
example : parseHand 2 [0x41, 0x53, 0x20, 0x9, 0x4B, 0x2660] = some [268471337, 134253349] := by decide +kernel
example : parseHand 3 [0x41, 0x53, 0x20, 0x4B, 0x53] = none := by decide +kernel

/-- **tokens are exactly the maximal whitespace-free runs, in order**: splitting at a whitespace character
    splits the token list; the characters of the tokens are the non-whitespace characters of the text.
    With `C12_tokens` (a whitespace-free run is one token) these equations determine `tokens` on every
    string. -/
theorem C12_tokens_split (a : List Nat) (w : Nat) (b : List Nat) (hw : isWhitespace w = true) :
    tokens (a ++ w :: b) = tokens a ++ tokens b ∧ tokens ([] : List Nat) = [] ∧
    (tokens (a ++ w :: b)).flatten = (a ++ w :: b).filter (fun c => !isWhitespace c) :=
  ⟨tokens_append_ws a w b hw, rfl, tokens_flatten _⟩

end C12

#print axioms C12.C12_symbol_tables
#print axioms C12.C12_chars
#print axioms C12.create_table
#print axioms C12.lookup_mem_values
#print axioms C12.C12_token
#print axioms C12.C12_token_range
#print axioms C12.C12_hand
#print axioms C12.C12_tokens
#print axioms C12.C12_round_trip
#print axioms C12.C12_tokens_split
