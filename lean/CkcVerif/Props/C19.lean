import CkcVerif.Model.Containers
import CkcVerif.Model.SixSeven
import CkcVerif.Lemmas.Best
/-!
# C19 — hand containers store and return exactly the words put into them

The model state is the slot list; the statement is a refinement to the simplest possible spec, a plain
list that receives the same writes.  The theorems pin what each operation means; the substance of
this property is the step-by-step correspondence with the real containers (which setter name writes
which slot), run by the harness.
-/
namespace C19
open CK Lemmas

/-- one setter: the named slot now holds the word, every other slot is unchanged, the size is unchanged -/
theorem C19_setter (ws : List Nat) (k x j : Nat) :
    (applyOp ws (.set k x)).length = ws.length ∧
    (applyOp ws (.set k x))[j]? = if j = k ∧ k < ws.length then some x else ws[j]? := by
  unfold applyOp
  refine ⟨List.length_set, ?_⟩
  rw [List.getElem?_set]
  by_cases h : k = j
  · subst h
    by_cases hl : k < ws.length
    · simp [hl]
    · simp [hl]
  · have h' : ¬ j = k := fun e => h e.symm
    simp [h, h']

/-- the last write to slot `j` in a history, if any -/
def lastWrite (ops : List Op) (j : Nat) : Option Nat :=
  ops.foldl (fun acc op => match op with | .set k x => if k = j then some x else acc) none

/-- **any sequence of setters**: the size never changes, and slot `j` holds the last word written to it,
    or its initial word if it was never written — the container equals a plain array that received the
    same writes -/
theorem C19_history (ws : List Nat) (ops : List Op) (j : Nat) (hj : j < ws.length) :
    (runOps ws ops).length = ws.length ∧
    (runOps ws ops)[j]? = some ((lastWrite ops j).getD (ws.getD j 0)) := by
  unfold runOps lastWrite
  suffices ∀ (ops : List Op) (cur : List Nat) (acc : Option Nat), cur.length = ws.length →
      cur[j]? = some (acc.getD (ws.getD j 0)) →
      (ops.foldl applyOp cur).length = ws.length ∧
      (ops.foldl applyOp cur)[j]? =
        some ((ops.foldl (fun acc op => match op with | .set k x => if k = j then some x else acc) acc).getD (ws.getD j 0)) by
    apply this ops ws none rfl
    simp [List.getD_eq_getElem?_getD, List.getElem?_eq_getElem hj]
  intro ops
  induction ops with
  | nil => intro cur acc hl hc; exact ⟨hl, hc⟩
  | cons op rest ih =>
    intro cur acc hl hc
    rw [List.foldl_cons, List.foldl_cons]
    obtain ⟨k, x⟩ := op
    have hs := C19_setter cur k x j
    apply ih
    · rw [hs.1, hl]
    · rw [hs.2]
      by_cases hk : k = j
      · subst hk
        simp [hl, hj]
      · have hk' : ¬ j = k := fun e => hk e.symm
        simp [hk, hk', hc]

/-- constructors from parts lay the words out in order -/
theorem C19_constructors (one t1 t2 h1 h2 h3 f1 f2 f3 f4 f5 : Nat) :
    six123 one [t1, t2] [h1, h2, h3] = [one, t1, t2, h1, h2, h3] ∧
    sevenNew [t1, t2] [f1, f2, f3, f4, f5] = [t1, t2, f1, f2, f3, f4, f5] := ⟨rfl, rfl⟩

/-- slot-index selection reads the named slots, for every in-range index 5-tuple (6^5 and 7^5 tuples) -/
theorem C19_selection (ws row : List Nat) (hl : row.length = 5) (hr : ∀ i ∈ row, i < ws.length) :
    pick ws row = some (row.map fun i => ws.getD i 0) := pick_eq_pickD ws row hl hr

example : runOps [1, 2, 3] [.set 2 9, .set 0 7, .set 2 5] = [7, 2, 5] := by decide
example : lastWrite [.set 2 9, .set 0 7, .set 2 5] 2 = some 5 := by decide

end C19

#print axioms C19.C19_setter
#print axioms C19.C19_history
#print axioms C19.C19_constructors
#print axioms C19.C19_selection
