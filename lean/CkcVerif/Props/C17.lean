import CkcVerif.Model.Two
import CkcVerif.Spec.Layout
import CkcVerif.Spec.Chen
/-!
# C17 — starting-hand score equals the Chen formula for every two-card hand
-/
namespace C17
open CK Spec

/-- per-card points (doubled) for all 52 cards and blank -/
theorem C17_card_points : (∀ r < 13, ∀ s < 4, (getChenPoints2 (word r s) : Int) = highCardPts2 (r + 2)) ∧
    getChenPoints2 0 = 0 ∧ Gen.chenExact = true := by decide +kernel

def pairOk (r1 s1 r2 s2 : Nat) : Bool :=
  let a := word r1 s1
  let b := word r2 s2
  let hi := max r1 r2 + 2
  let lo := min r1 r2 + 2
  (chenFormula a b == some (chenSpec hi lo (s1 == s2))) &&
  (getGap a b == some (if hi = lo then 0 else hi - lo - 1)) &&
  (isConnector a b == some (decide (hi - lo ≤ 1))) &&
  (isPocketPair a b == (r1 == r2)) && (isSuited a b == (s1 == s2)) &&
  (isSuitedConnector a b == some ((s1 == s2) && decide (hi - lo ≤ 1))) &&
  (highCard a b == max a b) &&
  -- slot order and suit shifting do not matter
  (chenFormula b a == chenFormula a b) &&
  (chenFormula (shiftSuit a) (shiftSuit b) == chenFormula a b)

def chenChk : Bool :=
  (List.range 13).all fun r1 => (List.range 4).all fun s1 => (List.range 13).all fun r2 => (List.range 4).all fun s2 =>
    (r1 == r2 && s1 == s2) || pairOk r1 s1 r2 s2

theorem C17_checked : chenChk = true := by decide +kernel

/-- **for every ordered pair of distinct real cards** the score is Chen's formula of the higher and lower
    rank and suitedness; the helpers follow their definitions; the score ignores slot order and shifting -/
theorem C17_chen (c d : Card) (hc : c.ok) (hd : d.ok) (hne : c ≠ d) :
    pairOk c.rank c.suit d.rank d.suit = true := by
  obtain ⟨r1, s1⟩ := c; obtain ⟨r2, s2⟩ := d
  have h := C17_checked
  simp only [chenChk, List.all_eq_true, List.mem_range, Bool.or_eq_true, Bool.and_eq_true, beq_iff_eq] at h
  rcases h r1 hc.1 s1 hc.2 r2 hd.1 s2 hd.2 with ⟨e1, e2⟩ | h
  · exact absurd (by rw [e1, e2]) hne
  · exact h

/-- readable corollary: the score itself -/
theorem C17_score (c d : Card) (hc : c.ok) (hd : d.ok) (hne : c ≠ d) :
    chenFormula c.word d.word = some (chenSpec (max c.rank d.rank + 2) (min c.rank d.rank + 2) (c.suit == d.suit)) := by
  have := C17_chen c d hc hd hne
  unfold pairOk at this
  simp only [Bool.and_eq_true, beq_iff_eq] at this
  exact this.1.1.1.1.1.1.1.1

example : chenFormula (word 12 3) (word 11 3) = some 12 := by decide +kernel      -- AKs
example : chenFormula (word 0 3) (word 5 0) = some (-1) := by decide +kernel      -- 72o
example : chenSpec 14 14 false = 20 ∧ chenSpec 2 2 false = 5 ∧ chenSpec 11 10 true = 9 := by decide

end C17

#print axioms C17.C17_card_points
#print axioms C17.C17_checked
#print axioms C17.C17_chen
#print axioms C17.C17_score
