import CkcVerif.Lemmas.KernNames
import CkcVerif.Model.Legacy
/-!
# C07 — hand ranks form a lawful total order in which stronger hands are greater
  (model of the repaired `Ord for HandRank`)
-/
namespace C07
open CK Spec Lemmas

/-- an explicit integer key: valid ranks above all invalid ones; within each group a lower value is higher -/
def keyOf (v : Nat) : Nat := if v = 0 ∨ v > 7462 then 65535 - v else 65536 + (7462 - v)

/-- **comparison is comparison of the keys**, for all pairs of 16-bit values -/
theorem C07_cmp_is_key_order (a b : Nat) (ha : a < 65536) (hb : b < 65536) :
    (HandRank.ofValue a).cmp (HandRank.ofValue b) = compare (keyOf a) (keyOf b) := by
  have ia := isInvalid_iff a
  have ib := isInvalid_iff b
  unfold HandRank.cmp
  have va : (HandRank.ofValue a).value = a := rfl
  have vb : (HandRank.ofValue b).value = b := rfl
  rw [va, vb]
  unfold keyOf
  by_cases pa : (a = 0 ∨ a > 7462) <;> by_cases pb : (b = 0 ∨ b > 7462)
  · have e1 := ia.mpr pa; have e2 := ib.mpr pb
    simp only [e1, e2, Bool.and_self, if_true, if_pos pa, if_pos pb]
    simp only [compare, compareOfLessAndEq]
    repeat' split
    all_goals first | rfl | (exfalso; omega)
  · have e1 := ia.mpr pa
    have e2 : (HandRank.ofValue b).isInvalid = false := by
      cases h : (HandRank.ofValue b).isInvalid with
      | false => rfl
      | true => exact absurd (ib.mp h) pb
    simp only [e1, e2, Bool.and_false, Bool.false_eq_true, if_false, if_true, if_pos pa, if_neg pb]
    simp only [compare, compareOfLessAndEq]
    repeat' split
    all_goals first | rfl | (exfalso; omega)
  · have e2 := ib.mpr pb
    have e1 : (HandRank.ofValue a).isInvalid = false := by
      cases h : (HandRank.ofValue a).isInvalid with
      | false => rfl
      | true => exact absurd (ia.mp h) pa
    simp only [e1, e2, Bool.false_and, Bool.false_eq_true, if_false, if_true, if_neg pa, if_pos pb]
    simp only [compare, compareOfLessAndEq]
    repeat' split
    all_goals first | rfl | (exfalso; omega)
  · have e1 : (HandRank.ofValue a).isInvalid = false := by
      cases h : (HandRank.ofValue a).isInvalid with
      | false => rfl
      | true => exact absurd (ia.mp h) pa
    have e2 : (HandRank.ofValue b).isInvalid = false := by
      cases h : (HandRank.ofValue b).isInvalid with
      | false => rfl
      | true => exact absurd (ib.mp h) pb
    simp only [e1, e2, Bool.and_self, Bool.false_eq_true, if_false, if_neg pa, if_neg pb]
    simp only [compare, compareOfLessAndEq]
    repeat' split
    all_goals first | rfl | (exfalso; omega)

/-- the key is injective on 16-bit values -/
theorem C07_key_injective (a b : Nat) (ha : a < 65536) (hb : b < 65536) (h : keyOf a = keyOf b) : a = b := by
  unfold keyOf at h
  by_cases pa : (a = 0 ∨ a > 7462) <;> by_cases pb : (b = 0 ∨ b > 7462) <;>
    simp only [if_pos, if_neg, pa, pb, not_false_eq_true] at h <;> omega

/-- two ranks compare equal only when they are equal -/
theorem C07_equal_iff (a b : Nat) (ha : a < 65536) (hb : b < 65536) :
    (HandRank.ofValue a).cmp (HandRank.ofValue b) = .eq ↔ HandRank.ofValue a = HandRank.ofValue b := by
  rw [C07_cmp_is_key_order a b ha hb, compare_eq_iff]
  constructor
  · intro h; rw [C07_key_injective a b ha hb h]
  · intro h
    have : a = b := congrArg HandRank.value h
    rw [this]

/-- antisymmetry and transitivity (so sorting is well defined), for all pairs / triples -/
theorem C07_antisymmetric (a b : Nat) (ha : a < 65536) (hb : b < 65536) :
    (HandRank.ofValue a).cmp (HandRank.ofValue b) = ((HandRank.ofValue b).cmp (HandRank.ofValue a)).swap := by
  rw [C07_cmp_is_key_order a b ha hb, C07_cmp_is_key_order b a hb ha]
  exact (Nat.compare_swap _ _).symm

theorem C07_transitive (a b c : Nat) (ha : a < 65536) (hb : b < 65536) (hc : c < 65536)
    (h1 : (HandRank.ofValue a).cmp (HandRank.ofValue b) ≠ .gt)
    (h2 : (HandRank.ofValue b).cmp (HandRank.ofValue c) ≠ .gt) :
    (HandRank.ofValue a).cmp (HandRank.ofValue c) ≠ .gt := by
  rw [C07_cmp_is_key_order a b ha hb, compare_ne_gt_iff] at h1
  rw [C07_cmp_is_key_order b c hb hc, compare_ne_gt_iff] at h2
  rw [C07_cmp_is_key_order a c ha hc, compare_ne_gt_iff]
  omega

/-- a valid rank with a lower value (a stronger hand) compares greater; every invalid rank compares
    below every valid one -/
theorem C07_stronger_is_greater (a b : Nat) (ha : 1 ≤ a ∧ a ≤ 7462) (hb : b < 65536) :
    ((1 ≤ b ∧ b ≤ 7462) → (a < b ↔ (HandRank.ofValue a).cmp (HandRank.ofValue b) = .gt)) ∧
    ((b = 0 ∨ b > 7462) → (HandRank.ofValue a).cmp (HandRank.ofValue b) = .gt ∧
      (HandRank.ofValue b).cmp (HandRank.ofValue a) = .lt) := by
  rw [C07_cmp_is_key_order a b (by omega) hb, C07_cmp_is_key_order b a hb (by omega)]
  unfold keyOf
  have pa : ¬ (a = 0 ∨ a > 7462) := by omega
  constructor
  · intro hv
    have pb : ¬ (b = 0 ∨ b > 7462) := by omega
    simp only [if_neg pa, if_neg pb, compare, compareOfLessAndEq]
    repeat' split
    all_goals first | (constructor <;> intro h <;> first | omega | rfl | cases h) | omega
  · intro pb
    simp only [if_neg pa, if_pos pb, compare, compareOfLessAndEq]
    constructor <;> repeat' split
    all_goals first | rfl | (exfalso; omega)

/-- the four operators and equality agree with the comparison -/
theorem C07_operators (x y : HandRank) :
    (x.lt y = true ↔ x.cmp y = .lt) ∧ (x.gt y = true ↔ x.cmp y = .gt) ∧
    (x.le y = true ↔ x.cmp y ≠ .gt) ∧ (x.ge y = true ↔ x.cmp y ≠ .lt) := by
  unfold HandRank.lt HandRank.gt HandRank.le HandRank.ge
  cases x.cmp y <;> simp

/-- the derived order of both enumerations is discriminant order (all 10² and 310² pairs), and the
    discriminants are 0, 1, 2, … in declaration order with `Invalid` last -/
def enumOrdChk : Bool :=
  ((List.range 10).all fun i => (List.range 10).all fun j => nameOrd i j == ordCode (compare i j)) &&
  ((List.range 310).all fun i => (List.range 310).all fun j => classOrd i j == ordCode (compare i j)) &&
  (Gen.nameOrdN == 10) && (Gen.classOrdN == 310) && (Gen.nameDiscs == List.range 10) &&
  (Gen.classDiscs == List.range 310) && (Gen.nameInvalid == 9) && (Gen.classInvalid == 309)
theorem C07_enum_order : enumOrdChk = true := by decide +kernel

/-- along v = 1..7462 both discriminants never decrease: sorting by category or class never
    contradicts sorting by strength -/
theorem C07_enums_in_step : contiguousChk = true := contiguousChk_ok

/-- the comparison as it was at the pinned commit called two different ranks equal -/
theorem C07_legacy_refuted :
    Legacy.cmp (HandRank.ofValue 0) (HandRank.ofValue 7463) = .eq ∧ HandRank.ofValue 0 ≠ HandRank.ofValue 7463 := by
  decide +kernel

example : (HandRank.ofValue 0).cmp (HandRank.ofValue 7463) = .gt := by decide +kernel
example : (HandRank.ofValue 1).cmp (HandRank.ofValue 2) = .gt := by decide +kernel

end C07

#print axioms C07.C07_cmp_is_key_order
#print axioms C07.C07_key_injective
#print axioms C07.C07_equal_iff
#print axioms C07.C07_antisymmetric
#print axioms C07.C07_transitive
#print axioms C07.C07_stronger_is_greater
#print axioms C07.C07_operators
#print axioms C07.C07_enum_order
#print axioms C07.C07_enums_in_step
#print axioms C07.C07_legacy_refuted
