import CkcVerif.Lemmas.FiveCards
import CkcVerif.Lemmas.KernW
import CkcVerif.Lemmas.Witness
import CkcVerif.Lemmas.Valid
import CkcVerif.Spec.Hand
/-!
# Hand-level assembly: value of five distinct real cards vs. the specification's strength
-/
namespace Lemmas
open CK Spec

theorem sameSuit5 (c1 c2 c3 c4 c5 : Card) :
    sameSuit [c1, c2, c3, c4, c5] = allSame c1.suit c2.suit c3.suit c4.suit c5.suit := by
  rw [Bool.eq_iff_iff]
  simp only [sameSuit, allSame, List.all_cons, List.all_nil, Bool.and_true, Bool.and_eq_true, beq_iff_eq]
  constructor
  · intro h; omega
  · intro h
    obtain ⟨⟨⟨h1, h2⟩, h3⟩, h4⟩ := h
    simp [h1, h2, h3, h4]

theorem sameSuit_perm {l l' : List Card} (p : l.Perm l') : sameSuit l = sameSuit l' := by
  rw [Bool.eq_iff_iff]
  simp only [sameSuit, List.all_eq_true, beq_iff_eq]
  constructor
  · intro h a ha b hb; exact h a (p.mem_iff.mpr ha) b (p.mem_iff.mpr hb)
  · intro h a ha b hb; exact h a (p.mem_iff.mp ha) b (p.mem_iff.mp hb)

theorem handStrength_perm {l l' : List Card} (p : l.Perm l') : handStrength l = handStrength l' := by
  unfold handStrength
  rw [sameSuit_perm p, strength_perm (p.map _)]

/-- a five-card hand is a list of five cards -/
theorem hand5_cases {cs : List Card} (h : IsHand 5 cs) :
    ∃ c1 c2 c3 c4 c5, cs = [c1, c2, c3, c4, c5] := by
  match cs, h.len with
  | [c1, c2, c3, c4, c5], _ => exact ⟨c1, c2, c3, c4, c5, rfl⟩

/-- The core statement: five distinct real cards in any slot order evaluate, without panic, to a value
    `v ∈ 1..7462` which is the table value of a feasible class whose closed-form key is the hand's
    strength under the rules of poker. -/
theorem hand_value {cs : List Card} (h : IsHand 5 cs) :
    ∃ v q1 q2 q3 q4 q5 f, handRankValue5 packed (words cs) = some v ∧ 1 ≤ v ∧ v ≤ 7462 ∧
      Feasible q1 q2 q3 q4 q5 f ∧ evalAbs q1 q2 q3 q4 q5 f = some v ∧
      handStrength cs = key q1 q2 q3 q4 q5 f := by
  obtain ⟨c1, c2, c3, c4, c5, rfl⟩ := hand5_cases h
  have k := h.ok
  have k1 := k c1 (by simp); have k2 := k c2 (by simp); have k3 := k c3 (by simp)
  have k4 := k c4 (by simp); have k5 := k c5 (by simp)
  obtain ⟨q1, q2, q3, q4, q5, hp, hf, he⟩ := five_cards_class c1 c2 c3 c4 c5 k1 k2 k3 k4 k5 h.nodup
  obtain ⟨v, ev, a1, a2, _⟩ := feasible_ok hf
  refine ⟨v, q1, q2, q3, q4, q5, _, ?_, a1, a2, hf, ev, ?_⟩
  · show handRankValue5 packed [c1.word, c2.word, c3.word, c4.word, c5.word] = some v
    rw [he, ev]
  · unfold handStrength
    rw [sameSuit5]
    show strength [c1.rank, c2.rank, c3.rank, c4.rank, c5.rank] _ = _
    rw [strength_perm hp, strength_eq_key hf]

theorem hand_quantities {cs : List Card} (h : IsHand 5 cs) :
    orRankBits (words cs) = orMaskL (ranks cs) ∧ isFlush (words cs) = sameSuit cs := by
  obtain ⟨c1, c2, c3, c4, c5, rfl⟩ := hand5_cases h
  have k := h.ok
  obtain ⟨q1, _, q3⟩ := five_quantities c1 c2 c3 c4 c5 (k c1 (by simp)) (k c2 (by simp)) (k c3 (by simp))
    (k c4 (by simp)) (k c5 (by simp))
  refine ⟨?_, ?_⟩
  · show orRankBits [c1.word, c2.word, c3.word, c4.word, c5.word] = _
    rw [q1]; simp [orMask5, orMaskL, ranks, List.foldl]
  · show isFlush [c1.word, c2.word, c3.word, c4.word, c5.word] = _
    rw [q3, sameSuit5]

theorem ranks_lt {cs : List Card} (h : IsHand 5 cs) : ∀ r ∈ ranks cs, r < 13 := by
  intro r hr
  obtain ⟨c, hc, e⟩ := List.mem_map.mp hr
  exact e ▸ (h.ok c hc).1


end Lemmas
