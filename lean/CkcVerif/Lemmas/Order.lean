import CkcVerif.Lemmas.KernA
import CkcVerif.Lemmas.KernB
/-! The value is an order-embedding of strength on the feasible classes (from kernel facts A and B) -/
namespace Lemmas
open CK Spec

theorem feasible_ok {r1 r2 r3 r4 r5 : Nat} {f : Bool} (h : Feasible r1 r2 r3 r4 r5 f) :
    ∃ v, evalAbs r1 r2 r3 r4 r5 f = some v ∧ 1 ≤ v ∧ v ≤ 7462 ∧ slot v = key r1 r2 r3 r4 r5 f + 1 := by
  have hA := classA h
  unfold okClass at hA
  cases hv : evalAbs r1 r2 r3 r4 r5 f with
  | none => rw [hv] at hA; cases hA
  | some v =>
    rw [hv] at hA
    simp only [Bool.and_eq_true, decide_eq_true_eq, beq_iff_eq] at hA
    exact ⟨v, rfl, hA.1.1, hA.1.2, hA.2⟩

/-- lower value ⇔ stronger, on feasible classes -/
theorem value_lt_iff {r1 r2 r3 r4 r5 : Nat} {f : Bool} {q1 q2 q3 q4 q5 : Nat} {g : Bool} {v w : Nat}
    (hc : Feasible r1 r2 r3 r4 r5 f) (hd : Feasible q1 q2 q3 q4 q5 g)
    (hv : evalAbs r1 r2 r3 r4 r5 f = some v) (hw : evalAbs q1 q2 q3 q4 q5 g = some w) :
    v < w ↔ key r1 r2 r3 r4 r5 f > key q1 q2 q3 q4 q5 g := by
  obtain ⟨v', e1, a1, a2, a3⟩ := feasible_ok hc
  obtain ⟨w', e2, b1, b2, b3⟩ := feasible_ok hd
  rw [hv] at e1; rw [hw] at e2
  cases e1; cases e2
  constructor
  · intro h
    have := slot_strict _ a1 _ h b2
    omega
  · intro h
    by_cases h1 : v < w
    · exact h1
    · by_cases h2 : v = w
      · rw [h2] at a3; omega
      · have := slot_strict _ b1 _ (by omega) a2
        omega

/-- equal value ⇔ tie, on feasible classes -/
theorem value_eq_iff {r1 r2 r3 r4 r5 : Nat} {f : Bool} {q1 q2 q3 q4 q5 : Nat} {g : Bool} {v w : Nat}
    (hc : Feasible r1 r2 r3 r4 r5 f) (hd : Feasible q1 q2 q3 q4 q5 g)
    (hv : evalAbs r1 r2 r3 r4 r5 f = some v) (hw : evalAbs q1 q2 q3 q4 q5 g = some w) :
    v = w ↔ key r1 r2 r3 r4 r5 f = key q1 q2 q3 q4 q5 g := by
  have l1 := value_lt_iff hc hd hv hw
  have l2 := value_lt_iff hd hc hw hv
  omega

end Lemmas
