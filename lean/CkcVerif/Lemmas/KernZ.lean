import CkcVerif.Model.Five
/-! Kernel facts **Z** about the regenerated tables and rank masks:
    * a 13-bit mask with at most five bits set is at most 7936 (so it indexes both 7,937-cell tables);
    * `UNIQUE_5[i] ≠ 0 ↔ popcount i = 5 ↔ FLUSHES[i] ≠ 0` for every cell;
    * `PRODUCTS` is strictly increasing, `VALUES[j] ∈ 1..7462`. -/
namespace Lemmas
open CK

def maskChk : Bool := (List.range 8192).all fun x => decide (pc 13 x ≤ 5 → x ≤ 7936)
theorem maskChk_ok : maskChk = true := by decide +kernel

theorem mask_bound (x : Nat) (hx : x < 8192) (h : pc 13 x ≤ 5) : x ≤ 7936 := by
  have hk := maskChk_ok
  simp only [maskChk, List.all_eq_true, List.mem_range, decide_eq_true_eq] at hk
  exact hk x hx h

def zChk : Bool := (List.range 7937).all fun i =>
  ((get 16 Gen.unique5P i != 0) == (pc 13 i == 5)) && ((get 16 Gen.flushesP i != 0) == (pc 13 i == 5))
theorem zChk_ok : zChk = true := by decide +kernel

theorem unique5_zero (i : Nat) (hi : i < 7937) (h : pc 13 i ≠ 5) : get 16 Gen.unique5P i = 0 := by
  have hk := zChk_ok
  simp only [zChk, List.all_eq_true, List.mem_range, Bool.and_eq_true, beq_iff_eq] at hk
  have := (hk i hi).1
  have h5 : (pc 13 i == 5) = false := by simpa using h
  rw [h5] at this
  simpa using this

def sortedChk : Bool :=
  (List.range 4887).all (fun i => decide (get 32 Gen.productsP i < get 32 Gen.productsP (i + 1))) &&
  (List.range 4888).all (fun j => decide (1 ≤ get 16 Gen.valuesP j ∧ get 16 Gen.valuesP j ≤ 7462))
theorem sortedChk_ok : sortedChk = true := by decide +kernel

/-- a product of 0 (a blank slot) is not in the table: the search gives index 0, whose product is not 0 -/
theorem find_zero : findInProducts packed 0 = some 0 ∧ packed.products 0 ≠ some 0 := by decide +kernel

end Lemmas
