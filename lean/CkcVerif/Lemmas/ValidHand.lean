import CkcVerif.Lemmas.Valid
import CkcVerif.Spec.Hand
/-! A valid hand of words is the word list of distinct real cards -/
namespace Lemmas
open CK Spec

/-- read a card back from its word -/
def cardOfWord (w : Nat) : Card := ⟨(w >>> 8) &&& 0xF, Nat.log2 ((w >>> 12) &&& 0xF)⟩

theorem cardOfWord_deck : ∀ w ∈ deckWords, (cardOfWord w).ok ∧ (cardOfWord w).word = w := by decide

theorem valid_is_hand (ws : List Nat) (hm : ∀ w ∈ ws, w ∈ deckWords) (hnd : ws.Nodup) :
    ∃ cs, IsHand ws.length cs ∧ words cs = ws := by
  refine ⟨ws.map cardOfWord, ⟨by simp, ?_, ?_⟩, ?_⟩
  · have hw : (ws.map cardOfWord).map Card.word = ws := by
      rw [List.map_map]
      conv => rhs; rw [← List.map_id ws]
      apply List.map_congr_left
      intro w hw
      exact (cardOfWord_deck w (hm w hw)).2
    have : ((ws.map cardOfWord).map Card.word).Nodup := by rw [hw]; exact hnd
    have hp := List.pairwise_map.mp this
    exact hp.imp (fun {a b} (h : a.word ≠ b.word) (e : a = b) => h (e ▸ rfl))
  · intro c hc
    obtain ⟨w, hw, e⟩ := List.mem_map.mp hc
    exact e ▸ (cardOfWord_deck w (hm w hw)).1
  · unfold words
    rw [List.map_map]
    conv => rhs; rw [← List.map_id ws]
    apply List.map_congr_left
    intro w hw
    exact (cardOfWord_deck w (hm w hw)).2

end Lemmas
