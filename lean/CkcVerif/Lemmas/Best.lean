import CkcVerif.Model.SixSeven
import CkcVerif.Lemmas.Combos
/-! The best-of loop of `Six` / `Seven`: a pure fold over (value, hand) candidates, and its minimum -/
namespace Lemmas
open CK Spec

/-- the loop body on an already evaluated candidate -/
def step (acc cand : Nat × List Nat) : Nat × List Nat :=
  if acc.1 == 0 || (cand.1 != 0 && cand.1 < acc.1) then cand else acc
def best (cands : List (Nat × List Nat)) : Nat × List Nat := cands.foldl step (0, [0, 0, 0, 0, 0])

theorem foldl_step_inv (cands : List (Nat × List Nat)) (hpos : ∀ c ∈ cands, c.1 ≠ 0) :
    ∀ (seen : List (Nat × List Nat)) (acc : Nat × List Nat),
      (∀ c ∈ seen, c.1 ≠ 0) →
      ((seen = [] ∧ acc.1 = 0) ∨ (acc ∈ seen ∧ ∀ c ∈ seen, acc.1 ≤ c.1)) →
      let r := cands.foldl step acc
      ((seen ++ cands = [] ∧ r.1 = 0) ∨ (r ∈ seen ++ cands ∧ ∀ c ∈ seen ++ cands, r.1 ≤ c.1)) := by
  induction cands with
  | nil => intro seen acc _ h; simpa using h
  | cons c cs ih =>
    intro seen acc hs h
    have hc : c.1 ≠ 0 := hpos c List.mem_cons_self
    have hcs : ∀ c ∈ cs, c.1 ≠ 0 := fun d hd => hpos d (List.mem_cons_of_mem _ hd)
    have hs' : ∀ d ∈ seen ++ [c], d.1 ≠ 0 := by
      intro d hd; rcases List.mem_append.mp hd with h1 | h1
      · exact hs d h1
      · simp at h1; subst h1; exact hc
    have key := ih hcs (seen ++ [c]) (step acc c) hs'
    simp only [List.foldl_cons]
    have happ : seen ++ [c] ++ cs = seen ++ c :: cs := by simp
    rw [happ] at key
    apply key
    right
    rcases h with ⟨h1, h2⟩ | ⟨h1, h2⟩
    · subst h1
      have : step acc c = c := by simp [step, h2]
      rw [this]; simp
    · unfold step
      by_cases hlt : c.1 < acc.1
      · have hacc : acc.1 ≠ 0 := hs acc h1
        have : (acc.1 == 0 || (c.1 != 0 && decide (c.1 < acc.1))) = true := by simp [hlt, hc]
        rw [if_pos this]
        refine ⟨by simp, ?_⟩
        intro d hd
        rcases List.mem_append.mp hd with h3 | h3
        · have := h2 d h3; omega
        · simp at h3; subst h3; omega
      · have hacc : acc.1 ≠ 0 := hs acc h1
        have : (acc.1 == 0 || (c.1 != 0 && decide (c.1 < acc.1))) = false := by simp [hlt, hacc]
        rw [if_neg (by simp [this])]
        refine ⟨List.mem_append_left _ h1, ?_⟩
        intro d hd
        rcases List.mem_append.mp hd with h3 | h3
        · exact h2 d h3
        · simp at h3; subst h3; omega

/-- on a non-empty list of candidates with non-zero values the loop returns a candidate of least value -/
theorem best_min (cands : List (Nat × List Nat)) (hne : cands ≠ []) (hpos : ∀ c ∈ cands, c.1 ≠ 0) :
    best cands ∈ cands ∧ ∀ c ∈ cands, (best cands).1 ≤ c.1 := by
  have := foldl_step_inv cands hpos [] (0, [0, 0, 0, 0, 0]) (by simp) (Or.inl ⟨rfl, rfl⟩)
  simp only [List.nil_append] at this
  rcases this with ⟨h1, _⟩ | h
  · exact absurd h1 hne
  · exact h

/-- if every row picks a hand and every picked hand evaluates (as given by `f`), the model's loop (with
    panics as `none`) is the pure fold over the evaluated candidates -/
theorem foldl_stepBest_eq (T : Tables) (ws : List Nat) (f : List Nat → Nat × List Nat) :
    ∀ (perms : List (List Nat)) (acc : Nat × List Nat),
      (∀ row ∈ perms, pick ws row = some (f row).2 ∧ handRankValue5 T (f row).2 = some (f row).1) →
      perms.foldl (stepBest T ws) (some acc) = some ((perms.map f).foldl step acc) := by
  intro perms
  induction perms with
  | nil => intro acc _; rfl
  | cons row rest ih =>
    intro acc h
    obtain ⟨hp, hv⟩ := h row List.mem_cons_self
    rw [List.foldl_cons, List.map_cons, List.foldl_cons]
    have : stepBest T ws (some acc) row = some (step acc (f row)) := by
      unfold stepBest step
      simp only [hp, hv]
      split <;> rfl
    rw [this]
    exact ih (step acc (f row)) (fun r hr => h r (List.mem_cons_of_mem _ hr))

/-- total slot selection: what `pick` returns when every index is in range -/
def pickD (ws row : List Nat) : List Nat := row.map (fun i => ws.getD i 0)

theorem pick_eq_pickD (ws row : List Nat) (hl : row.length = 5) (hr : ∀ i ∈ row, i < ws.length) :
    pick ws row = some (pickD ws row) := by
  match row, hl with
  | [i0, i1, i2, i3, i4], _ =>
    have h0 := hr i0 (by simp); have h1 := hr i1 (by simp); have h2 := hr i2 (by simp)
    have h3 := hr i3 (by simp); have h4 := hr i4 (by simp)
    unfold pick pickD
    simp [h0, h1, h2, h3, h4, List.getD_eq_getElem?_getD]

/-- the candidates examined by the loop over `combos 5 (range n)` are exactly the 5-element sublists -/
theorem candidates (ws : List Nat) : (combos 5 (List.range ws.length)).map (pickD ws) = combos 5 ws := by
  have := combos_map (fun i => ws.getD i 0) 5 (List.range ws.length)
  rw [range_map_getD] at this
  rw [this]
  rfl

end Lemmas
