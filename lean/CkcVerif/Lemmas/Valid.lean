import CkcVerif.Model.Hand
import CkcVerif.Lemmas.Sort
import CkcVerif.Lemmas.CardFacts
/-! The six differently written uniqueness tests are `Nodup`; validity is "52-card words, no repeats" -/
namespace Lemmas
open CK Spec

theorem areUnique2 (a b : Nat) : areUnique [a, b] = true ↔ [a, b].Nodup := by
  simp [areUnique]

theorem areUnique3 (a b c : Nat) : areUnique [a, b, c] = true ↔ [a, b, c].Nodup := by
  simp only [areUnique, Bool.and_eq_true, bne_iff_ne, ne_eq, List.nodup_cons, List.mem_cons,
    List.not_mem_nil, or_false, not_or, List.nodup_nil, and_true, not_false_eq_true]

theorem areUnique4 (a b c d : Nat) : areUnique [a, b, c, d] = true ↔ [a, b, c, d].Nodup := by
  simp only [areUnique, Bool.and_eq_true, bne_iff_ne, ne_eq, List.nodup_cons, List.mem_cons,
    List.not_mem_nil, or_false, not_or, List.nodup_nil, and_true, not_false_eq_true]
  omega

theorem areUnique5 (a b c d e : Nat) : areUnique [a, b, c, d, e] = true ↔ [a, b, c, d, e].Nodup := by
  simp [areUnique, List.nodup_cons]
  omega

theorem areUnique6 (a b c d e f : Nat) (hb : ∀ w ∈ [a, b, c, d, e, f], w < 2 ^ 32) :
    areUnique [a, b, c, d, e, f] = true ↔ [a, b, c, d, e, f].Nodup ∧ 0xFFFFFFFF ∉ [a, b, c, d, e, f] := by
  show scan 0xFFFFFFFF (sortDesc [a, b, c, d, e, f]) = true ↔ _
  exact scan_sorted_iff _ hb

theorem areUnique7 (a b c d e f g : Nat) (hb : ∀ w ∈ [a, b, c, d, e, f, g], w < 2 ^ 32) :
    areUnique [a, b, c, d, e, f, g] = true ↔
      [a, b, c, d, e, f, g].Nodup ∧ 0xFFFFFFFF ∉ [a, b, c, d, e, f, g] := by
  show scan 0xFFFFFFFF (sortDesc [a, b, c, d, e, f, g]) = true ↔ _
  exact scan_sorted_iff _ hb

/-- for every size 2..7 and words below 2^32: unique ⇔ no two slots equal (and, for the sorted scan
    of six and seven slots, no slot is 0xFFFFFFFF) -/
theorem areUnique_iff (ws : List Nat) (hl : 2 ≤ ws.length ∧ ws.length ≤ 7) (hb : ∀ w ∈ ws, w < 2 ^ 32) :
    areUnique ws = true ↔ ws.Nodup ∧ (6 ≤ ws.length → 0xFFFFFFFF ∉ ws) := by
  match ws, hl, hb with
  | [a, b], _, _ => rw [areUnique2]; simp
  | [a, b, c], _, _ => rw [areUnique3]; simp
  | [a, b, c, d], _, _ => rw [areUnique4]; simp
  | [a, b, c, d, e], _, _ => rw [areUnique5]; simp
  | [a, b, c, d, e, f], _, hb => rw [areUnique6 _ _ _ _ _ _ hb]; simp
  | [a, b, c, d, e, f, g], _, hb => rw [areUnique7 _ _ _ _ _ _ _ hb]; simp
  | [], hl, _ => simp at hl
  | [_], hl, _ => simp at hl
  | _ :: _ :: _ :: _ :: _ :: _ :: _ :: _ :: _, hl, _ => simp at hl

theorem isCorrupt_iff (ws : List Nat) : isCorrupt ws = false ↔ ∀ w ∈ ws, w ∈ deckWords := by
  unfold isCorrupt
  rw [List.any_eq_false]
  constructor
  · intro h w hw
    have := h w hw
    rw [filter_eq, blank_zero.1] at this
    by_cases hm : w ∈ deckWords
    · exact hm
    · simp [hm] at this
  · intro h w hw
    rw [filter_eq, blank_zero.1, if_pos (h w hw)]
    have := (deckWords_facts.2 w (h w hw)).1
    simp; omega

theorem containBlank_iff (ws : List Nat) : containBlank ws = true ↔ 0 ∈ ws := by
  unfold containBlank
  rw [List.any_eq_true, blank_zero.1]
  constructor
  · rintro ⟨w, hw, e⟩; simp at e; exact e ▸ hw
  · intro h; exact ⟨0, h, by simp⟩

/-- **valid ⇔ every slot holds one of the 52 card words and no two slots are equal**
    (every size 2..7, arbitrary 32-bit words) -/
theorem isValid_iff (ws : List Nat) (hl : 2 ≤ ws.length ∧ ws.length ≤ 7) (hb : ∀ w ∈ ws, w < 2 ^ 32) :
    isValid ws = true ↔ (∀ w ∈ ws, w ∈ deckWords) ∧ ws.Nodup := by
  unfold isValid
  rw [Bool.and_eq_true, areUnique_iff ws hl hb, Bool.not_eq_true', isCorrupt_iff]
  constructor
  · rintro ⟨⟨h1, _⟩, h2⟩; exact ⟨h2, h1⟩
  · rintro ⟨h1, h2⟩
    refine ⟨⟨h2, ?_⟩, h1⟩
    intro _ hm
    have := (deckWords_facts.2 _ (h1 _ hm)).2
    omega

/-- distinct real cards form a valid hand -/
theorem isValid_cards (cs : List Card) (hl : 2 ≤ cs.length ∧ cs.length ≤ 7) (hok : ∀ c ∈ cs, c.ok)
    (hnd : cs.Nodup) : isValid (cs.map Card.word) = true := by
  have hm : ∀ w ∈ cs.map Card.word, w ∈ deckWords := by
    intro w hw
    obtain ⟨c, hc, e⟩ := List.mem_map.mp hw
    exact e ▸ word_mem_deck c (hok c hc)
  rw [isValid_iff _ (by simpa using hl)]
  · exact ⟨hm, words_nodup cs hok hnd⟩
  · intro w hw
    have := (deckWords_facts.2 w (hm w hw)).2
    omega

end Lemmas
