import CkcVerif.Model.Five
import CkcVerif.Spec.Layout
import CkcVerif.Spec.Key
/-!
# The abstract evaluator and the inverse table

`evalAbs` runs the crate's algorithm (`evalCore` on the regenerated, packed tables) on the three
quantities a hand of five *ranks* and a flush flag determine.  `slot` is an inverse table that Lean
builds itself by folding over the 7,462 feasible classes: cell `v` holds `key + 1` of the class the
tables send to `v`.  The kernel facts A and B about it live in `KernA.lean` / `KernB.lean`.
-/
namespace Lemmas
open CK Spec

def orMask5 (r1 r2 r3 r4 r5 : Nat) : Nat := (1 <<< r1) ||| (1 <<< r2) ||| (1 <<< r3) ||| (1 <<< r4) ||| (1 <<< r5)
def prod5 (r1 r2 r3 r4 r5 : Nat) : Nat := prime r1 * prime r2 * prime r3 * prime r4 * prime r5

def evalAbs (r1 r2 r3 r4 r5 : Nat) (flush : Bool) : Option Nat :=
  evalCore packed (orMask5 r1 r2 r3 r4 r5) (prod5 r1 r2 r3 r4 r5) flush

/-- total version for table building -/
def evalAbsD (r1 r2 r3 r4 r5 : Nat) (flush : Bool) : Nat := (evalAbs r1 r2 r3 r4 r5 flush).getD 0

/-- all feasible classes, lexicographic -/
def classes : List (Nat × Nat × Nat × Nat × Nat × Bool) :=
  (List.range 13).flatMap fun r1 => (List.range (r1 + 1)).flatMap fun r2 => (List.range (r2 + 1)).flatMap fun r3 =>
  (List.range (r3 + 1)).flatMap fun r4 => (List.range (r4 + 1)).flatMap fun r5 =>
    if r1 == r5 then [] else
      (r1, r2, r3, r4, r5, false) ::
        (if r1 == r2 || r2 == r3 || r3 == r4 || r4 == r5 then [] else [(r1, r2, r3, r4, r5, true)])

def evalC (c : Nat × Nat × Nat × Nat × Nat × Bool) : Nat := evalAbsD c.1 c.2.1 c.2.2.1 c.2.2.2.1 c.2.2.2.2.1 c.2.2.2.2.2
def keyC (c : Nat × Nat × Nat × Nat × Nat × Bool) : Nat := key c.1 c.2.1 c.2.2.1 c.2.2.2.1 c.2.2.2.2.1 c.2.2.2.2.2
/-- a class as one non-zero number below 2^21 -/
def encC (c : Nat × Nat × Nat × Nat × Nat × Bool) : Nat :=
  1 + 2 * (((((c.1 * 13 + c.2.1) * 13 + c.2.2.1) * 13 + c.2.2.2.1) * 13 + c.2.2.2.2.1) * 2 + (if c.2.2.2.2.2 then 1 else 0))
def decodeC (s : Nat) : Nat × Nat × Nat × Nat × Nat × Bool :=
  let t := (s - 1) / 2
  let e := t / 2
  (e / 28561 % 13, e / 2197 % 13, e / 169 % 13, e / 13 % 13, e % 13, t % 2 == 1)

/-- inverse table by value: cell `v` (24 bits) holds `key + 1` of the class evaluated to `v` -/
def invKeys : Nat := classes.foldl (fun acc c => acc ||| ((keyC c + 1) <<< (24 * evalC c))) 0
def slot (v : Nat) : Nat := (invKeys >>> (24 * v)) % 16777216
/-- second inverse table: cell `v` holds the encoded class itself -/
def invC : Nat := classes.foldl (fun acc c => acc ||| (encC c <<< (24 * evalC c))) 0
def slotC (v : Nat) : Nat := (invC >>> (24 * v)) % 16777216
/-- the class the tables send to `v` (meaningful for 1 ≤ v ≤ 7462, by kernel fact W) -/
def classOf (v : Nat) : Nat × Nat × Nat × Nat × Nat × Bool := decodeC (slotC v)

def okClass (r1 r2 r3 r4 r5 : Nat) (f : Bool) : Bool :=
  match evalAbs r1 r2 r3 r4 r5 f with
  | some v => decide (1 ≤ v) && decide (v ≤ 7462) && (slot v == key r1 r2 r3 r4 r5 f + 1)
  | none => false

end Lemmas
