import CkcVerif.Lemmas.SixSevenValue
/-! Sub-hands: interpolation between sublists, maxima of folds, ranking of 5/6/7 cards by one function -/
namespace Lemmas
open CK Spec

theorem sublist_interp {α : Type} {s l : List α} (h : s.Sublist l) (hlt : s.length < l.length) :
    ∃ g, s.Sublist g ∧ g.Sublist l ∧ g.length = s.length + 1 := by
  induction h with
  | slnil => simp at hlt
  | @cons s' l' a h' _ =>
    exact ⟨a :: s', List.Sublist.cons a (List.Sublist.refl _), List.Sublist.cons_cons a h', by simp⟩
  | @cons_cons s' l' a h' ih =>
    have : s'.length < l'.length := by simpa using hlt
    obtain ⟨g, h1, h2, h3⟩ := ih this
    exact ⟨a :: g, List.Sublist.cons_cons a h1, List.Sublist.cons_cons a h2, by simp [h3]⟩

theorem foldl_max_ge (l : List Nat) (init : Nat) : init ≤ l.foldl max init ∧ ∀ x ∈ l, x ≤ l.foldl max init := by
  induction l generalizing init with
  | nil => simp
  | cons a as ih =>
    rw [List.foldl_cons]
    obtain ⟨h1, h2⟩ := ih (max init a)
    refine ⟨by omega, ?_⟩
    intro x hx
    rcases List.mem_cons.mp hx with rfl | hx
    · omega
    · exact h2 x hx

theorem foldl_max_eq (l : List Nat) (m : Nat) (hm : m ∈ l) (hall : ∀ x ∈ l, x ≤ m) : l.foldl max 0 = m := by
  have h1 := (foldl_max_ge l 0).2 m hm
  have h2 : l.foldl max 0 ≤ m := by
    suffices ∀ init, init ≤ m → l.foldl max init ≤ m from this 0 (Nat.zero_le _)
    clear h1 hm
    induction l with
    | nil => intro init h; simpa using h
    | cons a as ih =>
      intro init h
      rw [List.foldl_cons]
      apply ih (fun x hx => hall x (List.mem_cons_of_mem _ hx))
      have := hall a List.mem_cons_self
      omega
  omega

/-- the trait ranking of a 6- or 7-card hand is the loop over the matching published table -/
theorem handRankValue_n {n : Nat} (hn : n = 6 ∨ n = 7) {cs : List Card} (h : IsHand n cs) :
    handRankValueAndHand packed (words cs) =
      handRankValueAndHandN packed (if n = 6 then Gen.perms6 else Gen.perms7) (words cs) := by
  have hl : (words cs).length = n := by simp [words, h.len]
  unfold handRankValueAndHand
  rw [hl]
  rcases hn with rfl | rfl
  · rfl
  · rfl

/-- ranking six or seven distinct real cards: some 5-card sub-hand attains the value, and no 5-card
    sub-hand has a smaller one -/
theorem rank_n {n : Nat} (hn : n = 6 ∨ n = 7) {cs : List Card} (h : IsHand n cs) :
    ∃ sub, sub ∈ combos 5 cs ∧
      handRankValueAndHand packed (words cs) = some (value5D (words sub), sortDesc (words sub)) ∧
      ∀ sub' ∈ combos 5 cs, value5D (words sub) ≤ value5D (words sub') := by
  rw [handRankValue_n hn h]
  apply sixseven_value h
  · rcases hn with rfl | rfl
    · simp [perms_eq.1]
    · simp [perms_eq.2]
  · exact combos_ne_nil hn h.len

/-- the value of 5, 6 or 7 distinct real cards, as a number -/
def valueD (cs : List Card) : Nat := (handRankValue packed (words cs)).getD 0

theorem rank_min {n : Nat} (hn : n = 6 ∨ n = 7) {cs : List Card} (h : IsHand n cs) :
    (∃ sub ∈ combos 5 cs, valueD cs = value5D (words sub)) ∧ ∀ sub ∈ combos 5 cs, valueD cs ≤ value5D (words sub) := by
  obtain ⟨best, hb, hv, hmin⟩ := rank_n hn h
  have : valueD cs = value5D (words best) := by
    unfold valueD handRankValue; rw [hv]; rfl
  exact ⟨⟨best, hb, this⟩, fun s hs => this ▸ hmin s hs⟩

theorem value5 {cs : List Card} (h : IsHand 5 cs) : valueD cs = value5D (words cs) := by
  have hl : (words cs).length = 5 := by simp [words, h.len]
  unfold valueD value5D handRankValue handRankValueAndHand handRankValueAndHand5
  rw [hl]
  simp only
  cases handRankValue5 packed (words cs) <;> rfl

theorem sub_hand {n k : Nat} {cs g : List Card} (h : IsHand n cs) (hg : g ∈ combos k cs) : IsHand k g := by
  obtain ⟨hsub, hlen⟩ := (mem_combos k cs g).mp hg
  exact ⟨hlen, hsub.nodup h.nodup, fun c hc => h.ok c (hsub.subset hc)⟩


end Lemmas
