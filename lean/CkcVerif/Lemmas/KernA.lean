import CkcVerif.Lemmas.Abs
/-! Kernel fact **A**: every feasible class evaluates (without panic) to a value in 1..7462 whose
    inverse-table cell holds that class's strength key. -/
namespace Lemmas
open CK Spec

def checkA : Bool :=
  (List.range 13).all fun r1 => (List.range (r1 + 1)).all fun r2 => (List.range (r2 + 1)).all fun r3 =>
  (List.range (r3 + 1)).all fun r4 => (List.range (r4 + 1)).all fun r5 =>
    (r1 == r5) || (okClass r1 r2 r3 r4 r5 false &&
      ((r1 == r2 || r2 == r3 || r3 == r4 || r4 == r5) || okClass r1 r2 r3 r4 r5 true))

theorem checkA_ok : checkA = true := by decide +kernel

theorem classA {r1 r2 r3 r4 r5 : Nat} {f : Bool} (h : Feasible r1 r2 r3 r4 r5 f) :
    okClass r1 r2 r3 r4 r5 f = true := by
  have hA := checkA_ok
  simp only [checkA, List.all_eq_true, List.mem_range] at hA
  have := hA r1 h.h1 r2 (by have := h.h2; omega) r3 (by have := h.h3; omega) r4 (by have := h.h4; omega)
    r5 (by have := h.h5; omega)
  simp only [Bool.or_eq_true, Bool.and_eq_true, beq_iff_eq] at this
  rcases this with h0 | ⟨ha, hb⟩
  · exact absurd h0 h.hne
  · cases f with
    | false => exact ha
    | true =>
      obtain ⟨n1, n2, n3, n4⟩ := h.hf rfl
      rcases hb with hb | hb
      · omega
      · exact hb

end Lemmas
