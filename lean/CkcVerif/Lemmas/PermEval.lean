import CkcVerif.Lemmas.Bridge
/-! Permutation invariance of the abstract evaluator and of the specification -/
namespace Lemmas
open CK Spec

def orMaskL (rs : List Nat) : Nat := rs.foldl (fun a r => a ||| (1 <<< r)) 0
def prodL (rs : List Nat) : Nat := rs.foldl (fun a r => a * prime r) 1
def evalAbsL (rs : List Nat) (f : Bool) : Option Nat := evalCore packed (orMaskL rs) (prodL rs) f

theorem evalAbs_eq_L (r1 r2 r3 r4 r5 : Nat) (f : Bool) :
    evalAbs r1 r2 r3 r4 r5 f = evalAbsL [r1, r2, r3, r4, r5] f := by
  simp [evalAbs, evalAbsL, orMaskL, prodL, orMask5, prod5, List.foldl]

theorem orMaskL_perm {l l' : List Nat} (p : l.Perm l') : orMaskL l = orMaskL l' := by
  unfold orMaskL
  apply List.Perm.foldl_eq' p
  intro x _ y _ z
  simp only [Nat.or_assoc]; congr 1; exact Nat.or_comm _ _

theorem prodL_perm {l l' : List Nat} (p : l.Perm l') : prodL l = prodL l' := by
  unfold prodL
  apply List.Perm.foldl_eq' p
  intro x _ y _ z
  simp only [Nat.mul_assoc]; congr 1; exact Nat.mul_comm _ _

theorem evalAbsL_perm {l l' : List Nat} (p : l.Perm l') (f : Bool) : evalAbsL l f = evalAbsL l' f := by
  simp [evalAbsL, orMaskL_perm p, prodL_perm p]

/-- the specification depends on the ranks only through their multiset -/
theorem strength_perm {l l' : List Nat} (p : l.Perm l') (f : Bool) : strength l f = strength l' f := by
  have hc : counts l = counts l' := by
    unfold counts
    congr 1
    apply List.map_congr_left
    intro r _
    rw [p.count_eq]
  unfold strength groups
  rw [hc]

/-- every 5-list of ranks has a descending rearrangement -/
theorem exists_sorted5 (l : List Nat) (hl : l.length = 5) :
    ∃ q1 q2 q3 q4 q5, l.Perm [q1, q2, q3, q4, q5] ∧ q2 ≤ q1 ∧ q3 ≤ q2 ∧ q4 ≤ q3 ∧ q5 ≤ q4 := by
  let s := l.mergeSort (fun a b => decide (b ≤ a))
  have hp : s.Perm l := List.mergeSort_perm l _
  have hs : s.Pairwise (fun a b => decide (b ≤ a) = true) :=
    List.pairwise_mergeSort (le := fun a b => decide (b ≤ a))
      (by intro a b c; simp only [decide_eq_true_eq]; omega)
      (by intro a b; simp only [Bool.or_eq_true, decide_eq_true_eq]; omega) l
  have hlen : s.length = 5 := by rw [hp.length_eq, hl]
  match s, hlen, hp, hs with
  | [q1, q2, q3, q4, q5], _, hp, hs =>
    refine ⟨q1, q2, q3, q4, q5, hp.symm, ?_⟩
    simp only [List.pairwise_cons, List.mem_cons, decide_eq_true_eq, forall_eq_or_imp] at hs
    simp at hs
    omega

end Lemmas
