import CkcVerif.Model.Bits
/-! population-count lemmas (`pc n x` = number of set bits among the low `n` bits) -/
namespace Lemmas
open CK

theorem pc_zero : ∀ (n x : Nat), pc n x = 0 → ∀ i < n, x.testBit i = false
  | 0, _, _, i, hi => by omega
  | n + 1, x, h, i, hi => by
    unfold pc at h
    by_cases hb : x.testBit n
    · simp [hb] at h
    · simp [hb] at h
      by_cases hin : i = n
      · subst hin; simpa using hb
      · exact pc_zero n x h i (by omega)

theorem pc_one : ∀ (n x : Nat), pc n x = 1 →
    ∃ i, i < n ∧ x.testBit i = true ∧ ∀ k < n, k ≠ i → x.testBit k = false
  | 0, _, h => by simp [pc] at h
  | n + 1, x, h => by
    unfold pc at h
    by_cases hb : x.testBit n
    · simp [hb] at h
      have hz := pc_zero n x h
      refine ⟨n, by omega, hb, ?_⟩
      intro k hk hkn
      exact hz k (by omega)
    · simp [hb] at h
      obtain ⟨i, hi, hbi, hr⟩ := pc_one n x h
      refine ⟨i, by omega, hbi, ?_⟩
      intro k hk hki
      by_cases hkn : k = n
      · subst hkn; simpa using hb
      · exact hr k (by omega) hki

theorem pc_two : ∀ (n x : Nat), pc n x = 2 →
    ∃ i j, j < i ∧ i < n ∧ x.testBit i = true ∧ x.testBit j = true ∧
      ∀ k < n, k ≠ i → k ≠ j → x.testBit k = false
  | 0, _, h => by simp [pc] at h
  | n + 1, x, h => by
    unfold pc at h
    by_cases hb : x.testBit n
    · simp [hb] at h
      have h1 : pc n x = 1 := by omega
      obtain ⟨j, hj, hbj, hr⟩ := pc_one n x h1
      refine ⟨n, j, hj, by omega, hb, hbj, ?_⟩
      intro k hk hkn hkj
      exact hr k (by omega) hkj
    · simp [hb] at h
      obtain ⟨i, j, hji, hi, hbi, hbj, hr⟩ := pc_two n x h
      refine ⟨i, j, hji, by omega, hbi, hbj, ?_⟩
      intro k hk hki hkj
      by_cases hkn : k = n
      · subst hkn; simpa using hb
      · exact hr k (by omega) hki hkj

/-- a 64-bit value with exactly two bits set is `2^i ||| 2^j` -/
theorem two_bits (x : Nat) (hx : x < 2 ^ 64) (h : pc 64 x = 2) :
    ∃ i j, j < i ∧ i < 64 ∧ x = 2 ^ i ||| 2 ^ j := by
  obtain ⟨i, j, hji, hi, hbi, hbj, hr⟩ := pc_two 64 x h
  refine ⟨i, j, hji, hi, ?_⟩
  apply Nat.eq_of_testBit_eq
  intro k
  rw [Nat.testBit_or, Nat.testBit_two_pow, Nat.testBit_two_pow]
  by_cases hki : k = i
  · subst hki; simp [hbi]
  · by_cases hkj : k = j
    · subst hkj; simp [hbj]
    · have : x.testBit k = false := by
        by_cases hk : k < 64
        · exact hr k hk hki hkj
        · apply Nat.testBit_lt_two_pow
          exact Nat.lt_of_lt_of_le hx (Nat.pow_le_pow_right (by omega) (by omega))
      rw [this]
      have h1 : ¬ i = k := fun h => hki h.symm
      have h2 : ¬ j = k := fun h => hkj h.symm
      simp [h1, h2]

/-- population count is sub-additive over OR -/
theorem pc_or_le : ∀ (n a b : Nat), pc n (a ||| b) ≤ pc n a + pc n b
  | 0, _, _ => by simp [pc]
  | n + 1, a, b => by
    have ih := pc_or_le n a b
    unfold pc
    rw [Nat.testBit_or]
    cases a.testBit n <;> cases b.testBit n <;> simp <;> omega

theorem pc_zero_arg (n : Nat) : pc n 0 = 0 := by
  induction n with
  | zero => rfl
  | succ n ih => unfold pc; simp [ih]

theorem pc_le (n x : Nat) : pc n x ≤ n := by
  induction n with
  | zero => simp [pc]
  | succ n ih => unfold pc; split <;> omega

end Lemmas
