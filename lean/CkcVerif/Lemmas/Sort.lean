import CkcVerif.Model.Sort
/-! `sortDesc` is a descending rearrangement; the sorted-scan uniqueness test -/
namespace Lemmas
open CK

theorem insertDesc_perm (x : Nat) (l : List Nat) : (insertDesc x l).Perm (x :: l) := by
  induction l with
  | nil => exact List.Perm.refl _
  | cons y ys ih =>
    unfold insertDesc
    split
    · exact List.Perm.refl _
    · exact (List.Perm.cons y ih).trans (List.Perm.swap x y ys)

theorem insertDesc_sorted (x : Nat) (l : List Nat) (h : l.Pairwise (fun a b => a ≥ b)) :
    (insertDesc x l).Pairwise (fun a b => a ≥ b) := by
  induction l with
  | nil => simp [insertDesc]
  | cons y ys ih =>
    unfold insertDesc
    have hp := List.pairwise_cons.mp h
    split
    · rename_i hge
      refine List.pairwise_cons.mpr ⟨?_, h⟩
      intro z hz
      rcases List.mem_cons.mp hz with rfl | hz
      · exact hge
      · have := hp.1 z hz; omega
    · rename_i hlt
      refine List.pairwise_cons.mpr ⟨?_, ih hp.2⟩
      intro z hz
      have := (insertDesc_perm x ys).mem_iff.mp hz
      rcases List.mem_cons.mp this with rfl | hz'
      · omega
      · exact hp.1 z hz'

theorem sortDesc_perm (l : List Nat) : (sortDesc l).Perm l := by
  induction l with
  | nil => exact List.Perm.refl _
  | cons x xs ih =>
    show (insertDesc x (sortDesc xs)).Perm (x :: xs)
    exact (insertDesc_perm x _).trans (List.Perm.cons x ih)

theorem sortDesc_sorted (l : List Nat) : (sortDesc l).Pairwise (fun a b => a ≥ b) := by
  induction l with
  | nil => exact List.Pairwise.nil
  | cons x xs ih => exact insertDesc_sorted x _ ih

theorem sorted_perm_unique {l₁ l₂ : List Nat} (p : l₁.Perm l₂)
    (h₁ : l₁.Pairwise (fun a b => a ≥ b)) (h₂ : l₂.Pairwise (fun a b => a ≥ b)) : l₁ = l₂ :=
  p.eq_of_pairwise (le := fun a b => a ≥ b) (by intro a b _ _ h1 h2; omega) h₁ h₂

theorem sortDesc_idem (l : List Nat) : sortDesc (sortDesc l) = sortDesc l :=
  sorted_perm_unique (sortDesc_perm _) (sortDesc_sorted _) (sortDesc_sorted _)

theorem sortDesc_of_perm {l l' : List Nat} (p : l.Perm l') : sortDesc l = sortDesc l' :=
  sorted_perm_unique ((sortDesc_perm l).trans (p.trans (sortDesc_perm l').symm)) (sortDesc_sorted _)
    (sortDesc_sorted _)

theorem sortDesc_length (l : List Nat) : (sortDesc l).length = l.length := (sortDesc_perm l).length_eq

theorem scan_iff : ∀ (l : List Nat) (last : Nat), l.Pairwise (fun a b => a ≥ b) →
    (scan last l = true ↔ (∀ c ∈ l, c < last) ∧ l.Pairwise (fun a b => a > b))
  | [], _, _ => by simp [scan]
  | c :: cs, last, hp => by
    have hp' := (List.pairwise_cons.mp hp)
    have ih := scan_iff cs c hp'.2
    unfold scan
    by_cases hge : c ≥ last
    · simp only [hge, if_true]
      constructor
      · intro h; cases h
      · intro ⟨h, _⟩; have := h c List.mem_cons_self; omega
    · simp only [hge, if_false]
      rw [ih, List.pairwise_cons]
      constructor
      · intro ⟨h1, h2⟩
        refine ⟨?_, h1, h2⟩
        intro d hd
        rcases List.mem_cons.mp hd with rfl | hd
        · omega
        · have := h1 d hd; omega
      · intro ⟨_, h2, h3⟩; exact ⟨h2, h3⟩

/-- the sort-then-scan test of `Six` / `Seven` -/
theorem scan_sorted_iff (l : List Nat) (hb : ∀ w ∈ l, w < 2 ^ 32) :
    scan 0xFFFFFFFF (sortDesc l) = true ↔ l.Nodup ∧ 0xFFFFFFFF ∉ l := by
  rw [scan_iff _ _ (sortDesc_sorted l)]
  have hperm := sortDesc_perm l
  constructor
  · intro ⟨h1, h2⟩
    constructor
    · rw [← hperm.nodup_iff]
      exact h2.imp (by intro a b h; omega)
    · intro hm
      have := h1 _ (hperm.mem_iff.mpr hm)
      omega
  · intro ⟨h1, h2⟩
    constructor
    · intro c hc
      have hc' := hperm.mem_iff.mp hc
      have := hb c hc'
      have : c ≠ 0xFFFFFFFF := fun h => h2 (h ▸ hc')
      omega
    · have hn : (sortDesc l).Nodup := hperm.nodup_iff.mpr h1
      have := (sortDesc_sorted l).and hn
      exact this.imp (by intro a b ⟨h3, h4⟩; omega)

end Lemmas
