import CkcVerif.Lemmas.Find
import CkcVerif.Lemmas.KernZ
/-!
# Functional correctness of the (repaired) binary search and of `not_unique`

`PRODUCTS` is strictly increasing (kernel fact over the regenerated table), so the search returns the
index of a key that is in the table, and `not_unique` returns the value stored for a product that is in
the table and 0 for one that is not — for every key.
-/
namespace Lemmas
open CK

/-- product at index `i` of the regenerated table -/
def P (i : Nat) : Nat := get 32 Gen.productsP i

theorem products_eq (i : Nat) (h : i < 4888) : packed.products i = some (P i) := by
  simp [packed, products_len.1, h, P]

theorem P_adjacent (i : Nat) (h : i < 4887) : P i < P (i + 1) := by
  have hk := sortedChk_ok
  simp only [sortedChk, Bool.and_eq_true, List.all_eq_true, List.mem_range, decide_eq_true_eq] at hk
  exact hk.1 i h

/-- the table is strictly increasing -/
theorem P_strict (a : Nat) : ∀ b, a < b → b < 4888 → P a < P b := by
  intro b
  induction b with
  | zero => intro h; omega
  | succ b ih =>
    intro hab hb
    have hadj := P_adjacent b (by omega)
    by_cases h : a = b
    · subst h; exact hadj
    · have := ih (by omega) (by omega); omega

theorem P_inj (a b : Nat) (ha : a < 4888) (hb : b < 4888) (h : P a = P b) : a = b := by
  by_cases h1 : a < b
  · have := P_strict a b h1 hb; omega
  · by_cases h2 : b < a
    · have := P_strict b a h2 ha; omega
    · omega

theorem P_mono_le (a b : Nat) (hab : a ≤ b) (hb : b < 4888) : P a ≤ P b := by
  by_cases h : a = b
  · subst h; exact Nat.le_refl _
  · have := P_strict a b (by omega) hb; omega

/-- loop invariant: a key that is in the table at index `i` stays inside `[low, high]` and is returned -/
theorem findGo_found (key i : Nat) (hi : i < 4888) (hk : P i = key) :
    ∀ (fuel low high : Nat), low ≤ i → i ≤ high → high < 4888 → high + 1 - low < 2 ^ fuel →
      findGo packed key (fuel + 1) low high = some i := by
  intro fuel
  induction fuel with
  | zero => intro low high h1 h2 _ h4; simp at h4; omega
  | succ fuel ih =>
    intro low high h1 h2 h3 h4
    unfold findGo
    have hle : low ≤ high := by omega
    simp only [hle, if_true]
    have hmid : (high + low) >>> 1 = (high + low) / 2 := by simp [Nat.shiftRight_eq_div_pow]
    rw [hmid]
    have hm : (high + low) / 2 < 4888 := by omega
    rw [products_eq _ hm]
    simp only
    have hpow : 2 ^ (fuel + 1) = 2 * 2 ^ fuel := by rw [Nat.pow_succ]; omega
    by_cases hlt : key < P ((high + low) / 2)
    · simp only [hlt, if_true]
      have him : i < (high + low) / 2 := by
        by_cases hc : i < (high + low) / 2
        · exact hc
        · have := P_mono_le ((high + low) / 2) i (by omega) hi; omega
      have hz : ¬ (high + low) / 2 = 0 := by omega
      simp only [hz, if_false]
      apply ih <;> omega
    · simp only [hlt, if_false]
      by_cases hgt : key > P ((high + low) / 2)
      · simp only [hgt, if_true]
        have him : (high + low) / 2 < i := by
          by_cases hc : (high + low) / 2 < i
          · exact hc
          · have := P_mono_le i ((high + low) / 2) (by omega) hm; omega
        apply ih <;> omega
      · simp only [hgt, if_false]
        have : P ((high + low) / 2) = P i := by omega
        rw [P_inj _ _ hm hi this]

/-- **the search finds every key that is in the table** -/
theorem findInProducts_found (i : Nat) (hi : i < 4888) : findInProducts packed (P i) = some i := by
  unfold findInProducts
  apply findGo_found (P i) i hi rfl 13 0 4887 <;> first | omega | decide

/-- **`not_unique` for every key**: the value stored with the product if the product is in the table,
    0 otherwise -/
theorem notUniqueKey_spec (key : Nat) :
    (∀ i, i < 4888 → P i = key → notUniqueKey packed key = packed.values i) ∧
    ((∀ i, i < 4888 → P i ≠ key) → notUniqueKey packed key = some 0) := by
  constructor
  · intro i hi hk
    unfold notUniqueKey
    rw [← hk, findInProducts_found i hi]
    simp only
    rw [products_eq i hi]
    simp
  · intro hno
    unfold notUniqueKey
    obtain ⟨j, hj, hlt⟩ := findInProducts_total key
    rw [hj]
    simp only
    rw [products_eq j hlt]
    simp only
    have : (P j != key) = true := by simpa using hno j hlt
    rw [if_pos this]
    decide

end Lemmas
