import CkcVerif.Spec.Key
import CkcVerif.Model.Sort
/-!
# Strength determines the class (specification only)

`classOfKey` rebuilds the descending rank tuple and the flush flag from a strength value; the kernel
checks that it inverts `key` on all 7,462 feasible classes, hence `key` is injective on them: two
hands tie only if they have the same ranks and the same flush-ness.
-/
namespace Lemmas
open CK Spec

def digit (s k : Nat) : Nat := s / 13 ^ k % 13

/-- the class with strength `s` -/
def classOfKey (s : Nat) : List Nat × Bool :=
  let cat := s / 13 ^ 5
  let a := digit s 4; let b := digit s 3; let c := digit s 2; let d := digit s 1; let e := digit s 0
  let straight (t : Nat) : List Nat := if t == 3 then [12, 3, 2, 1, 0] else [t, t - 1, t - 2, t - 3, t - 4]
  match cat with
  | 8 => (straight a, true)
  | 7 => (sortDesc [a, a, a, a, b], false)
  | 6 => (sortDesc [a, a, a, b, b], false)
  | 5 => ([a, b, c, d, e], true)
  | 4 => (straight a, false)
  | 3 => (sortDesc [a, a, a, b, c], false)
  | 2 => (sortDesc [a, a, b, b, c], false)
  | 1 => (sortDesc [a, a, b, c, d], false)
  | _ => ([a, b, c, d, e], false)

def chkKeyInv : Bool :=
  (List.range 13).all fun r1 => (List.range (r1 + 1)).all fun r2 => (List.range (r2 + 1)).all fun r3 =>
  (List.range (r3 + 1)).all fun r4 => (List.range (r4 + 1)).all fun r5 =>
    (r1 == r5) ||
      ((classOfKey (key r1 r2 r3 r4 r5 false) == ([r1, r2, r3, r4, r5], false)) &&
       ((r1 == r2 || r2 == r3 || r3 == r4 || r4 == r5) ||
          classOfKey (key r1 r2 r3 r4 r5 true) == ([r1, r2, r3, r4, r5], true)))

theorem chkKeyInv_ok : chkKeyInv = true := by decide +kernel

theorem classOfKey_key {r1 r2 r3 r4 r5 : Nat} {f : Bool} (h : Feasible r1 r2 r3 r4 r5 f) :
    classOfKey (key r1 r2 r3 r4 r5 f) = ([r1, r2, r3, r4, r5], f) := by
  have hS := chkKeyInv_ok
  simp only [chkKeyInv, List.all_eq_true, List.mem_range] at hS
  have := hS r1 h.h1 r2 (by have := h.h2; omega) r3 (by have := h.h3; omega) r4 (by have := h.h4; omega)
    r5 (by have := h.h5; omega)
  simp only [Bool.or_eq_true, Bool.and_eq_true, beq_iff_eq] at this
  rcases this with h0 | ⟨ha, hb⟩
  · exact absurd h0 h.hne
  · cases f with
    | false => exact ha
    | true =>
      obtain ⟨n1, n2, n3, n4⟩ := h.hf rfl
      rcases hb with hb | hb
      · omega
      · exact hb

/-- `key` is injective on feasible classes -/
theorem key_injective {r1 r2 r3 r4 r5 : Nat} {f : Bool} {q1 q2 q3 q4 q5 : Nat} {g : Bool}
    (hc : Feasible r1 r2 r3 r4 r5 f) (hd : Feasible q1 q2 q3 q4 q5 g)
    (h : key r1 r2 r3 r4 r5 f = key q1 q2 q3 q4 q5 g) :
    r1 = q1 ∧ r2 = q2 ∧ r3 = q3 ∧ r4 = q4 ∧ r5 = q5 ∧ f = g := by
  have a := classOfKey_key hc
  have b := classOfKey_key hd
  rw [h, b] at a
  simp only [Prod.mk.injEq, List.cons.injEq, and_true] at a
  obtain ⟨⟨e1, e2, e3, e4, e5⟩, e6⟩ := a
  exact ⟨e1.symm, e2.symm, e3.symm, e4.symm, e5.symm, e6.symm⟩

end Lemmas
