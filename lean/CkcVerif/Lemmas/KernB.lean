import CkcVerif.Lemmas.Abs
/-! Kernel fact **B**: the inverse table is strictly decreasing and non-empty along v = 1..7462. -/
namespace Lemmas

def checkB : Bool := (List.range 7461).all fun k => decide (slot (k + 1) > slot (k + 2)) && decide (slot (k + 2) > 0)

theorem checkB_ok : checkB = true := by decide +kernel

theorem slot_adj (k : Nat) (hk : k < 7461) : slot (k + 1) > slot (k + 2) ∧ slot (k + 2) > 0 := by
  have h := checkB_ok
  simp only [checkB, List.all_eq_true, List.mem_range, Bool.and_eq_true, decide_eq_true_eq] at h
  exact h k hk

/-- hence strictly decreasing over the whole range 1..7462 -/
theorem slot_strict (i : Nat) (hi : 1 ≤ i) : ∀ j, i < j → j ≤ 7462 → slot i > slot j := by
  intro j
  induction j with
  | zero => intro h; omega
  | succ j ih =>
    intro hij hj
    have hadj := (slot_adj (j - 1) (by omega)).1
    have e1 : j - 1 + 1 = j := by omega
    have e2 : j - 1 + 2 = j + 1 := by omega
    rw [e1, e2] at hadj
    by_cases h : i = j
    · subst h; exact hadj
    · have := ih (by omega) (by omega); omega

end Lemmas
