import CkcVerif.Lemmas.PermEval
import CkcVerif.Spec.Straight
/-! Rank masks: bit `i` of the OR of `1 <<< r` is set iff rank `i` is present; the straight test on masks -/
namespace Lemmas
open CK Spec

theorem testBit_foldl_or (rs : List Nat) (acc i : Nat) :
    (rs.foldl (fun a r => a ||| (1 <<< r)) acc).testBit i = (acc.testBit i || decide (i ∈ rs)) := by
  induction rs generalizing acc with
  | nil => simp
  | cons r rs ih =>
    rw [List.foldl_cons, ih, Nat.testBit_or, Nat.one_shiftLeft, Nat.testBit_two_pow]
    by_cases h : r = i
    · subst h; simp
    · have h' : ¬ i = r := fun e => h e.symm
      simp [h, h']

theorem testBit_orMaskL (rs : List Nat) (i : Nat) : (orMaskL rs).testBit i = decide (i ∈ rs) := by
  unfold orMaskL; rw [testBit_foldl_or]; simp

theorem orMaskL_lt (rs : List Nat) (h : ∀ r ∈ rs, r < 13) : orMaskL rs < 2 ^ 13 := by
  apply Nat.lt_pow_two_of_testBit
  intro i hi
  rw [testBit_orMaskL]
  simp only [decide_eq_false_iff_not]
  intro hm
  have := h i hm
  omega

def maskOf (S : List Nat) : Nat := orMaskL S

/-- a mask below 2^13 equals the mask of `S ⊆ 0..12` iff the ranks present are exactly `S` -/
theorem mask_eq_iff (rs S : List Nat) (h : ∀ r ∈ rs, r < 13) (hS : ∀ r ∈ S, r < 13) :
    orMaskL rs = maskOf S ↔ rankSetIs rs S = true := by
  unfold rankSetIs maskOf
  rw [List.all_eq_true]
  constructor
  · intro e i _
    have := congrArg (fun m => Nat.testBit m i) e
    simp only [testBit_orMaskL] at this
    simp [this]
  · intro hall
    apply Nat.eq_of_testBit_eq
    intro i
    rw [testBit_orMaskL, testBit_orMaskL]
    by_cases hi : i < 13
    · have := hall i (List.mem_range.mpr hi)
      simpa using this
    · have h1 : i ∉ rs := fun hm => hi (h i hm)
      have h2 : i ∉ S := fun hm => hi (hS i hm)
      simp [h1, h2]

/-- repaired `is_straight` on the OR-ed rank mask -/
def isStraightMask (m : Nat) : Bool :=
  (pc 32 m == 5 && tz32 m + lz32 m == Gen.straightPadding) || m == Gen.wheelOrBits

def straightMaskChk : Bool := (List.range 8192).all fun m =>
  (isStraightMask m == straightSets.any (fun S => m == maskOf S)) &&
  ((m == Gen.wheelOrBits) == (m == maskOf wheelSet))

/-- K over all 8,192 rank masks -/
theorem straightMaskChk_ok : straightMaskChk = true := by decide +kernel

theorem isStraightMask_iff (m : Nat) (h : m < 8192) :
    isStraightMask m = straightSets.any (fun S => m == maskOf S) ∧
    (m == Gen.wheelOrBits) = (m == maskOf wheelSet) := by
  have hk := straightMaskChk_ok
  simp only [straightMaskChk, List.all_eq_true, List.mem_range, Bool.and_eq_true, beq_iff_eq] at hk
  exact hk m h

theorem straightSets_lt : ∀ S ∈ straightSets, ∀ r ∈ S, r < 13 := by decide

/-- for any list of ranks below 13 -/
theorem isStraightMask_ranks (rs : List Nat) (h : ∀ r ∈ rs, r < 13) :
    isStraightMask (orMaskL rs) = isStraightRanks rs ∧ (orMaskL rs == Gen.wheelOrBits) = isWheelRanks rs := by
  have hlt : orMaskL rs < 8192 := orMaskL_lt rs h
  obtain ⟨e1, e2⟩ := isStraightMask_iff _ hlt
  constructor
  · rw [e1]
    unfold isStraightRanks
    rw [Bool.eq_iff_iff, List.any_eq_true, List.any_eq_true]
    constructor
    · rintro ⟨S, hS, e⟩
      exact ⟨S, hS, (mask_eq_iff rs S h (straightSets_lt S hS)).mp (by simpa using e)⟩
    · rintro ⟨S, hS, e⟩
      exact ⟨S, hS, by simpa using (mask_eq_iff rs S h (straightSets_lt S hS)).mpr e⟩
  · rw [e2]
    unfold isWheelRanks
    rw [Bool.eq_iff_iff]
    have hw : ∀ r ∈ wheelSet, r < 13 := by decide
    constructor
    · intro e; exact (mask_eq_iff rs wheelSet h hw).mp (by simpa using e)
    · intro e; simpa using (mask_eq_iff rs wheelSet h hw).mpr e

end Lemmas
