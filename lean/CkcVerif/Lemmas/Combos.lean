import CkcVerif.Spec.Combos
/-! facts about `Spec.combos`: it enumerates exactly the k-element sublists -/
namespace Lemmas
open Spec

theorem combos_map {α β : Type} (f : α → β) : ∀ (k : Nat) (l : List α),
    combos k (l.map f) = (combos k l).map (List.map f)
  | 0, _ => by simp [combos]
  | _ + 1, [] => by simp [combos]
  | k + 1, x :: xs => by
    simp only [List.map_cons, combos, List.map_append, List.map_map]
    rw [combos_map f k xs, combos_map f (k + 1) xs]
    simp only [List.map_map]
    congr 1

theorem mem_combos {α : Type} : ∀ (k : Nat) (l s : List α),
    s ∈ combos k l ↔ s.Sublist l ∧ s.length = k
  | 0, l, s => by
    simp only [combos, List.mem_singleton]
    constructor
    · intro h; subst h; exact ⟨List.nil_sublist l, rfl⟩
    · intro ⟨_, h⟩; exact List.eq_nil_of_length_eq_zero h
  | k + 1, [], s => by
    simp only [combos, List.not_mem_nil, false_iff]
    intro ⟨h1, h2⟩
    have := List.eq_nil_of_sublist_nil h1
    subst this; simp at h2
  | k + 1, x :: xs, s => by
    simp only [combos, List.mem_append, List.mem_map]
    constructor
    · rintro (⟨t, ht, rfl⟩ | h)
      · have := (mem_combos k xs t).mp ht
        exact ⟨List.Sublist.cons_cons x this.1, by simp [this.2]⟩
      · have := (mem_combos (k + 1) xs s).mp h
        exact ⟨List.Sublist.cons x this.1, this.2⟩
    · intro ⟨h1, h2⟩
      cases h1 with
      | cons _ h => right; exact (mem_combos (k + 1) xs s).mpr ⟨h, h2⟩
      | cons_cons _ h =>
        rename_i t
        left
        refine ⟨t, (mem_combos k xs t).mpr ⟨h, ?_⟩, rfl⟩
        simpa using h2

/-- sub-hands of a sub-hand are sub-hands of the whole hand -/
theorem combos_sub {α : Type} (k : Nat) (g l s : List α) (hg : g.Sublist l) (hs : s ∈ combos k g) :
    s ∈ combos k l := by
  rw [mem_combos] at hs ⊢
  exact ⟨hs.1.trans hg, hs.2⟩

theorem range_map_getD (ws : List Nat) : (List.range ws.length).map (fun i => ws.getD i 0) = ws := by
  apply List.ext_getElem
  · simp
  · intro i h1 h2
    simp at h1
    simp [List.getD_eq_getElem?_getD, h1]

end Lemmas
