import CkcVerif.Model.Five
/-! The five-card evaluator is a symmetric function of its five slots (any words) -/
namespace Lemmas
open CK

theorem len5 {ws : List Nat} (h : ws.length = 5) : ∃ a b c d e, ws = [a, b, c, d, e] := by
  match ws, h with
  | [a, b, c, d, e], _ => exact ⟨a, b, c, d, e, rfl⟩

theorem orBits_fold {ws : List Nat} (h : ws.length = 5) : orBits ws = ws.foldl (· ||| ·) 0 := by
  obtain ⟨a, b, c, d, e, rfl⟩ := len5 h
  simp [orBits, List.foldl]

theorem mulPrimes_fold {ws : List Nat} (h : ws.length = 5) :
    multiplyPrimes ws = ws.foldl (fun acc w => acc * getRankPrime w) 1 := by
  obtain ⟨a, b, c, d, e, rfl⟩ := len5 h
  simp [multiplyPrimes, List.foldl]

theorem andSuit_fold {ws : List Nat} (h : ws.length = 5) :
    andBits ws &&& Gen.suitFilter = ws.foldl (fun acc w => acc &&& w) Gen.suitFilter := by
  obtain ⟨a, b, c, d, e, rfl⟩ := len5 h
  simp only [andBits, List.foldl]
  apply Nat.eq_of_testBit_eq
  intro i
  simp only [Nat.testBit_and]
  cases a.testBit i <;> cases b.testBit i <;> cases c.testBit i <;> cases d.testBit i <;>
    cases e.testBit i <;> cases Gen.suitFilter.testBit i <;> rfl

theorem orBits_perm {ws ws' : List Nat} (h : ws.length = 5) (p : ws.Perm ws') : orBits ws = orBits ws' := by
  rw [orBits_fold h, orBits_fold (p.length_eq ▸ h)]
  apply List.Perm.foldl_eq' p
  intro x _ y _ z
  simp only [Nat.or_assoc]; congr 1; exact Nat.or_comm _ _

theorem mulPrimes_perm {ws ws' : List Nat} (h : ws.length = 5) (p : ws.Perm ws') :
    multiplyPrimes ws = multiplyPrimes ws' := by
  rw [mulPrimes_fold h, mulPrimes_fold (p.length_eq ▸ h)]
  apply List.Perm.foldl_eq' p
  intro x _ y _ z
  simp only [Nat.mul_assoc]; congr 1; exact Nat.mul_comm _ _

theorem isFlush_perm {ws ws' : List Nat} (h : ws.length = 5) (p : ws.Perm ws') : isFlush ws = isFlush ws' := by
  unfold isFlush
  rw [andSuit_fold h, andSuit_fold (p.length_eq ▸ h)]
  congr 1
  apply List.Perm.foldl_eq' p
  intro x _ y _ z
  simp only [Nat.and_assoc]; congr 1; exact Nat.and_comm _ _

/-- the five-card value does not depend on the slot order — for ANY five words -/
theorem handRankValue5_perm (T : Tables) {ws ws' : List Nat} (h : ws.length = 5) (p : ws.Perm ws') :
    handRankValue5 T ws = handRankValue5 T ws' := by
  unfold handRankValue5 orRankBits
  rw [orBits_perm h p, mulPrimes_perm h p, isFlush_perm h p]

end Lemmas
