import CkcVerif.Lemmas.Masks
import CkcVerif.Lemmas.Abs
/-! K over the 7,462 classes: the straight test on the class's rank mask, and the flush flag, agree with
    the category digit of the class's strength key (4 straight, 5 flush, 8 straight flush). -/
namespace Lemmas
open CK Spec

def catOk (r1 r2 r3 r4 r5 : Nat) (f : Bool) : Bool :=
  let cat := key r1 r2 r3 r4 r5 f / 13 ^ 5
  (isStraightMask (orMask5 r1 r2 r3 r4 r5) == (cat == 4 || cat == 8)) && (f == (cat == 5 || cat == 8))

def checkCat : Bool :=
  (List.range 13).all fun r1 => (List.range (r1 + 1)).all fun r2 => (List.range (r2 + 1)).all fun r3 =>
  (List.range (r3 + 1)).all fun r4 => (List.range (r4 + 1)).all fun r5 =>
    (r1 == r5) || (catOk r1 r2 r3 r4 r5 false &&
      ((r1 == r2 || r2 == r3 || r3 == r4 || r4 == r5) || catOk r1 r2 r3 r4 r5 true))

theorem checkCat_ok : checkCat = true := by decide +kernel

theorem cat_ok {r1 r2 r3 r4 r5 : Nat} {f : Bool} (h : Feasible r1 r2 r3 r4 r5 f) :
    catOk r1 r2 r3 r4 r5 f = true := by
  have hA := checkCat_ok
  simp only [checkCat, List.all_eq_true, List.mem_range] at hA
  have := hA r1 h.h1 r2 (by have := h.h2; omega) r3 (by have := h.h3; omega) r4 (by have := h.h4; omega)
    r5 (by have := h.h5; omega)
  simp only [Bool.or_eq_true, Bool.and_eq_true, beq_iff_eq] at this
  rcases this with h0 | ⟨ha, hb⟩
  · exact absurd h0 h.hne
  · cases f with
    | false => simpa [Bool.and_eq_true] using ha
    | true =>
      obtain ⟨n1, n2, n3, n4⟩ := h.hf rfl
      rcases hb with hb | hb
      · omega
      · simpa [Bool.and_eq_true] using hb

end Lemmas
