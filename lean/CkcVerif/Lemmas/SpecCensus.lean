import CkcVerif.Spec.Key
/-!
# Census of the specification (validation of `Spec.strength` against textbook poker combinatorics)

Independent of the crate.  For every feasible class the number of five-card hands (sets of distinct
cards) that realise it is computed from its rank multiplicities; the totals per category must be the
well-known ones (40 straight flushes, 624 four of a kind, 3,744 full houses, 5,108 flushes, 10,200
straights, 54,912 three of a kind, 123,552 two pair, 1,098,240 pairs, 1,302,540 high card), the
number of classes per category 10 / 156 / 156 / 1,277 / 10 / 858 / 858 / 2,860 / 1,277, and everything
must add up to C(52,5) = 2,598,960 hands in 7,462 classes.
-/
namespace Lemmas
open Spec

def choose4 : Nat → Nat
  | 0 => 1 | 1 => 4 | 2 => 6 | 3 => 4 | 4 => 1 | _ => 0

/-- number of five-card hands with the descending rank tuple `r1..r5`: flush hands (all one suit,
    ranks distinct) when `f`, otherwise all suit assignments minus the flush ones -/
def handCount (r1 r2 r3 r4 r5 : Nat) (f : Bool) : Nat :=
  let rs := [r1, r2, r3, r4, r5]
  let distinct := r1 != r2 && r2 != r3 && r3 != r4 && r4 != r5
  if f then 4
  else
    let ways := ((List.range 13).map fun r => choose4 (rs.count r)).foldl (· * ·) 1
    if distinct then ways - 4 else ways

/-- all feasible classes (descending rank tuple, flush flag), by nested enumeration -/
def specClasses : List (Nat × Nat × Nat × Nat × Nat × Bool) :=
  (List.range 13).flatMap fun r1 => (List.range (r1 + 1)).flatMap fun r2 => (List.range (r2 + 1)).flatMap fun r3 =>
  (List.range (r3 + 1)).flatMap fun r4 => (List.range (r4 + 1)).flatMap fun r5 =>
    if r1 == r5 then [] else
      (r1, r2, r3, r4, r5, false) ::
        (if r1 == r2 || r2 == r3 || r3 == r4 || r4 == r5 then [] else [(r1, r2, r3, r4, r5, true)])

/-- class count in lane `cat`, hand count in lane `9 + cat` (64-bit lanes of one number) -/
def censusP : Nat :=
  specClasses.foldl (fun acc c =>
    let cat := key c.1 c.2.1 c.2.2.1 c.2.2.2.1 c.2.2.2.2.1 c.2.2.2.2.2 / 13 ^ 5
    acc + (1 <<< (64 * cat)) + (handCount c.1 c.2.1 c.2.2.1 c.2.2.2.1 c.2.2.2.2.1 c.2.2.2.2.2 <<< (64 * (9 + cat)))) 0

def lane (k : Nat) : Nat := (censusP >>> (64 * k)) % 2 ^ 64

/-- (classes, hands) per category 0..8 -/
def census : List (Nat × Nat) := (List.range 9).map fun c => (lane c, lane (9 + c))

/-- the specification reproduces the textbook census: classes and hands per category (high card … straight
    flush), 7,462 classes and C(52,5) = 2,598,960 hands in all -/
theorem census_ok : census =
    [(1277, 1302540), (2860, 1098240), (858, 123552), (858, 54912), (10, 10200), (1277, 5108),
     (156, 3744), (156, 624), (10, 40)] ∧
    (census.map (·.1)).foldl (· + ·) 0 = 7462 ∧ (census.map (·.2)).foldl (· + ·) 0 = 2598960 := by
  decide +kernel

end Lemmas
