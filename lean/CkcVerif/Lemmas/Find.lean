import CkcVerif.Model.Five
/-! The repaired binary search returns normally for every key -/
namespace Lemmas
open CK

theorem products_len : Gen.productsLen = 4888 ∧ Gen.valuesLen = 4888 ∧ Gen.flushesLen = 7937 ∧
    Gen.unique5Len = 7937 := by decide

theorem products_some (i : Nat) (h : i < 4888) : ∃ p, packed.products i = some p := by
  simp [packed, products_len.1, h]

theorem values_some (i : Nat) (h : i < 4888) : ∃ p, packed.values i = some p := by
  simp [packed, products_len.2.1, h]

theorem flushes_some (i : Nat) (h : i < 7937) : ∃ p, packed.flushes i = some p := by
  simp [packed, products_len.2.2.1, h]

theorem unique5_some (i : Nat) (h : i < 7937) : packed.unique5 i = some (get 16 Gen.unique5P i) := by
  simp [packed, products_len.2.2.2, h]

theorem findGo_total (key : Nat) : ∀ (fuel low high : Nat), high < 4888 → high + 1 - low < 2 ^ fuel →
    ∃ j, findGo packed key (fuel + 1) low high = some j ∧ j < 4888 := by
  intro fuel
  induction fuel with
  | zero =>
    intro low high _ h2
    have : ¬ low ≤ high := by simp at h2; omega
    unfold findGo; simp only [this, if_false]; exact ⟨0, rfl, by omega⟩
  | succ fuel ih =>
    intro low high h1 h2
    unfold findGo
    by_cases hle : low ≤ high
    · simp only [hle, if_true]
      have hmid : (high + low) >>> 1 = (high + low) / 2 := by simp [Nat.shiftRight_eq_div_pow]
      rw [hmid]
      have hm : (high + low) / 2 < 4888 := by omega
      obtain ⟨p, hp⟩ := products_some _ hm
      rw [hp]
      simp only
      have hpow : 2 ^ (fuel + 1) = 2 * 2 ^ fuel := by rw [Nat.pow_succ]; omega
      by_cases hlt : key < p
      · simp only [hlt, if_true]
        by_cases hz : (high + low) / 2 = 0
        · simp [hz]
        · simp only [hz, if_false]
          apply ih <;> omega
      · simp only [hlt, if_false]
        by_cases hgt : key > p
        · simp only [hgt, if_true]
          apply ih <;> omega
        · simp only [hgt, if_false]
          exact ⟨_, rfl, hm⟩
    · simp only [hle, if_false]
      exact ⟨0, rfl, by omega⟩

/-- the search returns an in-range index for **every** key; 14 units of fuel are never exhausted -/
theorem findInProducts_total (key : Nat) : ∃ j, findInProducts packed key = some j ∧ j < 4888 := by
  unfold findInProducts
  apply findGo_total
  · omega
  · decide

theorem notUniqueKey_total (key : Nat) : ∃ v, notUniqueKey packed key = some v := by
  unfold notUniqueKey
  obtain ⟨j, hj, hlt⟩ := findInProducts_total key
  rw [hj]
  obtain ⟨p, hp⟩ := products_some j hlt
  simp only
  rw [hp]
  simp only
  by_cases h : (p != key) = true
  · rw [if_pos h]; exact ⟨_, rfl⟩
  · rw [if_neg h]; exact values_some j hlt

end Lemmas
