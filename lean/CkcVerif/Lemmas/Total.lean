import CkcVerif.Model.SixSeven
import CkcVerif.Spec.Layout
import CkcVerif.Lemmas.Find
import CkcVerif.Lemmas.Pop
import CkcVerif.Lemmas.KernZ
import CkcVerif.Lemmas.Bridge
/-! Totality of ranking on card-or-blank hands, and the value of a five with a blank -/
namespace Lemmas
open CK Spec

/-- a slot holds a real card word or the blank card -/
def CardOrBlank (w : Nat) : Prop := w = 0 ∨ w ∈ deckWords

theorem slot_field : ∀ w ∈ 0 :: deckWords, w >>> 16 < 8192 ∧ pc 13 (w >>> 16) ≤ 1 := by decide

theorem slot_field' {w : Nat} (h : CardOrBlank w) : w >>> 16 < 8192 ∧ pc 13 (w >>> 16) ≤ 1 := by
  apply slot_field
  rcases h with h | h
  · rw [h]; exact List.mem_cons_self
  · exact List.mem_cons_of_mem _ h

theorem or5_lt {a b c d e : Nat} (ha : a < 8192) (hb : b < 8192) (hc : c < 8192) (hd : d < 8192) (he : e < 8192) :
    a ||| b ||| c ||| d ||| e < 8192 := by
  have h : (8192 : Nat) = 2 ^ 13 := by decide
  rw [h] at *
  exact Nat.or_lt_two_pow (Nat.or_lt_two_pow (Nat.or_lt_two_pow (Nat.or_lt_two_pow ha hb) hc) hd) he

theorem pc_or5 (n a b c d e : Nat) :
    pc n (a ||| b ||| c ||| d ||| e) ≤ pc n a + pc n b + pc n c + pc n d + pc n e := by
  have h1 := pc_or_le n (a ||| b ||| c ||| d) e
  have h2 := pc_or_le n (a ||| b ||| c) d
  have h3 := pc_or_le n (a ||| b) c
  have h4 := pc_or_le n a b
  omega

/-- the OR-ed rank index of five card-or-blank slots addresses both 7,937-cell tables -/
theorem orRankBits_bound {a b c d e : Nat} (ha : CardOrBlank a) (hb : CardOrBlank b) (hc : CardOrBlank c)
    (hd : CardOrBlank d) (he : CardOrBlank e) :
    orRankBits [a, b, c, d, e] ≤ 7936 ∧
    pc 13 (orRankBits [a, b, c, d, e]) ≤
      pc 13 (a >>> 16) + pc 13 (b >>> 16) + pc 13 (c >>> 16) + pc 13 (d >>> 16) + pc 13 (e >>> 16) := by
  have e1 : orRankBits [a, b, c, d, e] = (a >>> 16) ||| (b >>> 16) ||| (c >>> 16) ||| (d >>> 16) ||| (e >>> 16) := by
    simp only [orRankBits, orBits, eval_consts.1, or_shift]
  rw [e1]
  have fa := slot_field' ha; have fb := slot_field' hb; have fc := slot_field' hc
  have fd := slot_field' hd; have fe := slot_field' he
  have hp := pc_or5 13 (a >>> 16) (b >>> 16) (c >>> 16) (d >>> 16) (e >>> 16)
  refine ⟨mask_bound _ (or5_lt fa.1 fb.1 fc.1 fd.1 fe.1) (by omega), hp⟩

theorem evalCore_total (i key : Nat) (flush : Bool) (hi : i ≤ 7936) : ∃ v, evalCore packed i key flush = some v := by
  unfold evalCore
  cases flush with
  | true => simp only [if_true]; exact flushes_some i (by omega)
  | false =>
    simp only [Bool.false_eq_true, if_false]
    have hu : unique packed i = some (get 16 Gen.unique5P i) := by
      unfold unique
      have : ¬ i > Gen.possibleCombinations := by
        have : Gen.possibleCombinations = 7937 := by decide
        omega
      rw [if_neg this]
      exact unique5_some i (by omega)
    rw [hu]
    cases hg : get 16 Gen.unique5P i with
    | zero => exact notUniqueKey_total key
    | succ u => exact ⟨_, rfl⟩

/-- ranking five card-or-blank slots (any repetition) never panics -/
theorem five_total {a b c d e : Nat} (ha : CardOrBlank a) (hb : CardOrBlank b) (hc : CardOrBlank c)
    (hd : CardOrBlank d) (he : CardOrBlank e) : ∃ v, handRankValue5 packed [a, b, c, d, e] = some v := by
  unfold handRankValue5
  exact evalCore_total _ _ _ (orRankBits_bound ha hb hc hd he).1

theorem notUniqueKey_zero : notUniqueKey packed 0 = some 0 := by decide +kernel

theorem pc13_zero : pc 13 (0 >>> 16) = 0 := by decide

/-- a five-slot hand holding a blank gets value 0 -/
theorem five_blank {a b c d e : Nat} (ha : CardOrBlank a) (hb : CardOrBlank b) (hc : CardOrBlank c)
    (hd : CardOrBlank d) (he : CardOrBlank e) (h0 : 0 ∈ [a, b, c, d, e]) :
    handRankValue5 packed [a, b, c, d, e] = some 0 := by
  obtain ⟨hi, hp⟩ := orRankBits_bound ha hb hc hd he
  have fa := (slot_field' ha).2; have fb := (slot_field' hb).2; have fc := (slot_field' hc).2
  have fd := (slot_field' hd).2; have fe := (slot_field' he).2
  have hfl : isFlush [a, b, c, d, e] = false := by
    unfold isFlush andBits
    simp only [List.mem_cons, List.not_mem_nil, or_false] at h0
    rcases h0 with h | h | h | h | h <;> subst h <;> simp
  have hkey : multiplyPrimes [a, b, c, d, e] = 0 := by
    unfold multiplyPrimes getRankPrime
    simp only [List.mem_cons, List.not_mem_nil, or_false] at h0
    rcases h0 with h | h | h | h | h <;> subst h <;> simp
  have hpc : pc 13 (orRankBits [a, b, c, d, e]) ≠ 5 := by
    simp only [List.mem_cons, List.not_mem_nil, or_false] at h0
    have z := pc13_zero
    rcases h0 with h | h | h | h | h <;> subst h <;> omega
  unfold handRankValue5 evalCore
  rw [hfl, hkey]
  simp only [Bool.false_eq_true, if_false]
  have hu : unique packed (orRankBits [a, b, c, d, e]) = some 0 := by
    unfold unique
    have : ¬ orRankBits [a, b, c, d, e] > Gen.possibleCombinations := by
      have : Gen.possibleCombinations = 7937 := by decide
      omega
    rw [if_neg this, unique5_some _ (by omega), unique5_zero _ (by omega) hpc]
  rw [hu]
  exact notUniqueKey_zero

/-- slot-index rows of the published tables are five in-range indices -/
theorem perms_in_range : (∀ row ∈ Gen.perms6, row.length = 5 ∧ ∀ i ∈ row, i < 6) ∧
    (∀ row ∈ Gen.perms7, row.length = 5 ∧ ∀ i ∈ row, i < 7) := by decide

theorem pick_total (ws row : List Nat) (hl : row.length = 5) (hr : ∀ i ∈ row, i < ws.length) :
    ∃ a b c d e, pick ws row = some [a, b, c, d, e] ∧ a ∈ ws ∧ b ∈ ws ∧ c ∈ ws ∧ d ∈ ws ∧ e ∈ ws := by
  match row, hl with
  | [i0, i1, i2, i3, i4], _ =>
    have h0 := hr i0 (by simp); have h1 := hr i1 (by simp); have h2 := hr i2 (by simp)
    have h3 := hr i3 (by simp); have h4 := hr i4 (by simp)
    refine ⟨ws[i0], ws[i1], ws[i2], ws[i3], ws[i4], ?_, ?_⟩
    · unfold pick
      simp only [List.getElem?_eq_getElem h0, List.getElem?_eq_getElem h1, List.getElem?_eq_getElem h2,
        List.getElem?_eq_getElem h3, List.getElem?_eq_getElem h4]
    · exact ⟨List.getElem_mem _, List.getElem_mem _, List.getElem_mem _, List.getElem_mem _, List.getElem_mem _⟩

/-- the best-of loop over any table of in-range rows is total on card-or-blank slots -/
theorem foldl_stepBest_total (ws : List Nat) (hws : ∀ w ∈ ws, CardOrBlank w) :
    ∀ (perms : List (List Nat)) (acc : Nat × List Nat),
      (∀ row ∈ perms, row.length = 5 ∧ ∀ i ∈ row, i < ws.length) →
      ∃ r, perms.foldl (stepBest packed ws) (some acc) = some r := by
  intro perms
  induction perms with
  | nil => intro acc _; exact ⟨acc, rfl⟩
  | cons row rest ih =>
    intro acc hp
    obtain ⟨hl, hr⟩ := hp row List.mem_cons_self
    obtain ⟨a, b, c, d, e, hpk, ma, mb, mc, md, me⟩ := pick_total ws row hl hr
    obtain ⟨v, hv⟩ := five_total (hws a ma) (hws b mb) (hws c mc) (hws d md) (hws e me)
    rw [List.foldl_cons]
    have : ∃ acc', stepBest packed ws (some acc) row = some acc' := by
      unfold stepBest
      simp only [hpk, hv]
      split <;> exact ⟨_, rfl⟩
    obtain ⟨acc', ha⟩ := this
    rw [ha]
    exact ih acc' (fun r hr' => hp r (List.mem_cons_of_mem _ hr'))

theorem sixseven_total (perms : List (List Nat)) (ws : List Nat) (hws : ∀ w ∈ ws, CardOrBlank w)
    (hp : ∀ row ∈ perms, row.length = 5 ∧ ∀ i ∈ row, i < ws.length) :
    ∃ r, handRankValueAndHandN packed perms ws = some r := by
  unfold handRankValueAndHandN
  obtain ⟨r, hr⟩ := foldl_stepBest_total ws hws perms (0, [0, 0, 0, 0, 0]) hp
  rw [hr]
  exact ⟨_, rfl⟩

end Lemmas
