import CkcVerif.Lemmas.Best
import CkcVerif.Lemmas.HandValue
import CkcVerif.Lemmas.PermWords
/-! Six- and seven-card ranking: the loop's result is a five-card sub-hand of least value -/
namespace Lemmas
open CK Spec

theorem perms_eq : Gen.perms6 = combos 5 (List.range 6) ∧ Gen.perms7 = combos 5 (List.range 7) := by decide

/-- a 5-sublist of a hand of distinct real cards is a five-card hand -/
theorem sub_isHand {n : Nat} {cs sub : List Card} (h : IsHand n cs) (hs : sub ∈ combos 5 cs) : IsHand 5 sub := by
  obtain ⟨hsub, hlen⟩ := (mem_combos 5 cs sub).mp hs
  exact ⟨hlen, hsub.nodup h.nodup, fun c hc => h.ok c (hsub.subset hc)⟩

/-- value of a five-card hand of cards, as a number (0 if it panicked — it never does) -/
def value5D (ws : List Nat) : Nat := (handRankValue5 packed ws).getD 0

theorem value5D_hand {sub : List Card} (h : IsHand 5 sub) :
    handRankValue5 packed (words sub) = some (value5D (words sub)) ∧ 1 ≤ value5D (words sub) ∧
    value5D (words sub) ≤ 7462 := by
  obtain ⟨v, _, _, _, _, _, _, e, a1, a2, _⟩ := hand_value h
  unfold value5D
  rw [e]
  exact ⟨rfl, a1, a2⟩

/-- **main characterisation** for a table of rows equal to `combos 5 (range n)` -/
theorem sixseven_value {n : Nat} {cs : List Card} (h : IsHand n cs) (perms : List (List Nat))
    (hperms : perms = combos 5 (List.range n)) (hne : combos 5 cs ≠ []) :
    ∃ sub, sub ∈ combos 5 cs ∧
      handRankValueAndHandN packed perms (words cs) = some (value5D (words sub), sortDesc (words sub)) ∧
      ∀ sub' ∈ combos 5 cs, value5D (words sub) ≤ value5D (words sub') := by
  let ws := words cs
  have hlen : ws.length = n := by simp [ws, words, h.len]
  have hrows : ∀ row ∈ perms, row.length = 5 ∧ ∀ i ∈ row, i < ws.length := by
    intro row hr
    rw [hperms] at hr
    obtain ⟨hs, hl⟩ := (mem_combos 5 _ row).mp hr
    refine ⟨hl, fun i hi => ?_⟩
    have := hs.subset hi
    rw [hlen]
    exact List.mem_range.mp this
  have hcands : perms.map (pickD ws) = (combos 5 cs).map words := by
    rw [hperms, ← hlen, candidates ws]
    exact combos_map Card.word 5 cs
  let f : List Nat → Nat × List Nat := fun row => (value5D (pickD ws row), pickD ws row)
  have hrow_sub : ∀ row ∈ perms, ∃ sub ∈ combos 5 cs, pickD ws row = words sub := by
    intro row hr
    have : pickD ws row ∈ perms.map (pickD ws) := List.mem_map.mpr ⟨row, hr, rfl⟩
    rw [hcands] at this
    obtain ⟨sub, hs, e⟩ := List.mem_map.mp this
    exact ⟨sub, hs, e.symm⟩
  have hf : ∀ row ∈ perms, pick ws row = some (f row).2 ∧ handRankValue5 packed (f row).2 = some (f row).1 := by
    intro row hr
    obtain ⟨hl, hi⟩ := hrows row hr
    obtain ⟨sub, hs, e⟩ := hrow_sub row hr
    refine ⟨pick_eq_pickD ws row hl hi, ?_⟩
    show handRankValue5 packed (pickD ws row) = some (value5D (pickD ws row))
    rw [e]
    exact (value5D_hand (sub_isHand h hs)).1
  have hfold := foldl_stepBest_eq packed ws f perms (0, [0, 0, 0, 0, 0]) hf
  have hcne : perms.map f ≠ [] := by
    intro e
    have : perms = [] := List.map_eq_nil_iff.mp e
    have h2 : (combos 5 cs).map words = [] := by rw [← hcands, this]; rfl
    exact hne (List.map_eq_nil_iff.mp h2)
  have hpos : ∀ c ∈ perms.map f, c.1 ≠ 0 := by
    intro c hc
    obtain ⟨row, hr, e⟩ := List.mem_map.mp hc
    obtain ⟨sub, hs, e2⟩ := hrow_sub row hr
    rw [← e]
    show value5D (pickD ws row) ≠ 0
    rw [e2]
    have := (value5D_hand (sub_isHand h hs)).2.1
    omega
  obtain ⟨hmem, hmin⟩ := best_min (perms.map f) hcne hpos
  obtain ⟨row0, hr0, e0⟩ := List.mem_map.mp hmem
  obtain ⟨sub0, hs0, es0⟩ := hrow_sub row0 hr0
  refine ⟨sub0, hs0, ?_, ?_⟩
  · unfold handRankValueAndHandN
    show (match perms.foldl (stepBest packed ws) (some (0, [0, 0, 0, 0, 0])) with
      | none => none | some (v, hh) => some (v, sortDesc hh)) = _
    rw [hfold]
    have : (perms.map f).foldl step (0, [0, 0, 0, 0, 0]) = best (perms.map f) := rfl
    rw [this, ← e0]
    show some (value5D (pickD ws row0), sortDesc (pickD ws row0)) = _
    rw [es0]
  · intro sub' hs'
    have : words sub' ∈ perms.map (pickD ws) := by
      rw [hcands]; exact List.mem_map.mpr ⟨sub', hs', rfl⟩
    obtain ⟨row', hr', e'⟩ := List.mem_map.mp this
    have hc : f row' ∈ perms.map f := List.mem_map.mpr ⟨row', hr', rfl⟩
    have := hmin (f row') hc
    rw [← e0] at this
    have e1 : (f row0).1 = value5D (words sub0) := by show value5D (pickD ws row0) = _; rw [es0]
    have e2 : (f row').1 = value5D (words sub') := by show value5D (pickD ws row') = _; rw [e']
    rw [e1, e2] at this
    exact this

theorem combos_ne_nil {cs : List Card} {n : Nat} (hn : n = 6 ∨ n = 7) (h : cs.length = n) : combos 5 cs ≠ [] := by
  rcases hn with rfl | rfl
  · match cs, h with
    | [a, b, c, d, e, f], _ => simp [combos]
  · match cs, h with
    | [a, b, c, d, e, f, g], _ => simp [combos]

end Lemmas
