import CkcVerif.Lemmas.Abs
/-! Kernel fact **W1**: every value 1..7462 is the value of a feasible class (read from the second
    inverse table).  Table-dependent. -/
namespace Lemmas
open CK Spec

def feasibleB (c : Nat × Nat × Nat × Nat × Nat × Bool) : Bool :=
  decide (c.1 < 13) && decide (c.2.1 ≤ c.1) && decide (c.2.2.1 ≤ c.2.1) && decide (c.2.2.2.1 ≤ c.2.2.1) &&
    decide (c.2.2.2.2.1 ≤ c.2.2.2.1) && (c.1 != c.2.2.2.2.1) &&
    (!c.2.2.2.2.2 || (c.1 != c.2.1 && c.2.1 != c.2.2.1 && c.2.2.1 != c.2.2.2.1 && c.2.2.2.1 != c.2.2.2.2.1))

def checkW : Bool := (List.range 7462).all fun k =>
  let c := classOf (k + 1)
  feasibleB c && (evalAbs c.1 c.2.1 c.2.2.1 c.2.2.2.1 c.2.2.2.2.1 c.2.2.2.2.2 == some (k + 1))

theorem checkW_ok : checkW = true := by decide +kernel

theorem feasibleB_iff (c : Nat × Nat × Nat × Nat × Nat × Bool) :
    feasibleB c = true ↔ Feasible c.1 c.2.1 c.2.2.1 c.2.2.2.1 c.2.2.2.2.1 c.2.2.2.2.2 := by
  obtain ⟨r1, r2, r3, r4, r5, f⟩ := c
  simp only [feasibleB, Bool.and_eq_true, decide_eq_true_eq, bne_iff_ne, ne_eq, Bool.or_eq_true,
    Bool.not_eq_true']
  constructor
  · rintro ⟨⟨⟨⟨⟨⟨a1, a2⟩, a3⟩, a4⟩, a5⟩, a6⟩, a7⟩
    refine ⟨a1, a2, a3, a4, a5, a6, ?_⟩
    intro hf
    rcases a7 with h | h
    · rw [hf] at h; cases h
    · exact ⟨h.1.1.1, h.1.1.2, h.1.2, h.2⟩
  · intro h
    refine ⟨⟨⟨⟨⟨⟨h.h1, h.h2⟩, h.h3⟩, h.h4⟩, h.h5⟩, h.hne⟩, ?_⟩
    cases f with
    | false => left; rfl
    | true =>
      right
      obtain ⟨b1, b2, b3, b4⟩ := h.hf rfl
      exact ⟨⟨⟨b1, b2⟩, b3⟩, b4⟩

/-- every value in range is produced by a feasible class -/
theorem class_onto (v : Nat) (h1 : 1 ≤ v) (h2 : v ≤ 7462) :
    ∃ r1 r2 r3 r4 r5 f, Feasible r1 r2 r3 r4 r5 f ∧ evalAbs r1 r2 r3 r4 r5 f = some v := by
  have h := checkW_ok
  simp only [checkW, List.all_eq_true, List.mem_range, Bool.and_eq_true, beq_iff_eq] at h
  have := h (v - 1) (by omega)
  have e : v - 1 + 1 = v := by omega
  rw [e] at this
  exact ⟨_, _, _, _, _, _, (feasibleB_iff _).mp this.1, this.2⟩

end Lemmas
