import CkcVerif.Model.Parse
/-! `tokens` (model of `split_whitespace`): tokens are non-empty and contain no whitespace -/
namespace Lemmas
open CK

theorem tokensGo_spec : ∀ (s cur : List Nat), (∀ c ∈ cur, isWhitespace c = false) →
    ∀ t ∈ tokensGo s cur, t ≠ [] ∧ ∀ c ∈ t, isWhitespace c = false
  | [], cur, hc, t, ht => by
    unfold tokensGo at ht
    by_cases he : cur.isEmpty
    · simp [he] at ht
    · simp only [he, Bool.false_eq_true, if_false, List.mem_singleton] at ht
      subst ht
      refine ⟨?_, fun c hm => hc c (List.mem_reverse.mp hm)⟩
      intro e
      have : cur = [] := by simpa using e
      simp [this] at he
  | c :: cs, cur, hc, t, ht => by
    unfold tokensGo at ht
    by_cases hw : isWhitespace c
    · simp only [hw, if_true] at ht
      by_cases he : cur.isEmpty
      · simp only [he, if_true] at ht
        exact tokensGo_spec cs [] (by simp) t ht
      · simp only [he, Bool.false_eq_true, if_false, List.mem_cons] at ht
        rcases ht with rfl | ht
        · refine ⟨?_, fun d hm => hc d (List.mem_reverse.mp hm)⟩
          intro e
          have : cur = [] := by simpa using e
          simp [this] at he
        · exact tokensGo_spec cs [] (by simp) t ht
    · simp only [hw, Bool.false_eq_true, if_false] at ht
      apply tokensGo_spec cs (c :: cur) _ t ht
      intro d hd
      rcases List.mem_cons.mp hd with rfl | hd
      · simpa using hw
      · exact hc d hd

/-- every token is a non-empty run of non-whitespace characters -/
theorem tokens_spec (s : List Nat) : ∀ t ∈ tokens s, t ≠ [] ∧ ∀ c ∈ t, isWhitespace c = false :=
  tokensGo_spec s [] (by simp)

/-- text without whitespace is a single token (or none if empty) -/
theorem tokensGo_no_ws : ∀ (s cur : List Nat), (∀ c ∈ s, isWhitespace c = false) →
    tokensGo s cur = if (cur.reverse ++ s).isEmpty then [] else [cur.reverse ++ s]
  | [], cur, _ => by
    unfold tokensGo
    by_cases he : cur.isEmpty
    · have : cur = [] := by simpa using he
      simp [this]
    · have : cur ≠ [] := by simpa using he
      simp [he]
  | c :: cs, cur, h => by
    unfold tokensGo
    have hw : isWhitespace c = false := h c List.mem_cons_self
    simp only [hw, Bool.false_eq_true, if_false]
    rw [tokensGo_no_ws cs (c :: cur) (fun d hd => h d (List.mem_cons_of_mem _ hd))]
    simp

theorem tokens_no_ws (s : List Nat) (h : ∀ c ∈ s, isWhitespace c = false) (hne : s ≠ []) : tokens s = [s] := by
  unfold tokens
  rw [tokensGo_no_ws s [] h]
  simp [hne]

end Lemmas
