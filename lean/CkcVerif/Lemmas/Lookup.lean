/-! association-list look-ups (helper lemmas) -/
namespace Lemmas

theorem lookup_none {l : List (Nat × Nat)} {w : Nat} (h : ∀ p ∈ l, p.1 ≠ w) : l.lookup w = none := by
  induction l with
  | nil => rfl
  | cons p ps ih =>
    obtain ⟨a, b⟩ := p
    have h1 : a ≠ w := h (a, b) List.mem_cons_self
    have h2 : (w == a) = false := by simp; exact fun e => h1 e.symm
    rw [List.lookup_cons, h2]
    exact ih fun q hq => h q (List.mem_cons_of_mem _ hq)

theorem lookup_mem {l : List (Nat × Nat)} {w v : Nat} (hm : (w, v) ∈ l)
    (hd : (l.map (·.1)).Nodup) : l.lookup w = some v := by
  induction l with
  | nil => cases hm
  | cons p ps ih =>
    obtain ⟨a, b⟩ := p
    rw [List.map_cons, List.nodup_cons] at hd
    rcases List.mem_cons.mp hm with h | h
    · cases h; simp
    · have hne : (w == a) = false := by
        simp; intro e; subst e
        exact hd.1 (List.mem_map.mpr ⟨(w, v), h, rfl⟩)
      rw [List.lookup_cons, hne]
      exact ih h hd.2

end Lemmas
