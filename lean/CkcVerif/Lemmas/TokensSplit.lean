import CkcVerif.Lemmas.Tokens
/-!
# `tokens` is splitting at whitespace: a complete equational characterisation

Together with `tokens [] = []` and `tokens run = [run]` for a non-empty whitespace-free run
(`tokens_no_ws`), the equation `tokens (a ++ w :: b) = tokens a ++ tokens b` for a whitespace
character `w` determines `tokens` on every string (induction on the number of whitespace
characters): the tokens are exactly the maximal whitespace-free runs, in order.
-/
namespace Lemmas
open CK

theorem tokensGo_append_ws (a : List Nat) (w : Nat) (b cur : List Nat) (hw : isWhitespace w = true) :
    tokensGo (a ++ w :: b) cur = tokensGo a cur ++ tokens b := by
  induction a generalizing cur with
  | nil =>
    simp only [List.nil_append]
    unfold tokensGo
    simp only [hw, if_true]
    by_cases he : cur.isEmpty
    · simp only [he, if_true]
      unfold tokens
      unfold tokensGo
      simp
    · simp only [he, Bool.false_eq_true, if_false]
      unfold tokens
      simp
  | cons c cs ih =>
    simp only [List.cons_append]
    unfold tokensGo
    by_cases hc : isWhitespace c
    · simp only [hc, if_true]
      by_cases he : cur.isEmpty
      · simp only [he, if_true]; exact ih []
      · simp only [he, Bool.false_eq_true, if_false, List.cons_append]
        rw [ih []]
    · simp only [hc, Bool.false_eq_true, if_false]
      exact ih (c :: cur)

/-- splitting at a whitespace character -/
theorem tokens_append_ws (a : List Nat) (w : Nat) (b : List Nat) (hw : isWhitespace w = true) :
    tokens (a ++ w :: b) = tokens a ++ tokens b := by
  unfold tokens
  exact tokensGo_append_ws a w b [] hw

/-- the characters of the tokens, in order, are the non-whitespace characters of the text -/
theorem tokensGo_flatten : ∀ (s cur : List Nat), (∀ c ∈ cur, isWhitespace c = false) →
    (tokensGo s cur).flatten = cur.reverse ++ s.filter (fun c => !isWhitespace c)
  | [], cur, _ => by
    unfold tokensGo
    by_cases he : cur.isEmpty
    · have : cur = [] := by simpa using he
      simp [this]
    · simp [he]
  | c :: cs, cur, hc => by
    unfold tokensGo
    by_cases hw : isWhitespace c
    · simp only [hw, if_true]
      by_cases he : cur.isEmpty
      · have : cur = [] := by simpa using he
        simp only [he, if_true]
        rw [tokensGo_flatten cs [] (by simp)]
        simp [this, hw]
      · simp only [he, Bool.false_eq_true, if_false, List.flatten_cons]
        rw [tokensGo_flatten cs [] (by simp)]
        simp [hw]
    · simp only [hw, Bool.false_eq_true, if_false]
      rw [tokensGo_flatten cs (c :: cur)]
      · simp [hw]
      · intro d hd
        rcases List.mem_cons.mp hd with rfl | hd
        · simpa using hw
        · exact hc d hd

theorem tokens_flatten (s : List Nat) : (tokens s).flatten = s.filter (fun c => !isWhitespace c) := by
  unfold tokens
  rw [tokensGo_flatten s [] (by simp)]
  simp

end Lemmas
