import CkcVerif.Model.Card
import CkcVerif.Spec.Layout
import CkcVerif.Lemmas.Lookup
/-! Facts about the 52 card words and the regenerated `filter` graph used by several properties -/
namespace Lemmas
open CK Spec

theorem filter_graph :
    Gen.filterPoints.length = 52 ∧ (∀ p ∈ Gen.filterPoints, p.1 = p.2 ∧ p.1 ∈ deckWords) ∧
    (∀ w ∈ deckWords, (w, w) ∈ Gen.filterPoints) ∧ (Gen.filterPoints.map (·.1)).Nodup := by decide

/-- of all words the card filter passes exactly the 52 cards and maps every other word to blank -/
theorem filter_eq (w : Nat) : filter w = if w ∈ deckWords then w else 0 := by
  obtain ⟨_, h2, h3, h4⟩ := filter_graph
  unfold filter
  by_cases hw : w ∈ deckWords
  · rw [if_pos hw, lookup_mem (h3 w hw) h4]; rfl
  · rw [if_neg hw, lookup_none]; rfl
    intro p hp e
    exact hw (e ▸ (h2 p hp).2)

theorem blank_zero : Gen.blank = 0 ∧ Gen.noHandRankValue = 0 := by decide

theorem deckWords_facts : deckWords.Nodup ∧ (∀ w ∈ deckWords, 0 < w ∧ w < 2 ^ 29) := by decide

theorem word_mem_deck (c : Card) (h : c.ok) : c.word ∈ deckWords := by
  obtain ⟨r, s⟩ := c
  have : ∀ r < 13, ∀ s < 4, word r s ∈ deckWords := by decide
  exact this r h.1 s h.2

theorem mem_deck_word (w : Nat) (h : w ∈ deckWords) : ∃ c : Card, c.ok ∧ c.word = w := by
  have : ∀ w ∈ deckWords, ∃ r < 13, ∃ s < 4, word r s = w := by decide
  obtain ⟨r, hr, s, hs, e⟩ := this w h
  exact ⟨⟨r, s⟩, ⟨hr, hs⟩, e⟩

theorem word_pos (c : Card) (h : c.ok) : 0 < c.word ∧ c.word < 2 ^ 29 :=
  deckWords_facts.2 _ (word_mem_deck c h)

/-- a card can be read back from its word -/
theorem word_fields : ∀ r < 13, ∀ s < 4, (word r s >>> 8) &&& 0xF = r ∧ Nat.log2 ((word r s >>> 12) &&& 0xF) = s := by
  decide

theorem word_inj (c d : Card) (hc : c.ok) (hd : d.ok) (h : c.word = d.word) : c = d := by
  obtain ⟨r, s⟩ := c; obtain ⟨r', s'⟩ := d
  have a := word_fields r hc.1 s hc.2
  have b := word_fields r' hd.1 s' hd.2
  have h' : word r s = word r' s' := h
  rw [h'] at a
  have e1 : r = r' := a.1.symm.trans b.1
  have e2 : s = s' := a.2.symm.trans b.2
  subst e1; subst e2; rfl

/-- distinct cards have distinct words -/
theorem words_nodup (cs : List Card) (hok : ∀ c ∈ cs, c.ok) (hnd : cs.Nodup) : (cs.map Card.word).Nodup := by
  induction cs with
  | nil => simp
  | cons c cs ih =>
    rw [List.map_cons, List.nodup_cons]
    rw [List.nodup_cons] at hnd
    refine ⟨?_, ih (fun d hd => hok d (List.mem_cons_of_mem _ hd)) hnd.2⟩
    intro hm
    obtain ⟨d, hd, e⟩ := List.mem_map.mp hm
    have := word_inj d c (hok d (List.mem_cons_of_mem _ hd)) (hok c List.mem_cons_self) e
    exact hnd.1 (this ▸ hd)

end Lemmas
