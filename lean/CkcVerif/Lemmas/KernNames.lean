import CkcVerif.Model.HandRank
import CkcVerif.Spec.Names
import CkcVerif.Lemmas.Abs
/-! Kernel facts for C06 over the regenerated `determine_name` / `determine_class` graphs -/
namespace Lemmas
open CK Spec

/-- the closed-form index agrees with the readable listing -/
theorem descrIdx_allDescr : allDescr.length = 309 ∧ (List.range 309).all (fun i => descrIdx (allDescr.getD i (0, 0, 0)) == i) = true := by
  decide +kernel

/-- for every value 1..7462: the class discriminant is the descriptor index of the class the tables send
    to that value, and the name discriminant is 8 − category -/
def checkNames : Bool := (List.range 7462).all fun k =>
  let v := k + 1
  let c := classOf v
  let s := keyC c
  (determineClass v == descrIdx (descrOfStrength s)) && (determineName v == 8 - s / 13 ^ 5) &&
    decide (determineClass v < 309) && decide (determineName v < 9) &&
    (allDescr.getD (determineClass v) (0, 0, 0) == descrOfStrength s) && decide (s / 13 ^ 5 ≤ 8)

theorem checkNames_ok : checkNames = true := by decide +kernel

theorem names_at (v : Nat) (h1 : 1 ≤ v) (h2 : v ≤ 7462) :
    determineClass v = descrIdx (descrOfStrength (keyC (classOf v))) ∧
    determineName v = 8 - keyC (classOf v) / 13 ^ 5 ∧ determineClass v < 309 ∧ determineName v < 9 ∧
    allDescr.getD (determineClass v) (0, 0, 0) = descrOfStrength (keyC (classOf v)) ∧
    keyC (classOf v) / 13 ^ 5 ≤ 8 := by
  have hk := checkNames_ok
  simp only [checkNames, List.all_eq_true, List.mem_range, Bool.and_eq_true, beq_iff_eq, decide_eq_true_eq] at hk
  have := hk (v - 1) (by omega)
  have e : v - 1 + 1 = v := by omega
  rw [e] at this
  exact ⟨this.1.1.1.1.1, this.1.1.1.1.2, this.1.1.1.2, this.1.1.2, this.1.2, this.2⟩

/-- outside 1..7462 both graphs give Invalid: value 0, and every value from 7463 on -/
theorem graph_shape : Gen.nameTailStart = 7463 ∧ Gen.classTailStart = 7463 ∧ Gen.nameTail = Gen.nameInvalid ∧
    Gen.classTail = Gen.classInvalid ∧ determineName 0 = Gen.nameInvalid ∧ determineClass 0 = Gen.classInvalid ∧
    Gen.nameInvalid = 9 ∧ Gen.classInvalid = 309 := by decide +kernel

theorem invalid_above (v : Nat) (h : v > 7462) :
    determineName v = Gen.nameInvalid ∧ determineClass v = Gen.classInvalid := by
  obtain ⟨h1, h2, h3, h4, _⟩ := graph_shape
  unfold determineName determineClass
  rw [h1, h2, if_neg (by omega), if_neg (by omega)]
  exact ⟨h3, h4⟩

/-- Invalid for both exactly when the value is 0 or above 7462 — for every value -/
theorem invalid_iff (v : Nat) :
    (determineName v = Gen.nameInvalid ↔ (v = 0 ∨ v > 7462)) ∧
    (determineClass v = Gen.classInvalid ↔ (v = 0 ∨ v > 7462)) := by
  obtain ⟨_, _, _, _, z1, z2, i1, i2⟩ := graph_shape
  by_cases h0 : v = 0
  · subst h0; simp [z1, z2]
  · by_cases hb : v > 7462
    · obtain ⟨a, b⟩ := invalid_above v hb
      simp [a, b, hb]
    · obtain ⟨_, _, c, n, _, _⟩ := names_at v (by omega) (by omega)
      rw [i1, i2]
      constructor
      · constructor
        · intro e; omega
        · intro e; omega
      · constructor
        · intro e; omega
        · intro e; omega

theorem isInvalid_iff (v : Nat) : (HandRank.ofValue v).isInvalid = true ↔ (v = 0 ∨ v > 7462) := by
  unfold HandRank.isInvalid HandRank.ofValue
  simp only [beq_iff_eq]
  exact (invalid_iff v).1

theorem compare_ne_gt_iff (x y : Nat) : compare x y ≠ .gt ↔ x ≤ y := by
  simp only [compare, compareOfLessAndEq]
  split
  · simp; omega
  · split
    · simp; omega
    · simp; omega

theorem compare_eq_iff (x y : Nat) : compare x y = .eq ↔ x = y := by
  simp only [compare, compareOfLessAndEq]
  split
  · simp; omega
  · split
    · simp; assumption
    · simp; assumption

/-- along v = 1..7462 both discriminants never decrease, the class discriminant steps by at most one,
    starts at 0 and ends at 308: each of the 309 classes is one contiguous, non-empty value range -/
def contiguousChk : Bool :=
  (determineClass 1 == 0) && (determineClass 7462 == 308) && (determineName 1 == 0) && (determineName 7462 == 8) &&
  (List.range 7461).all fun k =>
    let v := k + 1
    (determineClass v == determineClass (v + 1) || determineClass v + 1 == determineClass (v + 1)) &&
    (determineName v == determineName (v + 1) || determineName v + 1 == determineName (v + 1))
theorem contiguousChk_ok : contiguousChk = true := by decide +kernel

end Lemmas
