import CkcVerif.Spec.Names
/-! The 309 descriptors and their 309 names are pairwise distinct (specification only) -/
namespace Lemmas
open Spec
theorem names_distinct : allDescr.Nodup ∧ (allDescr.map specName).Nodup ∧ allDescr.length = 309 := by
  decide +kernel
end Lemmas
