import CkcVerif.Lemmas.KeyInv
import CkcVerif.Lemmas.KernW
import CkcVerif.Lemmas.Order
/-!
# The ranking: all hand classes listed by value is the list of all classes sorted by strength
-/
namespace Lemmas
open CK Spec

/-- the class the tables send to value 1, to value 2, …, to value 7462 -/
def ranking : List (Nat × Nat × Nat × Nat × Nat × Bool) := (List.range 7462).map (fun k => classOf (k + 1))

theorem classOf_ok (v : Nat) (h1 : 1 ≤ v) (h2 : v ≤ 7462) :
    Feasible (classOf v).1 (classOf v).2.1 (classOf v).2.2.1 (classOf v).2.2.2.1 (classOf v).2.2.2.2.1
      (classOf v).2.2.2.2.2 ∧
    evalAbs (classOf v).1 (classOf v).2.1 (classOf v).2.2.1 (classOf v).2.2.2.1 (classOf v).2.2.2.2.1
      (classOf v).2.2.2.2.2 = some v := by
  have hw := checkW_ok
  simp only [checkW, List.all_eq_true, List.mem_range, Bool.and_eq_true, beq_iff_eq] at hw
  have := hw (v - 1) (by omega)
  have e : v - 1 + 1 = v := by omega
  rw [e] at this
  exact ⟨(feasibleB_iff _).mp this.1, this.2⟩

theorem ranking_length : ranking.length = 7462 := by simp [ranking]

theorem ranking_get (k : Nat) (hk : k < 7462) : ranking[k]? = some (classOf (k + 1)) := by
  simp [ranking, hk]

/-- listed by value, the classes are strictly decreasing in strength -/
theorem ranking_sorted : ranking.Pairwise (fun c d => keyC c > keyC d) := by
  unfold ranking
  rw [List.pairwise_map]
  have hr : (List.range 7462).Pairwise (· < ·) := List.pairwise_lt_range
  refine hr.imp_of_mem ?_
  intro a b ha hb hab
  have ha' := List.mem_range.mp ha
  have hb' := List.mem_range.mp hb
  obtain ⟨fa, ea⟩ := classOf_ok (a + 1) (by omega) (by omega)
  obtain ⟨fb, eb⟩ := classOf_ok (b + 1) (by omega) (by omega)
  exact (value_lt_iff fa fb ea eb).mp (by omega)

/-- every feasible class occurs in the ranking, at the position given by its value -/
theorem ranking_complete {r1 r2 r3 r4 r5 : Nat} {f : Bool} (h : Feasible r1 r2 r3 r4 r5 f) {v : Nat}
    (hv : evalAbs r1 r2 r3 r4 r5 f = some v) :
    1 ≤ v ∧ v ≤ 7462 ∧ ranking[v - 1]? = some (r1, r2, r3, r4, r5, f) := by
  obtain ⟨v', e, a1, a2, _⟩ := feasible_ok h
  rw [hv] at e; cases e
  obtain ⟨fc, ec⟩ := classOf_ok v a1 a2
  have hk := (value_eq_iff fc h ec hv).mp rfl
  obtain ⟨e1, e2, e3, e4, e5, e6⟩ := key_injective fc h hk
  refine ⟨a1, a2, ?_⟩
  rw [ranking_get (v - 1) (by omega)]
  have : v - 1 + 1 = v := by omega
  rw [this]
  have hc : classOf v = (r1, r2, r3, r4, r5, f) := by
    generalize classOf v = c at e1 e2 e3 e4 e5 e6
    obtain ⟨c1, c2, c3, c4, c5, c6⟩ := c
    simp only at e1 e2 e3 e4 e5 e6
    rw [e1, e2, e3, e4, e5, e6]
  rw [hc]

/-- in a strictly decreasing list, exactly `i` entries are greater than the `i`-th -/
theorem count_gt_of_sorted {α : Type} (key : α → Nat) :
    ∀ (l : List α), l.Pairwise (fun c d => key c > key d) → ∀ (i : Nat) (hi : i < l.length),
      (l.filter (fun c => decide (key c > key l[i]))).length = i
  | [], _, i, hi => by simp at hi
  | a :: t, hp, i, hi => by
    obtain ⟨ha, ht⟩ := List.pairwise_cons.mp hp
    cases i with
    | zero =>
      simp only [List.getElem_cons_zero]
      rw [List.filter_cons_of_neg (by simp)]
      have : t.filter (fun c => decide (key c > key a)) = [] := by
        rw [List.filter_eq_nil_iff]
        intro b hb
        have := ha b hb
        simp; omega
      rw [this]; rfl
    | succ j =>
      have hj : j < t.length := by simpa using hi
      simp only [List.getElem_cons_succ]
      have hmem : t[j] ∈ t := List.getElem_mem hj
      rw [List.filter_cons_of_pos (by have := ha _ hmem; simpa using this)]
      rw [List.length_cons, count_gt_of_sorted key t ht j hj]

end Lemmas
