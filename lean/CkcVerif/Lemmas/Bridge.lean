import CkcVerif.Lemmas.Abs
/-!
# Bridge: the word-level evaluator on five real cards is the abstract evaluator on their ranks
-/
namespace Lemmas
open CK Spec

/-- the three field constants the evaluator uses are the documented ones (regenerated; `decide`) -/
theorem eval_consts : Gen.rankFlagShift = 16 ∧ Gen.suitFilter = 0xF000 ∧ Gen.rankPrimeFilter = 63 := by decide

/-- per-card facts, by enumeration of the 52 cards -/
theorem card_facts : ∀ r < 13, ∀ s < 4,
    let w := (Card.mk r s).word
    w >>> 16 = 1 <<< r ∧ w &&& 63 = prime r ∧ w &&& 0xF000 = 1 <<< (12 + s) ∧ w < 2 ^ 32 := by
  decide

theorem or_shift (a b c d e : Nat) :
    (a ||| b ||| c ||| d ||| e) >>> 16 = (a >>> 16) ||| (b >>> 16) ||| (c >>> 16) ||| (d >>> 16) ||| (e >>> 16) := by
  simp [Nat.shiftRight_or_distrib]

theorem and_mask (a b c d e m : Nat) :
    (a &&& b &&& c &&& d &&& e) &&& m = (a &&& m) &&& (b &&& m) &&& (c &&& m) &&& (d &&& m) &&& (e &&& m) := by
  apply Nat.eq_of_testBit_eq
  intro i
  simp only [Nat.testBit_and]
  cases a.testBit i <;> cases b.testBit i <;> cases c.testBit i <;> cases d.testBit i <;>
    cases e.testBit i <;> cases m.testBit i <;> rfl

theorem suits_and_fin : ∀ s1 s2 s3 s4 s5 : Fin 4,
    (((1 <<< (12 + s1.val)) &&& (1 <<< (12 + s2.val)) &&& (1 <<< (12 + s3.val)) &&& (1 <<< (12 + s4.val)) &&&
        (1 <<< (12 + s5.val)) ≠ 0)
      ↔ (s1.val = s2.val ∧ s2.val = s3.val ∧ s3.val = s4.val ∧ s4.val = s5.val)) := by
  decide

theorem suits_and (s1 s2 s3 s4 s5 : Nat) (h1 : s1 < 4) (h2 : s2 < 4) (h3 : s3 < 4) (h4 : s4 < 4) (h5 : s5 < 4) :
    (((1 <<< (12 + s1)) &&& (1 <<< (12 + s2)) &&& (1 <<< (12 + s3)) &&& (1 <<< (12 + s4)) &&& (1 <<< (12 + s5)) ≠ 0)
      ↔ (s1 = s2 ∧ s2 = s3 ∧ s3 = s4 ∧ s4 = s5)) :=
  suits_and_fin ⟨s1, h1⟩ ⟨s2, h2⟩ ⟨s3, h3⟩ ⟨s4, h4⟩ ⟨s5, h5⟩

def allSame (s1 s2 s3 s4 s5 : Nat) : Bool := s1 == s2 && s2 == s3 && s3 == s4 && s4 == s5

/-- the three quantities the evaluator computes, for five real cards in any order -/
theorem five_quantities (c1 c2 c3 c4 c5 : Card) (h1 : c1.ok) (h2 : c2.ok) (h3 : c3.ok) (h4 : c4.ok) (h5 : c5.ok) :
    let h := [c1.word, c2.word, c3.word, c4.word, c5.word]
    orRankBits h = orMask5 c1.rank c2.rank c3.rank c4.rank c5.rank ∧
    multiplyPrimes h = prod5 c1.rank c2.rank c3.rank c4.rank c5.rank ∧
    isFlush h = allSame c1.suit c2.suit c3.suit c4.suit c5.suit := by
  obtain ⟨r1, s1⟩ := c1; obtain ⟨r2, s2⟩ := c2; obtain ⟨r3, s3⟩ := c3
  obtain ⟨r4, s4⟩ := c4; obtain ⟨r5, s5⟩ := c5
  simp only [Card.ok] at h1 h2 h3 h4 h5
  have f1 := card_facts r1 h1.1 s1 h1.2
  have f2 := card_facts r2 h2.1 s2 h2.2
  have f3 := card_facts r3 h3.1 s3 h3.2
  have f4 := card_facts r4 h4.1 s4 h4.2
  have f5 := card_facts r5 h5.1 s5 h5.2
  simp only at f1 f2 f3 f4 f5
  have hs := suits_and s1 s2 s3 s4 s5 h1.2 h2.2 h3.2 h4.2 h5.2
  obtain ⟨e1, e2, e3⟩ := eval_consts
  refine ⟨?_, ?_, ?_⟩
  · simp only [orRankBits, orBits, e1, or_shift, f1.1, f2.1, f3.1, f4.1, f5.1, orMask5]
  · simp only [multiplyPrimes, getRankPrime, e3, f1.2.1, f2.2.1, f3.2.1, f4.2.1, f5.2.1, prod5]
  · simp only [isFlush, andBits, e2, and_mask, f1.2.2.1, f2.2.2.1, f3.2.2.1, f4.2.2.1, f5.2.2.1]
    by_cases hsame : (s1 = s2 ∧ s2 = s3 ∧ s3 = s4 ∧ s4 = s5)
    · have : allSame s1 s2 s3 s4 s5 = true := by
        simp [allSame, hsame.1, hsame.2.1, hsame.2.2.1, hsame.2.2.2]
      rw [this]
      simp only [bne_iff_ne, ne_eq]
      exact hs.mpr hsame
    · have : allSame s1 s2 s3 s4 s5 = false := by
        simp only [allSame, Bool.and_eq_false_iff, beq_eq_false_iff_ne]
        omega
      rw [this]
      have hz : ¬ ((1 <<< (12 + s1)) &&& (1 <<< (12 + s2)) &&& (1 <<< (12 + s3)) &&& (1 <<< (12 + s4)) &&&
          (1 <<< (12 + s5)) ≠ 0) := fun h => hsame (hs.mp h)
      simp only [ne_eq, Decidable.not_not] at hz
      simp [hz]

/-- **bridge**: for any five real cards (distinct or not, any order) -/
theorem eval5_cards (c1 c2 c3 c4 c5 : Card) (h1 : c1.ok) (h2 : c2.ok) (h3 : c3.ok) (h4 : c4.ok) (h5 : c5.ok) :
    handRankValue5 packed [c1.word, c2.word, c3.word, c4.word, c5.word] =
      evalAbs c1.rank c2.rank c3.rank c4.rank c5.rank (allSame c1.suit c2.suit c3.suit c4.suit c5.suit) := by
  obtain ⟨q1, q2, q3⟩ := five_quantities c1 c2 c3 c4 c5 h1 h2 h3 h4 h5
  unfold handRankValue5 evalAbs
  rw [q1, q2, q3]

end Lemmas
