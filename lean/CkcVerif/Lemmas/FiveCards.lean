import CkcVerif.Lemmas.PermEval
import CkcVerif.Lemmas.Order
/-! Five distinct real cards, in any slot order, evaluate as a feasible class -/
namespace Lemmas
open CK Spec

theorem pigeon4 : ∀ s1 s2 s3 s4 s5 : Fin 4,
    ¬ (s1 ≠ s2 ∧ s1 ≠ s3 ∧ s1 ≠ s4 ∧ s1 ≠ s5 ∧ s2 ≠ s3 ∧ s2 ≠ s4 ∧ s2 ≠ s5 ∧ s3 ≠ s4 ∧ s3 ≠ s5 ∧ s4 ≠ s5) := by
  decide

/-- For five distinct real cards, in any slot order, the word-level value is the value of a feasible
    class obtained by sorting the ranks. -/
theorem five_cards_class (c1 c2 c3 c4 c5 : Card)
    (k1 : c1.ok) (k2 : c2.ok) (k3 : c3.ok) (k4 : c4.ok) (k5 : c5.ok)
    (hnd : [c1, c2, c3, c4, c5].Nodup) :
    ∃ q1 q2 q3 q4 q5,
      [c1.rank, c2.rank, c3.rank, c4.rank, c5.rank].Perm [q1, q2, q3, q4, q5] ∧
      Feasible q1 q2 q3 q4 q5 (allSame c1.suit c2.suit c3.suit c4.suit c5.suit) ∧
      handRankValue5 packed [c1.word, c2.word, c3.word, c4.word, c5.word] =
        evalAbs q1 q2 q3 q4 q5 (allSame c1.suit c2.suit c3.suit c4.suit c5.suit) := by
  obtain ⟨q1, q2, q3, q4, q5, hp, s2, s3, s4, s5⟩ :=
    exists_sorted5 [c1.rank, c2.rank, c3.rank, c4.rank, c5.rank] rfl
  refine ⟨q1, q2, q3, q4, q5, hp, ?_, ?_⟩
  · have hmem : ∀ q ∈ [q1, q2, q3, q4, q5], q ∈ [c1.rank, c2.rank, c3.rank, c4.rank, c5.rank] :=
      fun q hq => hp.mem_iff.mpr hq
    have hrmem : ∀ r ∈ [c1.rank, c2.rank, c3.rank, c4.rank, c5.rank], r ∈ [q1, q2, q3, q4, q5] :=
      fun r hr => hp.mem_iff.mp hr
    have hlt : q1 < 13 := by
      have := hmem q1 (by simp)
      simp only [List.mem_cons, List.not_mem_nil, or_false] at this
      rcases this with h | h | h | h | h <;> rw [h]
      · exact k1.1
      · exact k2.1
      · exact k3.1
      · exact k4.1
      · exact k5.1
    obtain ⟨r1, t1⟩ := c1; obtain ⟨r2, t2⟩ := c2; obtain ⟨r3, t3⟩ := c3
    obtain ⟨r4, t4⟩ := c4; obtain ⟨r5, t5⟩ := c5
    simp only [Card.ok] at k1 k2 k3 k4 k5
    simp only [List.nodup_cons, List.mem_cons, List.not_mem_nil, or_false, not_or, Card.mk.injEq,
      not_and, List.nodup_nil, and_true] at hnd
    refine ⟨hlt, s2, s3, s4, s5, ?_, ?_⟩
    · intro h15
      have e : ∀ r ∈ [r1, r2, r3, r4, r5], r = q1 := by
        intro r hr
        have := hrmem r hr
        simp only [List.mem_cons, List.not_mem_nil, or_false] at this
        omega
      have e1 := e r1 (by simp); have e2 := e r2 (by simp); have e3 := e r3 (by simp)
      have e4 := e r4 (by simp); have e5 := e r5 (by simp)
      apply pigeon4 ⟨t1, k1.2⟩ ⟨t2, k2.2⟩ ⟨t3, k3.2⟩ ⟨t4, k4.2⟩ ⟨t5, k5.2⟩
      simp only [ne_eq, Fin.mk.injEq]
      omega
    · intro hf
      simp only [allSame, Bool.and_eq_true, beq_iff_eq] at hf
      have hnr : [r1, r2, r3, r4, r5].Nodup := by
        simp only [List.nodup_cons, List.mem_cons, List.not_mem_nil, or_false, not_or, List.nodup_nil, and_true,
          not_false_eq_true]
        omega
      have hnq : [q1, q2, q3, q4, q5].Nodup := hp.nodup_iff.mp hnr
      simp only [List.nodup_cons, List.mem_cons, List.not_mem_nil, or_false, not_or, List.nodup_nil, and_true,
        not_false_eq_true] at hnq
      omega
  · rw [eval5_cards c1 c2 c3 c4 c5 k1 k2 k3 k4 k5, evalAbs_eq_L, evalAbs_eq_L, evalAbsL_perm hp]

end Lemmas
