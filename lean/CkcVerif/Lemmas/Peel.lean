import CkcVerif.Model.BitCard
/-! Set semantics of 64-bit card sets: membership is `testBit`; repeated peeling lists members in deck order -/
namespace Lemmas
open CK

theorem has_two_pow (x i : Nat) : has x (2 ^ i) = x.testBit i := by
  unfold has
  cases h : x.testBit i
  · rw [beq_eq_false_iff_ne]
    intro heq
    have := congrArg (fun y => Nat.testBit y i) heq
    simp [Nat.testBit_and, Nat.testBit_two_pow_self, h] at this
  · rw [beq_iff_eq]
    apply Nat.eq_of_testBit_eq
    intro j
    rw [Nat.testBit_and, Nat.testBit_two_pow]
    by_cases hij : i = j
    · subst hij; simp [h]
    · simp [hij]

/-- the membership test is a subset test -/
theorem has_iff_subset (x y : Nat) : has x y = true ↔ ∀ i, y.testBit i = true → x.testBit i = true := by
  unfold has
  rw [beq_iff_eq]
  constructor
  · intro h i hy
    have := congrArg (fun z => Nat.testBit z i) h
    simp only [Nat.testBit_and, hy, Bool.and_true] at this
    exact this
  · intro h
    apply Nat.eq_of_testBit_eq
    intro i
    rw [Nat.testBit_and]
    cases hy : y.testBit i
    · simp
    · simp [h i hy]

theorem has_xor_two_pow_ne (x i j : Nat) (h : i ≠ j) : has (x ^^^ 2 ^ i) (2 ^ j) = has x (2 ^ j) := by
  rw [has_two_pow, has_two_pow, Nat.testBit_xor, Nat.testBit_two_pow]
  simp [h]

theorem has_xor_two_pow_self (x i : Nat) (h : x.testBit i = true) : has (x ^^^ 2 ^ i) (2 ^ i) = false := by
  rw [has_two_pow, Nat.testBit_xor, Nat.testBit_two_pow_self, h]; rfl

def pows (exps : List Nat) : List Nat := exps.map (fun i => 2 ^ i)

theorem filter_pows_xor_of_not_mem (exps : List Nat) (x i : Nat) (hi : i ∉ exps) :
    (pows exps).filter (fun b => has (x ^^^ 2 ^ i) b) = (pows exps).filter (fun b => has x b) := by
  induction exps with
  | nil => rfl
  | cons e es ih =>
    have hne : i ≠ e := fun h => hi (h ▸ List.mem_cons_self)
    have hes : i ∉ es := fun h => hi (List.mem_cons_of_mem _ h)
    have ih' := ih hes
    unfold pows at ih' ⊢
    rw [List.map_cons, List.filter_cons, List.filter_cons, has_xor_two_pow_ne x i e hne, ih']

theorem peel_cons_pos (b : Nat) (d : List Nat) (x : Nat) (h : has x b = true) :
    peelWith (b :: d) x = (x ^^^ b, b) := by
  unfold peelWith; rw [List.find?_cons_of_pos (h := by simpa using h)]
theorem peel_cons_neg (b : Nat) (d : List Nat) (x : Nat) (h : has x b = false) :
    peelWith (b :: d) x = peelWith d x := by
  unfold peelWith; rw [List.find?_cons_of_neg (h := by simp [h])]

/-- one peel: returns the first member in deck order and removes exactly it; or blank, set unchanged -/
theorem peel_step (exps : List Nat) (hnd : exps.Nodup) (x : Nat) :
    (((pows exps).filter (fun b => has x b) = []) ∧ peelWith (pows exps) x = (x, Gen.bcBlank)) ∨
    (∃ b m, (pows exps).filter (fun b => has x b) = b :: m ∧ peelWith (pows exps) x = (x ^^^ b, b) ∧
        (pows exps).filter (fun b' => has (x ^^^ b) b') = m) := by
  induction exps with
  | nil => left; exact ⟨rfl, rfl⟩
  | cons e es ih =>
    have hnd' : es.Nodup := (List.nodup_cons.mp hnd).2
    have he : e ∉ es := (List.nodup_cons.mp hnd).1
    have hpows : pows (e :: es) = 2 ^ e :: pows es := rfl
    rw [hpows]
    cases hm : has x (2 ^ e)
    · rw [peel_cons_neg _ _ _ hm, List.filter_cons_of_neg (by simp [hm])]
      rcases ih hnd' with ⟨h1, h2⟩ | ⟨b, m, h1, h2, h3⟩
      · left; exact ⟨h1, h2⟩
      · right
        refine ⟨b, m, h1, h2, ?_⟩
        have hb : b ∈ (pows es).filter (fun b => has x b) := by rw [h1]; exact List.mem_cons_self
        obtain ⟨hb1, _⟩ := List.mem_filter.mp hb
        obtain ⟨j, hj, hjb⟩ := List.mem_map.mp hb1
        subst hjb
        have hje : j ≠ e := fun h => he (h ▸ hj)
        rw [List.filter_cons_of_neg (by rw [has_xor_two_pow_ne x j e hje, hm]; simp)]
        exact h3
    · right
      refine ⟨2 ^ e, (pows es).filter (fun b => has x b), ?_, peel_cons_pos _ _ _ hm, ?_⟩
      · rw [List.filter_cons_of_pos (by simpa using hm)]
      · have hx : x.testBit e = true := by rw [← has_two_pow]; exact hm
        rw [List.filter_cons_of_neg (by rw [has_xor_two_pow_self x e hx]; simp)]
        exact filter_pows_xor_of_not_mem es x e he

theorem take_append_replicate_succ (m : List Nat) (k : Nat) :
    (m ++ List.replicate (k + 1) 0).take k = (m ++ List.replicate k 0).take k := by
  rw [List.replicate_succ', ← List.append_assoc]
  apply List.take_append_of_le_length
  rw [List.length_append, List.length_replicate]; omega

theorem bcBlank_zero : Gen.bcBlank = 0 := by decide

/-- repeated peeling lists the members in deck order, then blank for ever -/
theorem peelIter_spec (exps : List Nat) (hnd : exps.Nodup) :
    ∀ (k x : Nat), (peelIterWith (pows exps) k x).1 =
      (((pows exps).filter (fun b => has x b)) ++ List.replicate k 0).take k := by
  intro k
  induction k with
  | zero => intro x; simp [peelIterWith]
  | succ k ih =>
    intro x
    simp only [peelIterWith]
    rcases peel_step exps hnd x with ⟨h1, h2⟩ | ⟨b, m, h1, h2, h3⟩
    · rw [h2, h1, ih x, h1, bcBlank_zero]
      simp [List.replicate_succ, List.take_succ_cons]
    · rw [h2, h1, ih (x ^^^ b), h3]
      rw [List.cons_append, List.take_succ_cons, take_append_replicate_succ]

/-- OR-folding: a bit is set in the fold iff it is set in the seed or in some element's image -/
theorem testBit_foldl_or_map (f : Nat → Nat) (ws : List Nat) (acc i : Nat) :
    (ws.foldl (fun a w => a ||| f w) acc).testBit i = (acc.testBit i || ws.any (fun w => (f w).testBit i)) := by
  induction ws generalizing acc with
  | nil => simp
  | cons w ws ih =>
    rw [List.foldl_cons, ih, Nat.testBit_or, List.any_cons, Bool.or_assoc]

end Lemmas
