import CkcVerif.Spec.Key
import CkcVerif.Lemmas.Bridge
/-! **W2** (specification only): every feasible class is realised by five distinct real cards. -/
namespace Lemmas
open CK Spec

/-- suits for a witness hand: the k-th copy of a rank gets suit k; five distinct ranks that must not be
    a flush get their last card off-suit -/
def witness (r1 r2 r3 r4 r5 : Nat) (f : Bool) : List Card :=
  if f then [⟨r1, 0⟩, ⟨r2, 0⟩, ⟨r3, 0⟩, ⟨r4, 0⟩, ⟨r5, 0⟩]
  else
    let s2 := if r2 == r1 then 1 else 0
    let s3 := if r3 == r2 then s2 + 1 else 0
    let s4 := if r4 == r3 then s3 + 1 else 0
    let s5 := if r5 == r4 then s4 + 1 else 0
    let s5' := if s2 == 0 && s3 == 0 && s4 == 0 && s5 == 0 then 1 else s5
    [⟨r1, 0⟩, ⟨r2, s2⟩, ⟨r3, s3⟩, ⟨r4, s4⟩, ⟨r5, s5'⟩]

def witnessOk (r1 r2 r3 r4 r5 : Nat) (f : Bool) : Bool :=
  match witness r1 r2 r3 r4 r5 f with
  | [c1, c2, c3, c4, c5] =>
    decide [c1, c2, c3, c4, c5].Nodup && [c1, c2, c3, c4, c5].all (fun c => decide c.ok) &&
      (c1.rank == r1 && c2.rank == r2 && c3.rank == r3 && c4.rank == r4 && c5.rank == r5) &&
      (allSame c1.suit c2.suit c3.suit c4.suit c5.suit == f)
  | _ => false

def checkW2 : Bool :=
  (List.range 13).all fun r1 => (List.range (r1 + 1)).all fun r2 => (List.range (r2 + 1)).all fun r3 =>
  (List.range (r3 + 1)).all fun r4 => (List.range (r4 + 1)).all fun r5 =>
    (r1 == r5) || (witnessOk r1 r2 r3 r4 r5 false &&
      ((r1 == r2 || r2 == r3 || r3 == r4 || r4 == r5) || witnessOk r1 r2 r3 r4 r5 true))

theorem checkW2_ok : checkW2 = true := by decide +kernel

theorem witness_ok {r1 r2 r3 r4 r5 : Nat} {f : Bool} (h : Feasible r1 r2 r3 r4 r5 f) :
    witnessOk r1 r2 r3 r4 r5 f = true := by
  have hW := checkW2_ok
  simp only [checkW2, List.all_eq_true, List.mem_range] at hW
  have := hW r1 h.h1 r2 (by have := h.h2; omega) r3 (by have := h.h3; omega) r4 (by have := h.h4; omega)
    r5 (by have := h.h5; omega)
  simp only [Bool.or_eq_true, Bool.and_eq_true, beq_iff_eq] at this
  rcases this with h0 | ⟨ha, hb⟩
  · exact absurd h0 h.hne
  · cases f with
    | false => exact ha
    | true =>
      obtain ⟨n1, n2, n3, n4⟩ := h.hf rfl
      rcases hb with hb | hb
      · omega
      · exact hb

end Lemmas
