import CkcVerif.Tie.Source
import CkcVerif.Tie.Containers
import CkcVerif.Props.C03
import CkcVerif.Props.C08
import CkcVerif.Props.C11
import CkcVerif.Props.C13
import CkcVerif.Props.C14
import CkcVerif.Props.C15
import CkcVerif.Props.C16
import CkcVerif.Props.C19
import CkcVerif.Props.C20
/-!
# The properties, stated about the translated source (continued)
-/
namespace Tie
open CK Spec

/-- C13 for the source: the predicates of `Five` on five distinct real cards -/
theorem C13_source {cs : List Card} (h : IsHand 5 cs) :
    Src.Five.is_flush (words cs) = some (sameSuit cs) ∧
    Src.Five.is_straight (words cs) = some (isStraightRanks (ranks cs)) ∧
    Src.Five.is_straight_flush (words cs) = some (isStraightRanks (ranks cs) && sameSuit cs) ∧
    Src.Five.is_wheel (words cs) = some (isWheelRanks (ranks cs)) := by
  have a := C13.C13_flush h; have b := C13.C13_straight h; have c := C13.C13_straight_flush h; have d := C13.C13_wheel h
  obtain ⟨c1, c2, c3, c4, c5, rfl⟩ := Lemmas.hand5_cases h
  exact ⟨(Five_is_flush _ _ _ _ _).trans (congrArg some a), (Five_is_straight _ _ _ _ _).trans (congrArg some b),
    (Five_is_straight_flush _ _ _ _ _).trans (congrArg some c), (Five_is_wheel _ _ _ _ _).trans (congrArg some d)⟩

/-- C08 for the source: the card-level suit shift -/
theorem C08_source :
    (∀ r < 13, ∀ s < 4, Src.u32.shift_suit (word r s) = some (word r (C08.nextSuitNo s))) ∧
    Src.u32.shift_suit 0 = some 0 ∧
    (∀ w ∈ 0 :: deckWords, ∃ a b c, Src.u32.shift_suit w = some a ∧ Src.u32.shift_suit a = some b ∧
        Src.u32.shift_suit b = some c ∧ Src.u32.shift_suit c = some w) := by
  obtain ⟨h1, h2, h3, _⟩ := C08.C08_shift_card
  refine ⟨fun r hr s hs => (u32_shift_suit _).trans (congrArg some (h1 r hr s hs)), (u32_shift_suit 0).trans (congrArg some h2), ?_⟩
  intro w hw
  exact ⟨_, _, _, u32_shift_suit w, u32_shift_suit _, u32_shift_suit _, (u32_shift_suit _).trans (congrArg some (h3 w hw))⟩

/-- C08 for the source: shifting a hand never changes its value -/
theorem C08_source_value {n : Nat} (hn : n = 5 ∨ n = 6 ∨ n = 7) {cs : List Card} (h : IsHand n cs) :
    srcValue (shiftSuitHand (words cs)) = srcValue (words cs) := by
  have hl : (words cs).length = n := by simp [words, h.len]
  have hl2 : (shiftSuitHand (words cs)).length = n := by rw [(C08.C08_container _).2, hl]
  rw [(srcValue_eq _ (by omega)).1, (srcValue_eq _ (by omega)).1]
  exact C08.C08_shift_value hn h

/-- C11 for the source: `sort` returns the non-increasing rearrangement, for every slot list of every size -/
theorem C11_source (ws : List Nat) :
    ∃ out, Src.Five.sort ws = some out ∧ Src.Six.sort ws = some out ∧ Src.Seven.sort ws = some out ∧
      Src.Two.sort ws = some out ∧ Src.Three.sort ws = some out ∧ Src.Four.sort ws = some out ∧
      Src.Five.sort_in_place ws = some out ∧
      out.Perm ws ∧ out.Pairwise (fun a b => a ≥ b) ∧ out.length = ws.length :=
  ⟨sortDesc ws, Five_sort ws, Six_sort ws, Seven_sort ws, Two_sort ws, Three_sort ws, Four_sort ws, Five_sort_in_place ws,
    C11.C11_sort_perm ws, C11.C11_sort_sorted ws, C11.C11_sort_length ws⟩

/-- C03 for the source: the reported hand of six / seven cards -/
theorem C03_source {cs : List Card} (h : IsHand 7 cs) :
    ∃ v hand best, Src.Seven.hand_rank_value_and_hand 14 (words cs) = some (v, hand) ∧
      best ∈ combos 5 cs ∧ hand.Perm (words best) ∧ hand.Pairwise (fun a b => a ≥ b) ∧
      handRankValue5 packed hand = some v := by
  obtain ⟨v, hand, best, e, hb, hp, _, _, _, hs, ev, _⟩ := C03.C03_witness (Or.inr rfl) h
  refine ⟨v, hand, best, ?_, hb, hp, hs, ev⟩
  rw [Seven_hand_rank_value_and_hand]
  have hl : (words cs).length = 7 := by simp [words, h.len]
  simpa [handRankValueAndHand, hl] using e

/-- C14 for the source: the two 52-arm matches are mutually inverse on the cards -/
theorem C14_source (c : Card) (h : c.ok) :
    Src.u64.from_ckc c.word = some (C14.cardBit c.deckIndex) ∧
    Src.u32.from_binary_card (C14.cardBit c.deckIndex) = some c.word := by
  obtain ⟨a, b⟩ := C14.C14_round_trip_card c h
  exact ⟨(u64_from_ckc _).trans (congrArg some a), (u32_from_binary_card _).trans (congrArg some (a ▸ b))⟩

/-- C15 for the source: `peel` removes and returns the highest card present -/
theorem C15_source (x : Nat) :
    ((Gen.bitDeck.filter (fun b => has x b) = []) ∧ Src.u64.peel x = some (0, x)) ∨
    (∃ b m, Gen.bitDeck.filter (fun b => has x b) = b :: m ∧ Src.u64.peel x = some (b, x ^^^ b)) := by
  rw [u64_peel]
  rcases C15.C15_peel x with ⟨h1, h2⟩ | ⟨b, m, h1, h2, _⟩
  · left; exact ⟨h1, by rw [h2]⟩
  · right; exact ⟨b, m, h1, by rw [h2]⟩

/-- C16 for the source: fewer / more than two bits -/
theorem C16_source (x : Nat) :
    (pc 64 x < 2 → Src.Two.try_from__2 x = some (Except.error 7)) ∧
    (pc 64 x > 2 → Src.Two.try_from__2 x = some (Except.error 8)) := by
  obtain ⟨a, b⟩ := C16.C16_counts x
  rw [Two_try_from__2]
  exact ⟨fun h => by rw [a h]; rfl, fun h => by rw [b h]; rfl⟩

/-- C19 for the source: a setter writes its own slot and nothing else -/
theorem C19_source (ws : List Nat) (x j : Nat) :
    ∃ out, Src.Seven.set_third ws x = some out ∧ out.length = ws.length ∧
      out[j]? = if j = 2 ∧ 2 < ws.length then some x else ws[j]? := by
  obtain ⟨a, b⟩ := C19.C19_setter ws 2 x j
  exact ⟨_, Seven_set_third ws x, a, b⟩

/-- C20 for the source: stripping undoes any combination of marks on a word below 2^29 -/
theorem C20_source (w : Nat) (hw : w < 2 ^ 29) :
    (∃ p, Src.u32.flag_as_pair w = some p ∧ Src.u32.strip_multiples_flags p = some w) ∧
    (∃ q, Src.u32.flag_as_quads w = some q ∧ Src.u32.strip_multiples_flags q = some w) := by
  have k := C20.C20_constants
  refine ⟨⟨_, u32_flag_as_pair w, ?_⟩, ⟨_, u32_flag_as_quads w, ?_⟩⟩
  · rw [u32_strip_multiples_flags]
    have := (C20.C20_any_word w hw 1 (by omega)).1
    simpa [flagAsPair, k.1] using this
  · rw [u32_strip_multiples_flags]
    have := (C20.C20_any_word w hw 4 (by omega)).1
    simpa [flagAsQuads, k.2.2.1] using this

end Tie

/-! ## axiom audit (written by tools/tie.py --audit) -/
#print axioms Tie.C13_source
#print axioms Tie.C08_source
#print axioms Tie.C08_source_value
#print axioms Tie.C11_source
#print axioms Tie.C03_source
#print axioms Tie.C14_source
#print axioms Tie.C15_source
#print axioms Tie.C16_source
#print axioms Tie.C19_source
#print axioms Tie.C20_source
