import CkcVerif.Generated.Src
import CkcVerif.Model.Five
import CkcVerif.Model.Hand
import CkcVerif.Lemmas.Find
/-!
# Source tie, `src/cards/five.rs`: the mechanical translation of the current source equals the hand-written model

Each theorem states that the Lean definition written by `tools/rs2lean.py` from the *current* text of the
function agrees with the model definition the property theorems are about, for **all** arguments.
-/
namespace Tie
open CK

theorem Five_first (a b c d e : Nat) : Src.Five.first [a, b, c, d, e] = some a := rfl
theorem Five_second (a b c d e : Nat) : Src.Five.second [a, b, c, d, e] = some b := rfl
theorem Five_third (a b c d e : Nat) : Src.Five.third [a, b, c, d, e] = some c := rfl
theorem Five_forth (a b c d e : Nat) : Src.Five.forth [a, b, c, d, e] = some d := rfl
theorem Five_fifth (a b c d e : Nat) : Src.Five.fifth [a, b, c, d, e] = some e := rfl

theorem consts :
    Src.CardNumber.SUIT_FILTER = Gen.suitFilter ∧ Src.CardNumber.RANK_FLAG_SHIFT = Gen.rankFlagShift ∧
    Src.CardNumber.RANK_PRIME_FILTER = Gen.rankPrimeFilter ∧ Src.Five.STRAIGHT_PADDING = Gen.straightPadding ∧
    Src.Five.WHEEL_OR_BITS = Gen.wheelOrBits ∧ Src.Five.POSSIBLE_COMBINATIONS = Gen.possibleCombinations ∧
    Src.CardNumber.BLANK = Gen.blank ∧ Src.hand_rank.NO_HAND_RANK_VALUE = Gen.noHandRankValue := by decide

theorem Five_and_bits (a b c d e : Nat) : Src.Five.and_bits [a, b, c, d, e] = some (andBits [a, b, c, d, e]) := rfl
theorem Five_or_bits (a b c d e : Nat) : Src.Five.or_bits [a, b, c, d, e] = some (orBits [a, b, c, d, e]) := rfl
theorem Five_or_rank_bits (a b c d e : Nat) :
    Src.Five.or_rank_bits [a, b, c, d, e] = some (orRankBits [a, b, c, d, e]) := rfl
theorem Five_is_flush (a b c d e : Nat) : Src.Five.is_flush [a, b, c, d, e] = some (isFlush [a, b, c, d, e]) := rfl
theorem and63 (x : Nat) : x &&& Src.CardNumber.RANK_PRIME_FILTER ≤ 63 := Nat.and_le_right
theorem mul_ok {w a b : Nat} (h : a * b < 2 ^ w) : Src.mul w a b = some (a * b) := by simp [Src.mul, h]
theorem add_ok {w a b : Nat} (h : a + b < 2 ^ w) : Src.add w a b = some (a + b) := by simp [Src.add, h]

/-- the four `u32` multiplications never overflow (each factor is at most 63) -/
theorem Five_multiply_primes (a b c d e : Nat) :
    Src.Five.multiply_primes [a, b, c, d, e] = some (multiplyPrimes [a, b, c, d, e]) := by
  have ha := and63 a; have hb := and63 b; have hc := and63 c; have hd := and63 d; have he := and63 e
  have h2 : (a &&& Src.CardNumber.RANK_PRIME_FILTER) * (b &&& Src.CardNumber.RANK_PRIME_FILTER) ≤ 63 * 63 := Nat.mul_le_mul ha hb
  have h3 := Nat.mul_le_mul h2 hc
  have h4 := Nat.mul_le_mul h3 hd
  have h5 := Nat.mul_le_mul h4 he
  simp only [Src.Five.multiply_primes, Src.Five.first, Src.Five.second, Src.Five.third, Src.Five.forth, Src.Five.fifth,
    Src.u32.get_rank_prime, Src.u32.as_u32, Option.bind, List.getD_cons_zero, List.getD_cons_succ]
  rw [mul_ok (by omega)]; simp only
  rw [mul_ok (by omega)]; simp only
  rw [mul_ok (by omega)]; simp only
  rw [mul_ok (by omega)]
  rfl
theorem tzGo_le : ∀ (f x acc : Nat), tzGo f x acc ≤ f + acc := by
  intro f
  induction f with
  | zero => intro x acc; simp [tzGo]
  | succ n ih =>
    intro x acc
    unfold tzGo
    split
    · omega
    · have := ih (x / 2) (acc + 1); omega
theorem tz32_le (x : Nat) : tz32 x ≤ 32 := by
  unfold tz32; split
  · omega
  · have := tzGo_le 32 x 0; omega
theorem lz32_le (x : Nat) : lz32 x ≤ 32 := by
  unfold lz32; split <;> omega

theorem c_STRAIGHT_PADDING : Src.Five.STRAIGHT_PADDING = Gen.straightPadding := by decide
theorem c_WHEEL_OR_BITS : Src.Five.WHEEL_OR_BITS = Gen.wheelOrBits := by decide
theorem Five_is_straight (a b c d e : Nat) :
    Src.Five.is_straight [a, b, c, d, e] = some (isStraight [a, b, c, d, e]) := by
  have hb : tz32 (orRankBits [a, b, c, d, e]) + lz32 (orRankBits [a, b, c, d, e]) < 2 ^ 32 := by
    have := tz32_le (orRankBits [a, b, c, d, e]); have := lz32_le (orRankBits [a, b, c, d, e]); omega
  simp only [Src.Five.is_straight, Five_or_rank_bits, Option.bind, isStraight, c_STRAIGHT_PADDING, c_WHEEL_OR_BITS]
  cases h5 : (pc 32 (orRankBits [a, b, c, d, e]) == 5)
  · simp
  · simp only [if_true, add_ok hb, Bool.true_and]
theorem Five_is_wheel (a b c d e : Nat) : Src.Five.is_wheel [a, b, c, d, e] = some (isWheel [a, b, c, d, e]) := rfl
theorem Five_is_straight_flush (a b c d e : Nat) :
    Src.Five.is_straight_flush [a, b, c, d, e] = some (isStraightFlush [a, b, c, d, e]) := by
  simp only [Src.Five.is_straight_flush, Five_is_straight, Five_is_flush, Option.bind, isStraightFlush]
  cases isStraight [a, b, c, d, e] <;> simp

end Tie

namespace Tie
open CK

/-- the translated `while` loop of `find_in_products`, followed by the code after it, is `findGo`; the two additions
    (`high + low`, `mid + 1`) stay far below the integer width because both bounds stay below 4,889 -/
theorem find_loop (key : Nat) : ∀ (fuel low high : Nat), low ≤ 4888 → high ≤ 4887 →
    Option.bind (Src.whileFuel (ρ := Nat) fuel (high, low) fun (high, low) =>
      if (decide (low ≤ high)) then
        Option.bind (Src.add 31 high low) fun t1_ =>
        let mid := (t1_ >>> 1)
        Option.bind (CK.packed.products mid) fun t2_ =>
        let product := t2_
        if (decide (key < product)) then
          if (mid == 0) then
            some (Src.Ctl.brk (high, low))
          else
            Option.bind (Src.sub mid 1) fun t3_ =>
            let high := t3_
            some (Src.Ctl.next (high, low))
        else
          if (decide (key > product)) then
            Option.bind (Src.add 31 mid 1) fun t4_ =>
            let low := t4_
            some (Src.Ctl.next (high, low))
          else
            some (Src.Ctl.ret mid)
      else some (Src.Ctl.brk (high, low))) (fun r5_ =>
      match r5_ with
      | Src.Out.ret v6_ => some v6_
      | Src.Out.done (high, low) => some 0)
    = findGo packed key fuel low high := by
  intro fuel
  induction fuel with
  | zero => intro low high _ _; rfl
  | succ n ih =>
    intro low high hl hh
    unfold Src.whileFuel findGo
    by_cases h : low ≤ high
    · have hsum : high + low < 2 ^ 31 := by omega
      have hmid : (high + low) >>> 1 ≤ 4887 := by
        rw [Nat.shiftRight_eq_div_pow]; omega
      have hmid1 : (high + low) >>> 1 + 1 < 2 ^ 31 := by omega
      simp only [h, decide_true, if_true, add_ok hsum, Option.bind]
      cases hp : packed.products ((high + low) >>> 1) with
      | none => simp
      | some product =>
        simp only
        by_cases h1 : key < product
        · simp only [h1, decide_true, if_true]
          by_cases h2 : (high + low) >>> 1 = 0
          · simp [h2]
          · have h3 : ((high + low) >>> 1 == 0) = false := by simp [h2]
            have h4 : 1 ≤ (high + low) >>> 1 := by omega
            simp only [h3, Src.sub, h4, if_true, Bool.false_eq_true, if_false, h2]
            exact ih low ((high + low) >>> 1 - 1) hl (by omega)
        · simp only [h1, decide_false, Bool.false_eq_true, if_false]
          by_cases h5 : key > product
          · simp only [h5, decide_true, if_true, add_ok hmid1]
            exact ih ((high + low) >>> 1 + 1) high (by omega) hh
          · simp [h5]
    · simp [h]

theorem Five_find_in_products (fuel key : Nat) :
    Src.Five.find_in_products fuel key = findGo packed key fuel 0 4887 := by
  unfold Src.Five.find_in_products
  exact find_loop key fuel 0 4887 (by omega) (by omega)

theorem Five_find_in_products_14 (key : Nat) : Src.Five.find_in_products 14 key = findInProducts packed key :=
  Five_find_in_products 14 key

end Tie

namespace Tie
open CK

theorem c_NO_HRV : Src.hand_rank.NO_HAND_RANK_VALUE = Gen.noHandRankValue := by decide
theorem c_BLANK : Src.CardNumber.BLANK = Gen.blank := by decide
theorem c_POSSIBLE : Src.Five.POSSIBLE_COMBINATIONS = Gen.possibleCombinations := by decide
theorem c_blank_trunc : Src.CardNumber.BLANK % 65536 = Gen.blank := by decide

theorem Five_not_unique (fuel : Nat) (a b c d e : Nat) :
    Src.Five.not_unique fuel [a, b, c, d, e] =
      (match findGo packed (multiplyPrimes [a, b, c, d, e]) fuel 0 4887 with
       | none => none
       | some idx =>
         match packed.products idx with
         | none => none
         | some p => if p != multiplyPrimes [a, b, c, d, e] then some Gen.noHandRankValue else packed.values idx) := by
  simp only [Src.Five.not_unique, Five_multiply_primes, Option.bind, Five_find_in_products, c_NO_HRV]
  cases findGo packed (multiplyPrimes [a, b, c, d, e]) fuel 0 4887 with
  | none => rfl
  | some idx =>
    simp only
    cases packed.products idx with
    | none => rfl
    | some p =>
      simp only
      split
      · rfl
      · cases packed.values idx <;> rfl

theorem Five_not_unique_14 (a b c d e : Nat) :
    Src.Five.not_unique 14 [a, b, c, d, e] = notUnique packed [a, b, c, d, e] := by
  rw [Five_not_unique]; rfl

theorem Five_unique (i : Nat) : Src.Five.unique i = unique packed i := by
  simp only [Src.Five.unique, unique, c_POSSIBLE, c_blank_trunc, Option.bind]
  by_cases h : i > Gen.possibleCombinations
  · simp [h]
  · simp only [h, decide_false, Bool.false_eq_true, if_false]
    cases packed.unique5 i <;> rfl

theorem Five_hand_rank_value_and_hand (a b c d e : Nat) :
    Src.Five.hand_rank_value_and_hand 14 [a, b, c, d, e] = handRankValueAndHand5 packed [a, b, c, d, e] := by
  simp only [Src.Five.hand_rank_value_and_hand, Five_or_rank_bits, Five_is_flush, Option.bind, Five_unique,
    Five_not_unique_14, handRankValueAndHand5, handRankValue5, evalCore, notUnique]
  cases isFlush [a, b, c, d, e] with
  | true =>
    simp only [if_true]
    cases packed.flushes (orRankBits [a, b, c, d, e]) <;> rfl
  | false =>
    simp only [Bool.false_eq_true, if_false]
    cases unique packed (orRankBits [a, b, c, d, e]) with
    | none => rfl
    | some u =>
      cases u with
      | zero =>
        simp only [beq_self_eq_true, if_true]
        cases notUniqueKey packed (multiplyPrimes [a, b, c, d, e]) <;> rfl
      | succ n => simp

theorem Five_hand_rank_value (a b c d e : Nat) :
    Src.Five.hand_rank_value 14 [a, b, c, d, e] = handRankValue5 packed [a, b, c, d, e] := by
  simp only [Src.Five.hand_rank_value, Five_hand_rank_value_and_hand, handRankValueAndHand5, Option.bind]
  cases handRankValue5 packed [a, b, c, d, e] <;> rfl

end Tie

/-! ## axiom audit (written by tools/tie.py --audit) -/
#print axioms Tie.Five_first
#print axioms Tie.Five_second
#print axioms Tie.Five_third
#print axioms Tie.Five_forth
#print axioms Tie.Five_fifth
#print axioms Tie.consts
#print axioms Tie.Five_and_bits
#print axioms Tie.Five_or_bits
#print axioms Tie.Five_or_rank_bits
#print axioms Tie.Five_is_flush
#print axioms Tie.and63
#print axioms Tie.mul_ok
#print axioms Tie.add_ok
#print axioms Tie.Five_multiply_primes
#print axioms Tie.tzGo_le
#print axioms Tie.tz32_le
#print axioms Tie.lz32_le
#print axioms Tie.c_STRAIGHT_PADDING
#print axioms Tie.c_WHEEL_OR_BITS
#print axioms Tie.Five_is_straight
#print axioms Tie.Five_is_wheel
#print axioms Tie.Five_is_straight_flush
#print axioms Tie.find_loop
#print axioms Tie.Five_find_in_products
#print axioms Tie.Five_find_in_products_14
#print axioms Tie.c_NO_HRV
#print axioms Tie.c_BLANK
#print axioms Tie.c_POSSIBLE
#print axioms Tie.c_blank_trunc
#print axioms Tie.Five_not_unique
#print axioms Tie.Five_not_unique_14
#print axioms Tie.Five_unique
#print axioms Tie.Five_hand_rank_value_and_hand
#print axioms Tie.Five_hand_rank_value
