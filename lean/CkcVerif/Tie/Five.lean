import CkcVerif.Generated.Src
import CkcVerif.Model.Five
import CkcVerif.Model.Hand
import CkcVerif.Lemmas.Find
/-!
# Source tie, `src/cards/five.rs`: the mechanical translation of the current source equals the hand-written model

Each theorem states that the Lean definition written by `tools/rs2lean.py` from the *current* text of the
function agrees with the model definition the property theorems are about, for **all** arguments.
-/
namespace Tie
open CK

theorem Five_first (a b c d e : Nat) : Src.Five.first [a, b, c, d, e] = some a := rfl
theorem Five_second (a b c d e : Nat) : Src.Five.second [a, b, c, d, e] = some b := rfl
theorem Five_third (a b c d e : Nat) : Src.Five.third [a, b, c, d, e] = some c := rfl
theorem Five_forth (a b c d e : Nat) : Src.Five.forth [a, b, c, d, e] = some d := rfl
theorem Five_fifth (a b c d e : Nat) : Src.Five.fifth [a, b, c, d, e] = some e := rfl

theorem consts :
    Src.CardNumber.SUIT_FILTER = Gen.suitFilter ∧ Src.CardNumber.RANK_FLAG_SHIFT = Gen.rankFlagShift ∧
    Src.CardNumber.RANK_PRIME_FILTER = Gen.rankPrimeFilter ∧ Src.Five.STRAIGHT_PADDING = Gen.straightPadding ∧
    Src.Five.WHEEL_OR_BITS = Gen.wheelOrBits ∧ Src.Five.POSSIBLE_COMBINATIONS = Gen.possibleCombinations ∧
    Src.CardNumber.BLANK = Gen.blank ∧ Src.hand_rank.NO_HAND_RANK_VALUE = Gen.noHandRankValue := by decide

theorem Five_and_bits (a b c d e : Nat) : Src.Five.and_bits [a, b, c, d, e] = some (andBits [a, b, c, d, e]) := rfl
theorem Five_or_bits (a b c d e : Nat) : Src.Five.or_bits [a, b, c, d, e] = some (orBits [a, b, c, d, e]) := rfl
theorem Five_or_rank_bits (a b c d e : Nat) :
    Src.Five.or_rank_bits [a, b, c, d, e] = some (orRankBits [a, b, c, d, e]) := rfl
theorem Five_is_flush (a b c d e : Nat) : Src.Five.is_flush [a, b, c, d, e] = some (isFlush [a, b, c, d, e]) := rfl
theorem Five_multiply_primes (a b c d e : Nat) :
    Src.Five.multiply_primes [a, b, c, d, e] = some (multiplyPrimes [a, b, c, d, e]) := rfl
theorem c_STRAIGHT_PADDING : Src.Five.STRAIGHT_PADDING = Gen.straightPadding := by decide
theorem c_WHEEL_OR_BITS : Src.Five.WHEEL_OR_BITS = Gen.wheelOrBits := by decide
theorem Five_is_straight (a b c d e : Nat) :
    Src.Five.is_straight [a, b, c, d, e] = some (isStraight [a, b, c, d, e]) := by
  simp only [Src.Five.is_straight, Five_or_rank_bits, Option.bind, isStraight, c_STRAIGHT_PADDING, c_WHEEL_OR_BITS]
theorem Five_is_wheel (a b c d e : Nat) : Src.Five.is_wheel [a, b, c, d, e] = some (isWheel [a, b, c, d, e]) := rfl
theorem Five_is_straight_flush (a b c d e : Nat) :
    Src.Five.is_straight_flush [a, b, c, d, e] = some (isStraightFlush [a, b, c, d, e]) := by
  simp only [Src.Five.is_straight_flush, Five_is_straight, Five_is_flush, Option.bind, isStraightFlush]
  cases isStraight [a, b, c, d, e] <;> simp

end Tie

namespace Tie
open CK

/-- the translated `while` loop of `find_in_products`, followed by the code after it, is `findGo` -/
theorem find_loop (key : Nat) : ∀ (fuel low high : Nat),
    Option.bind (Src.whileFuel (ρ := Nat) fuel (high, low) fun (high, low) =>
      if (decide (low ≤ high)) then
        let mid := ((high + low) >>> 1)
        Option.bind (CK.packed.products mid) fun t1_ =>
        let product := t1_
        if (decide (key < product)) then
          if (mid == 0) then
            some (Src.Ctl.brk (high, low))
          else
            Option.bind (Src.sub mid 1) fun t2_ =>
            let high := t2_
            some (Src.Ctl.next (high, low))
        else
          if (decide (key > product)) then
            let low := (mid + 1)
            some (Src.Ctl.next (high, low))
          else
            some (Src.Ctl.ret mid)
      else some (Src.Ctl.brk (high, low))) (fun r3_ =>
      match r3_ with
      | Src.Out.ret v4_ => some v4_
      | Src.Out.done (high, low) => some 0)
    = findGo packed key fuel low high := by
  intro fuel
  induction fuel with
  | zero => intro low high; rfl
  | succ n ih =>
    intro low high
    unfold Src.whileFuel findGo
    by_cases h : low ≤ high
    · simp only [h, decide_true, if_true]
      cases hp : packed.products ((high + low) >>> 1) with
      | none => simp [Option.bind]
      | some product =>
        simp only [Option.bind]
        by_cases h1 : key < product
        · simp only [h1, decide_true, if_true]
          by_cases h2 : (high + low) >>> 1 = 0
          · simp [h2]
          · have h3 : ((high + low) >>> 1 == 0) = false := by simp [h2]
            have h4 : 1 ≤ (high + low) >>> 1 := by omega
            simp only [h3, Src.sub, h4, if_true, Bool.false_eq_true, if_false, h2]
            exact ih low ((high + low) >>> 1 - 1)
        · simp only [h1, decide_false, Bool.false_eq_true, if_false]
          by_cases h5 : key > product
          · simp only [h5, decide_true, if_true]
            exact ih ((high + low) >>> 1 + 1) high
          · simp [h5]
    · simp [h]

theorem Five_find_in_products (fuel key : Nat) :
    Src.Five.find_in_products fuel key = findGo packed key fuel 0 4887 := by
  unfold Src.Five.find_in_products
  exact find_loop key fuel 0 4887

theorem Five_find_in_products_14 (key : Nat) : Src.Five.find_in_products 14 key = findInProducts packed key :=
  Five_find_in_products 14 key

end Tie

namespace Tie
open CK

theorem c_NO_HRV : Src.hand_rank.NO_HAND_RANK_VALUE = Gen.noHandRankValue := by decide
theorem c_BLANK : Src.CardNumber.BLANK = Gen.blank := by decide
theorem c_POSSIBLE : Src.Five.POSSIBLE_COMBINATIONS = Gen.possibleCombinations := by decide
theorem c_blank_trunc : Src.CardNumber.BLANK % 65536 = Gen.blank := by decide

theorem Five_not_unique (fuel : Nat) (a b c d e : Nat) :
    Src.Five.not_unique fuel [a, b, c, d, e] =
      (match findGo packed (multiplyPrimes [a, b, c, d, e]) fuel 0 4887 with
       | none => none
       | some idx =>
         match packed.products idx with
         | none => none
         | some p => if p != multiplyPrimes [a, b, c, d, e] then some Gen.noHandRankValue else packed.values idx) := by
  simp only [Src.Five.not_unique, Five_multiply_primes, Option.bind, Five_find_in_products, c_NO_HRV]
  cases findGo packed (multiplyPrimes [a, b, c, d, e]) fuel 0 4887 with
  | none => rfl
  | some idx =>
    simp only
    cases packed.products idx with
    | none => rfl
    | some p =>
      simp only
      split
      · rfl
      · cases packed.values idx <;> rfl

theorem Five_not_unique_14 (a b c d e : Nat) :
    Src.Five.not_unique 14 [a, b, c, d, e] = notUnique packed [a, b, c, d, e] := by
  rw [Five_not_unique]; rfl

theorem Five_unique (i : Nat) : Src.Five.unique i = unique packed i := by
  simp only [Src.Five.unique, unique, c_POSSIBLE, c_blank_trunc, Option.bind]
  by_cases h : i > Gen.possibleCombinations
  · simp [h]
  · simp only [h, decide_false, Bool.false_eq_true, if_false]
    cases packed.unique5 i <;> rfl

theorem Five_hand_rank_value_and_hand (a b c d e : Nat) :
    Src.Five.hand_rank_value_and_hand 14 [a, b, c, d, e] = handRankValueAndHand5 packed [a, b, c, d, e] := by
  simp only [Src.Five.hand_rank_value_and_hand, Five_or_rank_bits, Five_is_flush, Option.bind, Five_unique,
    Five_not_unique_14, handRankValueAndHand5, handRankValue5, evalCore, notUnique]
  cases isFlush [a, b, c, d, e] with
  | true =>
    simp only [if_true]
    cases packed.flushes (orRankBits [a, b, c, d, e]) <;> rfl
  | false =>
    simp only [Bool.false_eq_true, if_false]
    cases unique packed (orRankBits [a, b, c, d, e]) with
    | none => rfl
    | some u =>
      cases u with
      | zero =>
        simp only [beq_self_eq_true, if_true]
        cases notUniqueKey packed (multiplyPrimes [a, b, c, d, e]) <;> rfl
      | succ n => simp

theorem Five_hand_rank_value (a b c d e : Nat) :
    Src.Five.hand_rank_value 14 [a, b, c, d, e] = handRankValue5 packed [a, b, c, d, e] := by
  simp only [Src.Five.hand_rank_value, Five_hand_rank_value_and_hand, handRankValueAndHand5, Option.bind]
  cases handRankValue5 packed [a, b, c, d, e] <;> rfl

end Tie

/-! ## axiom audit (written by tools/tie.py --audit) -/
#print axioms Tie.Five_first
#print axioms Tie.Five_second
#print axioms Tie.Five_third
#print axioms Tie.Five_forth
#print axioms Tie.Five_fifth
#print axioms Tie.consts
#print axioms Tie.Five_and_bits
#print axioms Tie.Five_or_bits
#print axioms Tie.Five_or_rank_bits
#print axioms Tie.Five_is_flush
#print axioms Tie.Five_multiply_primes
#print axioms Tie.c_STRAIGHT_PADDING
#print axioms Tie.c_WHEEL_OR_BITS
#print axioms Tie.Five_is_straight
#print axioms Tie.Five_is_wheel
#print axioms Tie.Five_is_straight_flush
#print axioms Tie.find_loop
#print axioms Tie.Five_find_in_products
#print axioms Tie.Five_find_in_products_14
#print axioms Tie.c_NO_HRV
#print axioms Tie.c_BLANK
#print axioms Tie.c_POSSIBLE
#print axioms Tie.c_blank_trunc
#print axioms Tie.Five_not_unique
#print axioms Tie.Five_not_unique_14
#print axioms Tie.Five_unique
#print axioms Tie.Five_hand_rank_value_and_hand
#print axioms Tie.Five_hand_rank_value
