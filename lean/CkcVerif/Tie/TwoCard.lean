import CkcVerif.Tie.Misc
/-!
# Source tie: two-card helpers, `TryFrom<BinaryCard> for Two`, `Deck::get`, `partial_cmp`
-/
namespace Tie
open CK

theorem Two_sort_pair (a b : Nat) : ∃ s1 s2, sortDesc [a, b] = [s1, s2] := by
  simp only [sortDesc, List.foldr, insertDesc]
  split <;> exact ⟨_, _, rfl⟩

theorem Two_get_gap (a b : Nat) : Src.Two.get_gap [a, b] = getGap a b := by
  simp only [Src.Two.get_gap, Two_sort, Option.bind, getGap]
  obtain ⟨s1, s2, h⟩ := Two_sort_pair a b
  rw [h]
  simp only [Src.Two.first, Src.Two.second, List.getD_cons_zero, List.getD_cons_succ, u32_get_card_rank, Src.sub]
  by_cases h1 : getCardRank s1 < getCardRank s2
  · have : ¬ getCardRank s2 ≤ getCardRank s1 := by omega
    simp [h1, this]
  · have h2 : getCardRank s2 ≤ getCardRank s1 := by omega
    simp only [h1, h2, if_true, if_false]
    by_cases h3 : getCardRank s1 - getCardRank s2 < 1
    · simp [h3]
    · have : 1 ≤ getCardRank s1 - getCardRank s2 := by omega
      simp [h3, this]

theorem Two_is_connector (a b : Nat) : Src.Two.is_connector [a, b] = isConnector a b := by
  simp only [Src.Two.is_connector, Two_get_gap, Option.bind, isConnector]
  cases getGap a b <;> rfl

theorem Two_is_suited_connector (a b : Nat) : Src.Two.is_suited_connector [a, b] = isSuitedConnector a b := by
  simp only [Src.Two.is_suited_connector, Two_is_suited, Two_is_connector, Option.bind, isSuitedConnector]
  cases isSuited a b
  · simp
  · simp only [if_true]
    cases isConnector a b <;> rfl

/-- `impl TryFrom<BinaryCard> for Two` -/
def resultCode : TwoResult → Except Nat (List Nat)
  | .ok a b => .ok [a, b]
  | .notEnoughCards => .error 7
  | .tooManyCards => .error 8
  | .invalidBinaryFormat => .error 3

theorem Two_try_from__2 (x : Nat) : Src.Two.try_from__2 x = some (resultCode (twoFromBc x)) := by
  simp only [Src.Two.try_from__2, u64_number_of_cards, Option.bind, twoFromBc, u64_peel, u32_from_binary_card, Src.Two.new,
    Two_is_valid]
  by_cases h1 : numberOfCards x ≤ 1
  · simp [h1, resultCode]
  · by_cases h2 : numberOfCards x = 2
    · simp only [h1, h2]
      simp only [show (decide (0 ≤ 2) && decide (2 ≤ 1)) = false by decide, show ((2 : Nat) == 2) = true by decide,
        show ¬ (2 ≤ 1) by decide, if_true, if_false, Bool.false_eq_true]
      cases isValid [fromBinaryCard (peel x).2, fromBinaryCard (peel (peel x).1).2] <;> simp [resultCode]
    · have h3 : (numberOfCards x == 2) = false := by simpa using h2
      simp [h1, h2, h3, resultCode]

theorem Deck_get (i : Nat) : Src.Deck.get i = some (deckGet i) := by
  have hd : Src.deck.POKER_DECK = Gen.deck := by decide
  have hl : Src.deck.DECK_SIZE = Gen.deckLen := by decide
  have hlen : Gen.deck.length = Gen.deckLen := by decide
  simp only [Src.Deck.get, Src.Deck.len, Option.bind, deckGet, hd, hl, c_BLANK]
  by_cases h : i < Gen.deckLen
  · have : i < Gen.deck.length := by omega
    simp [h, this]
  · simp [h]

theorem HandRank_partial_cmp (a b : Src.HandRank) :
    Src.HandRank.partial_cmp a b = some (some ((toModel a).cmp (toModel b))) := by
  simp only [Src.HandRank.partial_cmp, HandRank_cmp, Option.bind]

end Tie

/-! ## axiom audit (written by tools/tie.py --audit) -/
#print axioms Tie.Two_sort_pair
#print axioms Tie.Two_get_gap
#print axioms Tie.Two_is_connector
#print axioms Tie.Two_is_suited_connector
#print axioms Tie.Two_try_from__2
#print axioms Tie.Deck_get
#print axioms Tie.HandRank_partial_cmp
