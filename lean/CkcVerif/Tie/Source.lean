import CkcVerif.Tie.SixSeven
import CkcVerif.Tie.Text
import CkcVerif.Tie.TwoCard
import CkcVerif.Props.C01
import CkcVerif.Props.C02
import CkcVerif.Props.C04
import CkcVerif.Props.C05
import CkcVerif.Props.C12
/-!
# The properties, stated about the translated source

Each theorem here is a property theorem of `Props/` transported along the source tie: it speaks about the Lean
definitions that `tools/rs2lean.py` writes from the *current text* of the crate's functions (`Src.*`, loop fuel 14 =
the bound proved sufficient for the binary search), not about the hand-written model.
-/
namespace Tie
open CK Spec

/-- C01 for the source: every five-card entry point returns the strength ordinal, in any slot order -/
theorem C01_source {cs : List Card} (h : IsHand 5 cs) :
    ∃ v, 1 ≤ v ∧ v ≤ 7462 ∧
      Src.Five.hand_rank_value 14 (words cs) = some v ∧
      Src.Five.hand_rank_value_and_hand 14 (words cs) = some (v, words cs) ∧
      Src.Five.hand_rank_value_validated 14 (words cs) = some v ∧
      Src.evaluate.five_cards 14 (words cs) = some v ∧
      (∀ cs' : List Card, IsHand 5 cs' → ∀ v', Src.Five.hand_rank_value 14 (words cs') = some v' →
        ((v < v' ↔ beats cs cs') ∧ (v = v' ↔ ties cs cs'))) := by
  obtain ⟨v, h1, h2, e1, e2, _, e4, _, e6⟩ := C01.C01_entry_points h
  obtain ⟨c1, c2, c3, c4, c5, rfl⟩ := Lemmas.hand5_cases h
  refine ⟨v, h1, h2, ?_, ?_, ?_, ?_, ?_⟩
  · exact (Five_hand_rank_value _ _ _ _ _).trans e1
  · exact (Five_hand_rank_value_and_hand _ _ _ _ _).trans e2
  · exact (Five_hand_rank_value_validated _ _ _ _ _).trans e4
  · exact (evaluate_five_cards _ _ _ _ _).trans e6
  · intro cs' h' v' ev'
    obtain ⟨d1, d2, d3, d4, d5, rfl⟩ := Lemmas.hand5_cases h'
    have ev'' : handRankValue5 packed (words [d1, d2, d3, d4, d5]) = some v' :=
      (Five_hand_rank_value _ _ _ _ _).symm.trans ev'
    exact ⟨C01.C01_lower_iff_beats h h' e1 ev'', C01.C01_equal_iff_ties h h' e1 ev''⟩

/-- the translated ranking entry point for a slot list of length 5, 6 or 7 -/
def srcValue (ws : List Nat) : Option Nat :=
  match ws.length with
  | 5 => Src.Five.hand_rank_value 14 ws
  | 6 => Src.Six.hand_rank_value 14 ws
  | 7 => Src.Seven.hand_rank_value 14 ws
  | _ => none
def srcValidated (ws : List Nat) : Option Nat :=
  match ws.length with
  | 5 => Src.Five.hand_rank_value_validated 14 ws
  | 6 => Src.Six.hand_rank_value_validated 14 ws
  | 7 => Src.Seven.hand_rank_value_validated 14 ws
  | _ => none

theorem srcValue_eq (ws : List Nat) (hl : ws.length = 5 ∨ ws.length = 6 ∨ ws.length = 7) :
    srcValue ws = handRankValue packed ws ∧ srcValidated ws = handRankValueValidated packed ws := by
  rcases hl with hl | hl | hl
  · match ws, hl with
    | [a, b, c, d, e], _ =>
      refine ⟨?_, ?_⟩
      · show Src.Five.hand_rank_value 14 _ = _
        rw [Five_hand_rank_value]
        simp only [handRankValue, handRankValueAndHand, List.length_cons, List.length_nil, handRankValueAndHand5]
        cases handRankValue5 packed [a, b, c, d, e] <;> rfl
      · show Src.Five.hand_rank_value_validated 14 _ = _
        rw [Five_hand_rank_value_validated]
        simp only [handRankValueValidated5, handRankValueValidated, handRankValue, handRankValueAndHand, List.length_cons,
          List.length_nil, handRankValueAndHand5]
        cases isValid [a, b, c, d, e] <;> simp
        cases handRankValue5 packed [a, b, c, d, e] <;> rfl
  · match ws, hl with
    | [a, b, c, d, e, f], _ => exact ⟨Six_hand_rank_value _ _ _ _ _ _, Six_hand_rank_value_validated _ _ _ _ _ _⟩
  · match ws, hl with
    | [a, b, c, d, e, f, g], _ => exact ⟨Seven_hand_rank_value _ _ _ _ _ _ _, Seven_hand_rank_value_validated _ _ _ _ _ _ _⟩

/-- C02 for the source: six / seven cards rank as the best five-card hand they contain -/
theorem C02_source {n : Nat} (hn : n = 6 ∨ n = 7) {cs : List Card} (h : IsHand n cs) :
    ∃ v best, best ∈ combos 5 cs ∧ 1 ≤ v ∧ v ≤ 7462 ∧
      srcValue (words cs) = some v ∧ srcValidated (words cs) = some v ∧
      (∀ sub ∈ combos 5 cs, handStrength sub ≤ handStrength best) ∧ bestStrength cs = handStrength best ∧
      handRankValue5 packed (words best) = some v := by
  obtain ⟨v, best, hb, h1, h2, e1, e2, e3, _, m, bs⟩ := C02.C02_best_of hn h
  have hl : (words cs).length = 5 ∨ (words cs).length = 6 ∨ (words cs).length = 7 := by
    have : (words cs).length = n := by simp [words, h.len]
    omega
  obtain ⟨q1, q2⟩ := srcValue_eq (words cs) hl
  exact ⟨v, best, hb, h1, h2, q1.trans e1, q2.trans e2, m, bs, e3⟩

/-- C04 for the source: validated ranking of arbitrary 32-bit words is 0 exactly for non-hands, never panics -/
theorem C04_source (ws : List Nat) (hl : ws.length = 5 ∨ ws.length = 6 ∨ ws.length = 7) (hb : ∀ w ∈ ws, w < 2 ^ 32) :
    ∃ r, srcValidated ws = some r ∧ (r = 0 ↔ isValid ws = false) ∧
      (isValid ws = true → srcValue ws = some r ∧ 1 ≤ r ∧ r ≤ 7462) ∧
      (isValid ws = true ↔ (∀ w ∈ ws, w ∈ deckWords) ∧ ws.Nodup) := by
  obtain ⟨r, e, z, v, _⟩ := C04.C04_validated ws hl hb
  obtain ⟨q1, q2⟩ := srcValue_eq ws hl
  refine ⟨r, q2.trans e, z, ?_, C04.C04_valid_iff ws (by omega) hb⟩
  intro hv
  obtain ⟨a, b, c⟩ := v hv
  exact ⟨q1.trans a, b, c⟩

/-- C05 for the source: ranking card-or-blank slots never panics (no index out of bounds, no underflow, fuel 14 suffices) -/
theorem C05_source (ws : List Nat) (hl : ws.length = 5 ∨ ws.length = 6 ∨ ws.length = 7) (h : ∀ w ∈ ws, Lemmas.CardOrBlank w) :
    (srcValue ws).isSome ∧ (srcValidated ws).isSome := by
  obtain ⟨q1, q2⟩ := srcValue_eq ws hl
  rw [q1, q2]
  rcases hl with hl | hl | hl
  · obtain ⟨_, a, _, b, _⟩ := C05.C05_five_total ws hl h; exact ⟨a, b⟩
  · obtain ⟨_, a, b⟩ := C05.C05_six_total ws hl h; exact ⟨a, b⟩
  · obtain ⟨_, a, b⟩ := C05.C05_seven_total ws hl h; exact ⟨a, b⟩

/-- C12 for the source: a token is a card exactly when it starts with a rank symbol and a suit symbol; the hand parsers
    fail exactly when a token is missing and otherwise return the first tokens' cards in order -/
theorem C12_source (s : List Nat) :
    Src.u32.from_index s = some (C12.tokenSpec s) ∧
    (∀ r, Src.Five.try_from s = some r → ((∃ e, r = Except.error e) ↔ (tokens s).length < 5)) ∧
    ((tokens s).length ≥ 7 → Src.Seven.try_from s = some (Except.ok (((tokens s).take 7).map C12.tokenSpec))) ∧
    Src.parse.five_from_index s = some (parseHand 5 s) := by
  refine ⟨(u32_from_index s).trans (congrArg some (C12.C12_token s)), ?_, ?_, parse_five_from_index s⟩
  · intro r hr
    rw [Five_try_from] at hr
    cases hp : parseHand 5 s with
    | none =>
      rw [hp] at hr; cases hr
      exact ⟨fun _ => ((C12.C12_hand 5 s).1).mp hp, fun _ => ⟨6, rfl⟩⟩
    | some hnd =>
      rw [hp] at hr; cases hr
      constructor
      · rintro ⟨e, he⟩; cases he
      · intro hlt
        have := ((C12.C12_hand 5 s).1).mpr hlt
        rw [hp] at this; cases this
  · intro hge
    rw [Seven_try_from, ((C12.C12_hand 7 s).2) hge]

end Tie

/-! ## axiom audit (written by tools/tie.py --audit) -/
#print axioms Tie.C01_source
#print axioms Tie.srcValue_eq
#print axioms Tie.C02_source
#print axioms Tie.C04_source
#print axioms Tie.C05_source
#print axioms Tie.C12_source
