import CkcVerif.Tie.TwoCard
import CkcVerif.Spec.Layout
import CkcVerif.Props.C17
import CkcVerif.Props.C10
/-!
# Source tie: the Chen score (`get_chen_points`, `chen_formula`)

`f32` is translated as exact multiples of 1/256 (see the prelude of `Generated/Src.lean`); the model works in half-points.
`get_chen_points` is tied for every word; `chen_formula` for every ordered pair of the 52 cards (the property's domain).
-/
namespace Tie
open CK Spec

/-- the translated point table, as a function of the rank discriminant -/
def chenOfRank (r : Nat) : Option Int :=
  if (r == 14) then some (2560 : Int)
  else if (r == 13) then some (2048 : Int)
  else if (r == 12) then some (1792 : Int)
  else if (r == 11) then some (1536 : Int)
  else if (r == 0) then some (0 : Int)
  else Option.bind (Src.fdiv ((r : Int) * 256) (512 : Int)) fun t3_ => some t3_

def chenChk : Bool := (List.range 8192).all fun m =>
  chenOfRank (get 8 Gen.rankFieldRankP m) == some (128 * (get 8 Gen.rankFieldChen2P m : Int))
theorem chenChk_ok : chenChk = true := by decide +kernel

theorem u32_get_chen_points (w : Nat) : Src.u32.get_chen_points w = some (128 * (getChenPoints2 w : Int)) := by
  have h := List.all_eq_true.mp chenChk_ok (rankIdx w) (List.mem_range.mpr (rankIdx_lt w))
  simp only [Src.u32.get_chen_points, u32_get_card_rank, Option.bind]
  have : chenOfRank (getCardRank w) = some (128 * (getChenPoints2 w : Int)) := by simpa [getCardRank, getChenPoints2] using h
  exact this

/-- every ordered pair of cards: the translated formula (exact fixed-point arithmetic, `ceil`, saturating cast) gives the
    model's score, including the panic of `get_gap`'s `u8` subtraction where the model has `none` -/
def chenPairsChk : Bool := deckWords.all fun a => deckWords.all fun b =>
  Src.Two.chen_formula [a, b] == chenFormula a b
theorem chenPairsChk_ok : chenPairsChk = true := by decide +kernel
theorem Two_chen_formula (a b : Nat) (ha : a ∈ deckWords) (hb : b ∈ deckWords) :
    Src.Two.chen_formula [a, b] = chenFormula a b := by
  have := List.all_eq_true.mp (List.all_eq_true.mp chenPairsChk_ok a ha) b hb
  simpa using this

/-- C17 for the source: the translated `chen_formula` of any two distinct real cards, in either slot order, is Chen's
    formula of the higher rank, the lower rank and suitedness -/
theorem C17_source (c d : Card) (hc : c.ok) (hd : d.ok) (hne : c ≠ d) :
    Src.Two.chen_formula [c.word, d.word]
      = some (chenSpec (max c.rank d.rank + 2) (min c.rank d.rank + 2) (c.suit == d.suit)) := by
  have mem : ∀ r < 13, ∀ s < 4, word r s ∈ deckWords := by decide
  have hcw : c.word ∈ deckWords := mem c.rank hc.1 c.suit hc.2
  have hdw : d.word ∈ deckWords := mem d.rank hd.1 d.suit hd.2
  rw [Two_chen_formula _ _ hcw hdw]
  exact C17.C17_score c d hc hd hne

end Tie

/-! ## axiom audit (written by tools/tie.py --audit) -/
#print axioms Tie.chenChk_ok
#print axioms Tie.u32_get_chen_points
#print axioms Tie.chenPairsChk_ok
#print axioms Tie.Two_chen_formula
#print axioms Tie.C17_source
