import CkcVerif.Tie.Five
import CkcVerif.Tie.Card
/-!
# Source tie: validators, sorting, validated ranking (`src/cards/mod.rs`, `five.rs`, `six.rs`, `seven.rs`)
-/
namespace Tie
open CK

theorem anyM_pure {α : Type} (l : List α) (f : α → Bool) : Src.anyM l (fun c => some (f c)) = some (l.any f) := by
  induction l with
  | nil => rfl
  | cons x xs ih =>
    simp only [Src.anyM, List.any_cons]
    cases f x <;> simp [ih]

theorem Five_are_unique (a b c d e : Nat) :
    Src.Five.are_unique [a, b, c, d, e] = some (areUnique [a, b, c, d, e]) := by
  simp [Src.Five.are_unique, Src.anyM, Src.sliceFrom, Src.sub, areUnique, List.range', Option.bind]
  generalize decide (a = b) = p1; generalize decide (a = c) = p2; generalize decide (a = d) = p3
  generalize decide (a = e) = p4; generalize decide (b = c) = p5; generalize decide (b = d) = p6
  generalize decide (b = e) = p7; generalize decide (c = d) = p8; generalize decide (c = e) = p9
  generalize decide (d = e) = p10
  cases p1 <;> cases p2 <;> cases p3 <;> cases p4 <;> cases p5 <;> cases p6 <;> cases p7 <;> cases p8 <;> cases p9 <;>
    cases p10 <;> rfl

/-- `is_corrupt`, any size -/
theorem is_corrupt_any (ws : List Nat) :
    (Option.bind (Src.anyM ws fun c => Option.bind (Src.CardNumber.filter c) fun t1_ => some (t1_ == Src.CardNumber.BLANK))
      fun t2_ => some t2_) = some (isCorrupt ws) := by
  have : (fun c => Option.bind (Src.CardNumber.filter c) fun t1_ => some (t1_ == Src.CardNumber.BLANK)) =
      fun c => some (filter c == Gen.blank) := by
    funext c; simp only [CardNumber_filter, Option.bind, c_BLANK]
  rw [this, anyM_pure]; rfl

theorem Five_is_corrupt (ws : List Nat) : Src.Five.is_corrupt ws = some (isCorrupt ws) := is_corrupt_any ws
theorem Six_is_corrupt (ws : List Nat) : Src.Six.is_corrupt ws = some (isCorrupt ws) := is_corrupt_any ws
theorem Seven_is_corrupt (ws : List Nat) : Src.Seven.is_corrupt ws = some (isCorrupt ws) := is_corrupt_any ws
theorem Two_is_corrupt (ws : List Nat) : Src.Two.is_corrupt ws = some (isCorrupt ws) := is_corrupt_any ws
theorem Three_is_corrupt (ws : List Nat) : Src.Three.is_corrupt ws = some (isCorrupt ws) := is_corrupt_any ws
theorem Four_is_corrupt (ws : List Nat) : Src.Four.is_corrupt ws = some (isCorrupt ws) := is_corrupt_any ws

theorem contain_blank_any (ws : List Nat) :
    (Option.bind (Src.anyM ws fun c => some (c == Src.CardNumber.BLANK)) fun t1_ => some t1_) = some (containBlank ws) := by
  rw [anyM_pure]; simp only [Option.bind, c_BLANK]; rfl
theorem Five_contain_blank (ws : List Nat) : Src.Five.contain_blank ws = some (containBlank ws) := contain_blank_any ws
theorem Six_contain_blank (ws : List Nat) : Src.Six.contain_blank ws = some (containBlank ws) := contain_blank_any ws
theorem Seven_contain_blank (ws : List Nat) : Src.Seven.contain_blank ws = some (containBlank ws) := contain_blank_any ws

theorem sortAsc_reverse (ws : List Nat) : List.reverse (Src.sortAsc ws) = sortDesc ws := by
  simp [Src.sortAsc]

theorem Five_sort_in_place (ws : List Nat) : Src.Five.sort_in_place ws = some (sortDesc ws) := by
  simp only [Src.Five.sort_in_place, sortAsc_reverse]
theorem Five_sort (ws : List Nat) : Src.Five.sort ws = some (sortDesc ws) := by
  simp only [Src.Five.sort, Five_sort_in_place, Option.bind]
theorem Six_sort (ws : List Nat) : Src.Six.sort ws = some (sortDesc ws) := by
  simp only [Src.Six.sort, Src.Six.sort_in_place, sortAsc_reverse, Option.bind]
theorem Seven_sort (ws : List Nat) : Src.Seven.sort ws = some (sortDesc ws) := by
  simp only [Src.Seven.sort, Src.Seven.sort_in_place, sortAsc_reverse, Option.bind]
theorem Two_sort (ws : List Nat) : Src.Two.sort ws = some (sortDesc ws) := by
  simp only [Src.Two.sort, Src.Two.sort_in_place, sortAsc_reverse, Option.bind]
theorem Three_sort (ws : List Nat) : Src.Three.sort ws = some (sortDesc ws) := by
  simp only [Src.Three.sort, Src.Three.sort_in_place, sortAsc_reverse, Option.bind]
theorem Four_sort (ws : List Nat) : Src.Four.sort ws = some (sortDesc ws) := by
  simp only [Src.Four.sort, Src.Four.sort_in_place, sortAsc_reverse, Option.bind]

/-- the duplicate scan of `Six` / `Seven::are_unique` over the sorted copy -/
theorem scan_loop : ∀ (l : List Nat) (last : Nat),
    (Option.bind (Src.forList (ρ := Bool) l last fun last c =>
        if (decide (c ≥ last)) then some (Src.Ctl.ret false)
        else
          let last := c
          some (Src.Ctl.next last)) fun r2_ =>
      match r2_ with
      | Src.Out.ret v3_ => some v3_
      | Src.Out.done last => some true) = some (scan last l) := by
  intro l
  induction l with
  | nil => intro last; rfl
  | cons c cs ih =>
    intro last
    unfold Src.forList scan
    by_cases h : c ≥ last
    · simp [h]
    · simp only [h, decide_false, Bool.false_eq_true, if_false]
      exact ih c

theorem Six_are_unique (a b c d e f : Nat) :
    Src.Six.are_unique [a, b, c, d, e, f] = some (areUnique [a, b, c, d, e, f]) := by
  simp only [Src.Six.are_unique, Six_sort, Option.bind]
  exact scan_loop _ _
theorem Seven_are_unique (a b c d e f g : Nat) :
    Src.Seven.are_unique [a, b, c, d, e, f, g] = some (areUnique [a, b, c, d, e, f, g]) := by
  simp only [Src.Seven.are_unique, Seven_sort, Option.bind]
  exact scan_loop _ _

theorem Five_is_valid (a b c d e : Nat) : Src.Five.is_valid [a, b, c, d, e] = some (isValid [a, b, c, d, e]) := by
  simp only [Src.Five.is_valid, Five_are_unique, Five_is_corrupt, Option.bind, isValid]
  cases areUnique [a, b, c, d, e] <;> simp
theorem Six_is_valid (a b c d e f : Nat) :
    Src.Six.is_valid [a, b, c, d, e, f] = some (isValid [a, b, c, d, e, f]) := by
  simp only [Src.Six.is_valid, Six_are_unique, Six_is_corrupt, Option.bind, isValid]
  cases areUnique [a, b, c, d, e, f] <;> simp
theorem Seven_is_valid (a b c d e f g : Nat) :
    Src.Seven.is_valid [a, b, c, d, e, f, g] = some (isValid [a, b, c, d, e, f, g]) := by
  simp only [Src.Seven.is_valid, Seven_are_unique, Seven_is_corrupt, Option.bind, isValid]
  cases areUnique [a, b, c, d, e, f, g] <;> simp

theorem Five_hand_rank_value_validated (a b c d e : Nat) :
    Src.Five.hand_rank_value_validated 14 [a, b, c, d, e] = handRankValueValidated5 packed [a, b, c, d, e] := by
  simp only [Src.Five.hand_rank_value_validated, Five_is_valid, Five_hand_rank_value, Option.bind, handRankValueValidated5,
    c_NO_HRV]
  cases isValid [a, b, c, d, e]
  · simp
  · simp only [Bool.not_true, Bool.false_eq_true, if_false]
    cases handRankValue5 packed [a, b, c, d, e] <;> rfl

theorem evaluate_five_cards (a b c d e : Nat) :
    Src.evaluate.five_cards 14 [a, b, c, d, e] = fiveCards packed [a, b, c, d, e] := by
  simp only [Src.evaluate.five_cards, Src.Five.from, Five_hand_rank_value_validated, Option.bind, fiveCards]
  cases handRankValueValidated5 packed [a, b, c, d, e] <;> rfl
theorem evaluate_is_flush (a b c d e : Nat) :
    Src.evaluate.is_flush [a, b, c, d, e] = some (evaluateIsFlush [a, b, c, d, e]) := rfl
theorem evaluate_or_rank_bits (a b c d e : Nat) :
    Src.evaluate.or_rank_bits [a, b, c, d, e] = some (evaluateOrRankBits [a, b, c, d, e]) := rfl

end Tie

/-! ## axiom audit (written by tools/tie.py --audit) -/
#print axioms Tie.anyM_pure
#print axioms Tie.Five_are_unique
#print axioms Tie.is_corrupt_any
#print axioms Tie.Five_is_corrupt
#print axioms Tie.Six_is_corrupt
#print axioms Tie.Seven_is_corrupt
#print axioms Tie.Two_is_corrupt
#print axioms Tie.Three_is_corrupt
#print axioms Tie.Four_is_corrupt
#print axioms Tie.contain_blank_any
#print axioms Tie.Five_contain_blank
#print axioms Tie.Six_contain_blank
#print axioms Tie.Seven_contain_blank
#print axioms Tie.sortAsc_reverse
#print axioms Tie.Five_sort_in_place
#print axioms Tie.Five_sort
#print axioms Tie.Six_sort
#print axioms Tie.Seven_sort
#print axioms Tie.Two_sort
#print axioms Tie.Three_sort
#print axioms Tie.Four_sort
#print axioms Tie.scan_loop
#print axioms Tie.Six_are_unique
#print axioms Tie.Seven_are_unique
#print axioms Tie.Five_is_valid
#print axioms Tie.Six_is_valid
#print axioms Tie.Seven_is_valid
#print axioms Tie.Five_hand_rank_value_validated
#print axioms Tie.evaluate_five_cards
#print axioms Tie.evaluate_is_flush
#print axioms Tie.evaluate_or_rank_bits
