import CkcVerif.Tie.Hand
import CkcVerif.Model.HandRank
import CkcVerif.Model.BitCard
import CkcVerif.Model.Two
import CkcVerif.Model.Containers
/-!
# Source tie: hand-rank comparison, 64-bit card sets, containers, two-card helpers
-/
namespace Tie
open CK

/-! ### `impl Ord for HandRank` (`src/hand_rank.rs`) -/
def toModel (r : Src.HandRank) : CK.HandRank := ⟨r.value, r.name, r.class_⟩

theorem c_nameInvalid : (9 : Nat) = Gen.nameInvalid := by decide

theorem HandRank_is_invalid (r : Src.HandRank) : Src.HandRank.is_invalid r = some ((toModel r).isInvalid) := by
  simp only [Src.HandRank.is_invalid, HandRank.isInvalid, toModel, ← c_nameInvalid]

theorem HandRank_cmp (a b : Src.HandRank) : Src.HandRank.cmp a b = some ((toModel a).cmp (toModel b)) := by
  simp only [Src.HandRank.cmp, HandRank_is_invalid, Option.bind, HandRank.cmp]
  cases (toModel a).isInvalid <;> cases (toModel b).isInvalid <;> simp [toModel] <;>
    (by_cases h1 : a.value < b.value <;> by_cases h2 : a.value > b.value <;> simp [h1, h2])

/-! ### 64-bit card sets (`src/cards/binary_card.rs`) -/
theorem c_bc : Src.BC64.BLANK = Gen.bcBlank ∧ Src.BC64.OVERFLOW = Gen.bcOverflow ∧ Src.BC64.DECK = Gen.bitDeck := by decide

theorem u64_fold_in (x bc : Nat) : Src.u64.fold_in x bc = some (foldIn x bc) := rfl
theorem u64_has (x c : Nat) : Src.u64.has x c = some (has x c) := rfl
theorem u64_number_of_cards (x : Nat) : Src.u64.number_of_cards x = some (numberOfCards x) := rfl
theorem u64_is_single_card (x : Nat) : Src.u64.is_single_card x = some (isSingleCard x) := rfl
theorem u64_is_valid (x : Nat) : Src.u64.is_valid x = some (bcIsValid x) := by
  simp only [Src.u64.is_valid, Src.u64.as_u64, u64_number_of_cards, Option.bind, bcIsValid, c_bc.1, c_bc.2.1]
  cases (x != Gen.bcBlank) <;> simp

/-- the translated `for bc in DECK` loop of `peel` is `find?` over the deck -/
theorem peel_loop : ∀ (deck : List Nat) (x : Nat),
    (Option.bind (Src.forList (ρ := (Nat × Nat)) deck x fun self_ bc =>
        if ((self_ &&& bc) == bc) then
          let self_ := (self_ ^^^ bc)
          some (Src.Ctl.ret (bc, self_))
        else
          some (Src.Ctl.next self_)) fun r1_ =>
      match r1_ with
      | Src.Out.ret v2_ => some v2_
      | Src.Out.done self_ => some (Src.BC64.BLANK, self_))
    = some ((peelWith deck x).2, (peelWith deck x).1) := by
  intro deck
  induction deck with
  | nil => intro x; simp [Src.forList, peelWith, Option.bind, c_bc.1]
  | cons b bs ih =>
    intro x
    unfold Src.forList
    by_cases h : ((x &&& b) == b) = true
    · simp [h, peelWith, has, Option.bind]
    · have h' : ((x &&& b) == b) = false := by simpa using h
      simp only [h', Bool.false_eq_true, if_false]
      rw [ih x]
      simp [peelWith, has, h', List.find?]

theorem u64_peel (x : Nat) : Src.u64.peel x = some ((peel x).2, (peel x).1) := by
  unfold Src.u64.peel peel
  rw [c_bc.2.2]
  exact peel_loop Gen.bitDeck x

theorem u64_from_two (a b : Nat) : Src.u64.from_two [a, b] = some (bcFromHand [a, b]) := by
  simp [Src.u64.from_two, Src.Two.first, Src.Two.second, u64_from_ckc, Option.bind, bcFromHand]
theorem u64_from_three (a b c : Nat) : Src.u64.from_three [a, b, c] = some (bcFromHand [a, b, c]) := by
  simp [Src.u64.from_three, Src.Three.first, Src.Three.second, Src.Three.third, u64_from_ckc, Option.bind, bcFromHand]
theorem u64_from_four (a b c d : Nat) : Src.u64.from_four [a, b, c, d] = some (bcFromHand [a, b, c, d]) := by
  simp [Src.u64.from_four, Src.Four.first, Src.Four.second, Src.Four.third, Src.Four.forth, u64_from_ckc, Option.bind, bcFromHand]
theorem u64_from_five (a b c d e : Nat) : Src.u64.from_five [a, b, c, d, e] = some (bcFromHand [a, b, c, d, e]) := by
  simp [Src.u64.from_five, Src.Five.first, Src.Five.second, Src.Five.third, Src.Five.forth, Src.Five.fifth, u64_from_ckc,
    Option.bind, bcFromHand]
theorem u64_from_six (a b c d e f : Nat) : Src.u64.from_six [a, b, c, d, e, f] = some (bcFromHand [a, b, c, d, e, f]) := by
  simp [Src.u64.from_six, Src.Six.first, Src.Six.second, Src.Six.third, Src.Six.forth, Src.Six.fifth, Src.Six.sixth,
    u64_from_ckc, Option.bind, bcFromHand]
theorem u64_from_seven (a b c d e f g : Nat) :
    Src.u64.from_seven [a, b, c, d, e, f, g] = some (bcFromHand [a, b, c, d, e, f, g]) := by
  simp [Src.u64.from_seven, Src.Seven.first, Src.Seven.second, Src.Seven.third, Src.Seven.forth, Src.Seven.fifth,
    Src.Seven.sixth, Src.Seven.seventh, u64_from_ckc, Option.bind, bcFromHand]

/-! ### suit shift of the containers -/
theorem Two_shift_suit (a b : Nat) : Src.Two.shift_suit [a, b] = some (shiftSuitHand [a, b]) := by
  simp [Src.Two.shift_suit, Src.Two.new, Src.Two.first, Src.Two.second, u32_shift_suit, Option.bind, shiftSuitHand]
theorem Three_shift_suit (a b c : Nat) : Src.Three.shift_suit [a, b, c] = some (shiftSuitHand [a, b, c]) := by
  simp [Src.Three.shift_suit, Src.Three.first, Src.Three.second, Src.Three.third, u32_shift_suit, Option.bind, shiftSuitHand]
theorem Four_shift_suit (a b c d : Nat) : Src.Four.shift_suit [a, b, c, d] = some (shiftSuitHand [a, b, c, d]) := by
  simp [Src.Four.shift_suit, Src.Four.first, Src.Four.second, Src.Four.third, Src.Four.forth, u32_shift_suit, Option.bind,
    shiftSuitHand]
theorem Five_shift_suit (a b c d e : Nat) : Src.Five.shift_suit [a, b, c, d, e] = some (shiftSuitHand [a, b, c, d, e]) := by
  simp [Src.Five.shift_suit, Src.Five.first, Src.Five.second, Src.Five.third, Src.Five.forth, Src.Five.fifth, u32_shift_suit,
    Option.bind, shiftSuitHand]
theorem Six_shift_suit (a b c d e f : Nat) :
    Src.Six.shift_suit [a, b, c, d, e, f] = some (shiftSuitHand [a, b, c, d, e, f]) := by
  simp [Src.Six.shift_suit, Src.Six.first, Src.Six.second, Src.Six.third, Src.Six.forth, Src.Six.fifth, Src.Six.sixth,
    u32_shift_suit, Option.bind, shiftSuitHand]
theorem Seven_shift_suit (a b c d e f g : Nat) :
    Src.Seven.shift_suit [a, b, c, d, e, f, g] = some (shiftSuitHand [a, b, c, d, e, f, g]) := by
  simp [Src.Seven.shift_suit, Src.Seven.first, Src.Seven.second, Src.Seven.third, Src.Seven.forth, Src.Seven.fifth,
    Src.Seven.sixth, Src.Seven.seventh, u32_shift_suit, Option.bind, shiftSuitHand]

/-! ### small validators and two-card helpers -/
theorem Two_are_unique (a b : Nat) : Src.Two.are_unique [a, b] = some (areUnique [a, b]) := rfl
theorem Three_are_unique (a b c : Nat) : Src.Three.are_unique [a, b, c] = some (areUnique [a, b, c]) := by
  simp only [Src.Three.are_unique, Src.Three.first, Src.Three.second, Src.Three.third, Option.bind, areUnique,
    List.getD_cons_zero, List.getD_cons_succ]
  generalize (a != b) = p1; generalize (a != c) = p2; generalize (b != c) = p3
  cases p1 <;> cases p2 <;> cases p3 <;> rfl
theorem Four_are_unique (a b c d : Nat) : Src.Four.are_unique [a, b, c, d] = some (areUnique [a, b, c, d]) := by
  simp only [Src.Four.are_unique, Src.Four.first, Src.Four.second, Src.Four.third, Src.Four.forth, Option.bind, areUnique,
    List.getD_cons_zero, List.getD_cons_succ]
  generalize (a != b) = p1; generalize (a != c) = p2; generalize (a != d) = p3
  generalize (b != c) = p4; generalize (b != d) = p5; generalize (c != d) = p6
  cases p1 <;> cases p2 <;> cases p3 <;> cases p4 <;> cases p5 <;> cases p6 <;> rfl
theorem Two_is_valid (a b : Nat) : Src.Two.is_valid [a, b] = some (isValid [a, b]) := by
  simp only [Src.Two.is_valid, Two_are_unique, Two_is_corrupt, Option.bind, isValid]
  cases areUnique [a, b] <;> simp
theorem Two_high_card (a b : Nat) : Src.Two.high_card [a, b] = some (highCard a b) := rfl
theorem Two_is_pocket_pair (a b : Nat) : Src.Two.is_pocket_pair [a, b] = some (isPocketPair a b) := by
  simp [Src.Two.is_pocket_pair, Src.Two.first, Src.Two.second, u32_get_card_rank, Option.bind, isPocketPair]
theorem Two_is_suited (a b : Nat) : Src.Two.is_suited [a, b] = some (isSuited a b) := by
  simp [Src.Two.is_suited, Src.Two.first, Src.Two.second, u32_get_card_suit, Option.bind, isSuited]

/-! ### containers: constructors, accessors, setters -/
theorem Six_from_1_and_2_and_3 (o a b c d e : Nat) :
    Src.Six.from_1_and_2_and_3 o [a, b] [c, d, e] = some (six123 o [a, b] [c, d, e]) := rfl
theorem Seven_new (a b c d e f g : Nat) : Src.Seven.new [a, b] [c, d, e, f, g] = some (sevenNew [a, b] [c, d, e, f, g]) := rfl
theorem Five_set_third (ws : List Nat) (x : Nat) : Src.Five.set_third ws x = some (applyOp ws (.set 2 x)) := rfl
theorem Seven_set_seventh (ws : List Nat) (x : Nat) : Src.Seven.set_seventh ws x = some (applyOp ws (.set 6 x)) := rfl

end Tie

/-! ## axiom audit (written by tools/tie.py --audit) -/
#print axioms Tie.c_nameInvalid
#print axioms Tie.HandRank_is_invalid
#print axioms Tie.HandRank_cmp
#print axioms Tie.c_bc
#print axioms Tie.u64_fold_in
#print axioms Tie.u64_has
#print axioms Tie.u64_number_of_cards
#print axioms Tie.u64_is_single_card
#print axioms Tie.u64_is_valid
#print axioms Tie.peel_loop
#print axioms Tie.u64_peel
#print axioms Tie.u64_from_two
#print axioms Tie.u64_from_three
#print axioms Tie.u64_from_four
#print axioms Tie.u64_from_five
#print axioms Tie.u64_from_six
#print axioms Tie.u64_from_seven
#print axioms Tie.Two_shift_suit
#print axioms Tie.Three_shift_suit
#print axioms Tie.Four_shift_suit
#print axioms Tie.Five_shift_suit
#print axioms Tie.Six_shift_suit
#print axioms Tie.Seven_shift_suit
#print axioms Tie.Two_are_unique
#print axioms Tie.Three_are_unique
#print axioms Tie.Four_are_unique
#print axioms Tie.Two_is_valid
#print axioms Tie.Two_high_card
#print axioms Tie.Two_is_pocket_pair
#print axioms Tie.Two_is_suited
#print axioms Tie.Six_from_1_and_2_and_3
#print axioms Tie.Seven_new
#print axioms Tie.Five_set_third
#print axioms Tie.Seven_set_seventh
