import CkcVerif.Tie.Misc
/-!
# Source tie: constructors, accessors, setters, array views of the six containers (property C19's mechanism)

Accessor `k` reads slot `k`, setter `k` writes slot `k` and nothing else (`List.set`), `to_arr` / `From` are the identity on
the slot list — for the *current text* of each of these functions, and for every slot list.
-/
namespace Tie
open CK

theorem Two_first (a b : Nat) : Src.Two.first [a, b] = some a := rfl
theorem Two_set_first (ws : List Nat) (x : Nat) : Src.Two.set_first ws x = some (applyOp ws (.set 0 x)) := rfl
theorem Two_second (a b : Nat) : Src.Two.second [a, b] = some b := rfl
theorem Two_set_second (ws : List Nat) (x : Nat) : Src.Two.set_second ws x = some (applyOp ws (.set 1 x)) := rfl
theorem Two_to_arr (ws : List Nat) : Src.Two.to_arr ws = some ws := rfl
theorem Two_from (ws : List Nat) : Src.Two.from ws = some ws := rfl
theorem Two_sort_in_place (ws : List Nat) : Src.Two.sort_in_place ws = some (sortDesc ws) := by
  simp only [Src.Two.sort_in_place, sortAsc_reverse]
theorem Two_contain_blank (ws : List Nat) : Src.Two.contain_blank ws = some (containBlank ws) := contain_blank_any ws
theorem Three_first (a b c : Nat) : Src.Three.first [a, b, c] = some a := rfl
theorem Three_set_first (ws : List Nat) (x : Nat) : Src.Three.set_first ws x = some (applyOp ws (.set 0 x)) := rfl
theorem Three_second (a b c : Nat) : Src.Three.second [a, b, c] = some b := rfl
theorem Three_set_second (ws : List Nat) (x : Nat) : Src.Three.set_second ws x = some (applyOp ws (.set 1 x)) := rfl
theorem Three_third (a b c : Nat) : Src.Three.third [a, b, c] = some c := rfl
theorem Three_set_third (ws : List Nat) (x : Nat) : Src.Three.set_third ws x = some (applyOp ws (.set 2 x)) := rfl
theorem Three_to_arr (ws : List Nat) : Src.Three.to_arr ws = some ws := rfl
theorem Three_from (ws : List Nat) : Src.Three.from ws = some ws := rfl
theorem Three_sort_in_place (ws : List Nat) : Src.Three.sort_in_place ws = some (sortDesc ws) := by
  simp only [Src.Three.sort_in_place, sortAsc_reverse]
theorem Three_contain_blank (ws : List Nat) : Src.Three.contain_blank ws = some (containBlank ws) := contain_blank_any ws
theorem Four_first (a b c d : Nat) : Src.Four.first [a, b, c, d] = some a := rfl
theorem Four_set_first (ws : List Nat) (x : Nat) : Src.Four.set_first ws x = some (applyOp ws (.set 0 x)) := rfl
theorem Four_second (a b c d : Nat) : Src.Four.second [a, b, c, d] = some b := rfl
theorem Four_set_second (ws : List Nat) (x : Nat) : Src.Four.set_second ws x = some (applyOp ws (.set 1 x)) := rfl
theorem Four_third (a b c d : Nat) : Src.Four.third [a, b, c, d] = some c := rfl
theorem Four_set_third (ws : List Nat) (x : Nat) : Src.Four.set_third ws x = some (applyOp ws (.set 2 x)) := rfl
theorem Four_forth (a b c d : Nat) : Src.Four.forth [a, b, c, d] = some d := rfl
theorem Four_set_forth (ws : List Nat) (x : Nat) : Src.Four.set_forth ws x = some (applyOp ws (.set 3 x)) := rfl
theorem Four_to_arr (ws : List Nat) : Src.Four.to_arr ws = some ws := rfl
theorem Four_from (ws : List Nat) : Src.Four.from ws = some ws := rfl
theorem Four_sort_in_place (ws : List Nat) : Src.Four.sort_in_place ws = some (sortDesc ws) := by
  simp only [Src.Four.sort_in_place, sortAsc_reverse]
theorem Four_contain_blank (ws : List Nat) : Src.Four.contain_blank ws = some (containBlank ws) := contain_blank_any ws
theorem Five_set_first (ws : List Nat) (x : Nat) : Src.Five.set_first ws x = some (applyOp ws (.set 0 x)) := rfl
theorem Five_set_second (ws : List Nat) (x : Nat) : Src.Five.set_second ws x = some (applyOp ws (.set 1 x)) := rfl
theorem Five_set_forth (ws : List Nat) (x : Nat) : Src.Five.set_forth ws x = some (applyOp ws (.set 3 x)) := rfl
theorem Five_set_fifth (ws : List Nat) (x : Nat) : Src.Five.set_fifth ws x = some (applyOp ws (.set 4 x)) := rfl
theorem Five_to_arr (ws : List Nat) : Src.Five.to_arr ws = some ws := rfl
theorem Five_from (ws : List Nat) : Src.Five.from ws = some ws := rfl
theorem Six_first (a b c d e f : Nat) : Src.Six.first [a, b, c, d, e, f] = some a := rfl
theorem Six_set_first (ws : List Nat) (x : Nat) : Src.Six.set_first ws x = some (applyOp ws (.set 0 x)) := rfl
theorem Six_second (a b c d e f : Nat) : Src.Six.second [a, b, c, d, e, f] = some b := rfl
theorem Six_set_second (ws : List Nat) (x : Nat) : Src.Six.set_second ws x = some (applyOp ws (.set 1 x)) := rfl
theorem Six_third (a b c d e f : Nat) : Src.Six.third [a, b, c, d, e, f] = some c := rfl
theorem Six_set_third (ws : List Nat) (x : Nat) : Src.Six.set_third ws x = some (applyOp ws (.set 2 x)) := rfl
theorem Six_forth (a b c d e f : Nat) : Src.Six.forth [a, b, c, d, e, f] = some d := rfl
theorem Six_set_forth (ws : List Nat) (x : Nat) : Src.Six.set_forth ws x = some (applyOp ws (.set 3 x)) := rfl
theorem Six_fifth (a b c d e f : Nat) : Src.Six.fifth [a, b, c, d, e, f] = some e := rfl
theorem Six_set_fifth (ws : List Nat) (x : Nat) : Src.Six.set_fifth ws x = some (applyOp ws (.set 4 x)) := rfl
theorem Six_sixth (a b c d e f : Nat) : Src.Six.sixth [a, b, c, d, e, f] = some f := rfl
theorem Six_set_sixth (ws : List Nat) (x : Nat) : Src.Six.set_sixth ws x = some (applyOp ws (.set 5 x)) := rfl
theorem Six_to_arr (ws : List Nat) : Src.Six.to_arr ws = some ws := rfl
theorem Six_from (ws : List Nat) : Src.Six.from ws = some ws := rfl
theorem Six_sort_in_place (ws : List Nat) : Src.Six.sort_in_place ws = some (sortDesc ws) := by
  simp only [Src.Six.sort_in_place, sortAsc_reverse]
theorem Seven_first (a b c d e f g : Nat) : Src.Seven.first [a, b, c, d, e, f, g] = some a := rfl
theorem Seven_set_first (ws : List Nat) (x : Nat) : Src.Seven.set_first ws x = some (applyOp ws (.set 0 x)) := rfl
theorem Seven_second (a b c d e f g : Nat) : Src.Seven.second [a, b, c, d, e, f, g] = some b := rfl
theorem Seven_set_second (ws : List Nat) (x : Nat) : Src.Seven.set_second ws x = some (applyOp ws (.set 1 x)) := rfl
theorem Seven_third (a b c d e f g : Nat) : Src.Seven.third [a, b, c, d, e, f, g] = some c := rfl
theorem Seven_set_third (ws : List Nat) (x : Nat) : Src.Seven.set_third ws x = some (applyOp ws (.set 2 x)) := rfl
theorem Seven_forth (a b c d e f g : Nat) : Src.Seven.forth [a, b, c, d, e, f, g] = some d := rfl
theorem Seven_set_forth (ws : List Nat) (x : Nat) : Src.Seven.set_forth ws x = some (applyOp ws (.set 3 x)) := rfl
theorem Seven_fifth (a b c d e f g : Nat) : Src.Seven.fifth [a, b, c, d, e, f, g] = some e := rfl
theorem Seven_set_fifth (ws : List Nat) (x : Nat) : Src.Seven.set_fifth ws x = some (applyOp ws (.set 4 x)) := rfl
theorem Seven_sixth (a b c d e f g : Nat) : Src.Seven.sixth [a, b, c, d, e, f, g] = some f := rfl
theorem Seven_set_sixth (ws : List Nat) (x : Nat) : Src.Seven.set_sixth ws x = some (applyOp ws (.set 5 x)) := rfl
theorem Seven_seventh (a b c d e f g : Nat) : Src.Seven.seventh [a, b, c, d, e, f, g] = some g := rfl
theorem Seven_to_arr (ws : List Nat) : Src.Seven.to_arr ws = some ws := rfl
theorem Seven_from (ws : List Nat) : Src.Seven.from ws = some ws := rfl
theorem Seven_sort_in_place (ws : List Nat) : Src.Seven.sort_in_place ws = some (sortDesc ws) := by
  simp only [Src.Seven.sort_in_place, sortAsc_reverse]
theorem Three_is_valid (a b c : Nat) : Src.Three.is_valid [a, b, c] = some (isValid [a, b, c]) := by
  simp only [Src.Three.is_valid, Three_are_unique, Three_is_corrupt, Option.bind, isValid]
  cases areUnique [a, b, c] <;> simp
theorem Four_is_valid (a b c d : Nat) : Src.Four.is_valid [a, b, c, d] = some (isValid [a, b, c, d]) := by
  simp only [Src.Four.is_valid, Four_are_unique, Four_is_corrupt, Option.bind, isValid]
  cases areUnique [a, b, c, d] <;> simp
theorem Two_new (a b : Nat) : Src.Two.new a b = some [a, b] := rfl
theorem Five_new (a b c d e : Nat) : Src.Five.new a b c d e = some [a, b, c, d, e] := rfl

theorem Two_iter (ws : List Nat) : Src.Two.iter ws = some ws := rfl
theorem Three_iter (ws : List Nat) : Src.Three.iter ws = some ws := rfl
theorem Four_iter (ws : List Nat) : Src.Four.iter ws = some ws := rfl
theorem Five_iter (ws : List Nat) : Src.Five.iter ws = some ws := rfl
theorem Six_iter (ws : List Nat) : Src.Six.iter ws = some ws := rfl
theorem Seven_iter (ws : List Nat) : Src.Seven.iter ws = some ws := rfl

end Tie

/-! ## axiom audit (written by tools/tie.py --audit) -/
#print axioms Tie.Two_first
#print axioms Tie.Two_set_first
#print axioms Tie.Two_second
#print axioms Tie.Two_set_second
#print axioms Tie.Two_to_arr
#print axioms Tie.Two_from
#print axioms Tie.Two_sort_in_place
#print axioms Tie.Two_contain_blank
#print axioms Tie.Three_first
#print axioms Tie.Three_set_first
#print axioms Tie.Three_second
#print axioms Tie.Three_set_second
#print axioms Tie.Three_third
#print axioms Tie.Three_set_third
#print axioms Tie.Three_to_arr
#print axioms Tie.Three_from
#print axioms Tie.Three_sort_in_place
#print axioms Tie.Three_contain_blank
#print axioms Tie.Four_first
#print axioms Tie.Four_set_first
#print axioms Tie.Four_second
#print axioms Tie.Four_set_second
#print axioms Tie.Four_third
#print axioms Tie.Four_set_third
#print axioms Tie.Four_forth
#print axioms Tie.Four_set_forth
#print axioms Tie.Four_to_arr
#print axioms Tie.Four_from
#print axioms Tie.Four_sort_in_place
#print axioms Tie.Four_contain_blank
#print axioms Tie.Five_set_first
#print axioms Tie.Five_set_second
#print axioms Tie.Five_set_forth
#print axioms Tie.Five_set_fifth
#print axioms Tie.Five_to_arr
#print axioms Tie.Five_from
#print axioms Tie.Six_first
#print axioms Tie.Six_set_first
#print axioms Tie.Six_second
#print axioms Tie.Six_set_second
#print axioms Tie.Six_third
#print axioms Tie.Six_set_third
#print axioms Tie.Six_forth
#print axioms Tie.Six_set_forth
#print axioms Tie.Six_fifth
#print axioms Tie.Six_set_fifth
#print axioms Tie.Six_sixth
#print axioms Tie.Six_set_sixth
#print axioms Tie.Six_to_arr
#print axioms Tie.Six_from
#print axioms Tie.Six_sort_in_place
#print axioms Tie.Seven_first
#print axioms Tie.Seven_set_first
#print axioms Tie.Seven_second
#print axioms Tie.Seven_set_second
#print axioms Tie.Seven_third
#print axioms Tie.Seven_set_third
#print axioms Tie.Seven_forth
#print axioms Tie.Seven_set_forth
#print axioms Tie.Seven_fifth
#print axioms Tie.Seven_set_fifth
#print axioms Tie.Seven_sixth
#print axioms Tie.Seven_set_sixth
#print axioms Tie.Seven_seventh
#print axioms Tie.Seven_to_arr
#print axioms Tie.Seven_from
#print axioms Tie.Seven_sort_in_place
#print axioms Tie.Three_is_valid
#print axioms Tie.Four_is_valid
#print axioms Tie.Two_new
#print axioms Tie.Five_new
#print axioms Tie.Two_iter
#print axioms Tie.Three_iter
#print axioms Tie.Four_iter
#print axioms Tie.Five_iter
#print axioms Tie.Six_iter
#print axioms Tie.Seven_iter
