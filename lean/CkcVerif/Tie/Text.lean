import CkcVerif.Tie.Misc
import CkcVerif.Model.Parse
/-!
# Source tie: text entry points (`src/parse.rs`, `from_char`, `from_index`, the `TryFrom<&str>` parsers)

Text is the list of its Unicode scalar values; `str::split_whitespace` and `str::chars` are `core` (modelled, not
verified: `CK.tokens` with the regenerated `char::is_whitespace` graph, and the list itself).
-/
namespace Tie
open CK

theorem CardRank_from_char (c : Nat) : Src.CardRank.from_char c = some (rankFromChar c) := by
  unfold Src.CardRank.from_char rankFromChar
  rw [matchTable_eq _ Gen.rankChars _ (by decide +kernel) (by decide +kernel)]; rfl
theorem CardSuit_from_char (c : Nat) : Src.CardSuit.from_char c = some (suitFromChar c) := by
  unfold Src.CardSuit.from_char suitFromChar
  rw [matchTable_eq _ Gen.suitChars _ (by decide +kernel) (by decide +kernel)]; rfl

theorem c_blanks : Gen.rankBlank = 0 ∧ Gen.suitBlank = 0 := by decide

theorem parse_get_rank_and_suit (s : List Nat) : Src.parse.get_rank_and_suit s = some (getRankAndSuit s) := by
  unfold Src.parse.get_rank_and_suit
  match s with
  | [] => simp [Src.iterNext, getRankAndSuit, c_blanks.1, c_blanks.2]
  | [r] => simp [Src.iterNext, getRankAndSuit, CardRank_from_char, Option.bind, c_blanks.1, c_blanks.2]
  | r :: t :: rest => simp [Src.iterNext, getRankAndSuit, CardRank_from_char, CardSuit_from_char, Option.bind]

theorem lookup_getD_mem {l : List (Nat × Nat)} {vals : List Nat} {d : Nat} (hd : d ∈ vals) (h : ∀ p ∈ l, p.2 ∈ vals) (w : Nat) :
    (l.lookup w).getD d ∈ vals := by
  induction l with
  | nil => simpa [List.lookup] using hd
  | cons p ps ih =>
    obtain ⟨a, b⟩ := p
    simp only [List.lookup]
    by_cases hw : w == a
    · simp only [hw]; exact h (a, b) (List.mem_cons_self ..)
    · simp only [hw]; exact ih (fun q hq => h q (List.mem_cons_of_mem _ hq))

theorem rankFromChar_mem (c : Nat) : rankFromChar c ∈ rankVals :=
  lookup_getD_mem (by decide) (by decide) c
theorem suitFromChar_mem (c : Nat) : suitFromChar c ∈ suitVals :=
  lookup_getD_mem (by decide) (by decide) c

theorem getRankAndSuit_mem (s : List Nat) : (getRankAndSuit s).1 ∈ rankVals ∧ (getRankAndSuit s).2 ∈ suitVals := by
  match s with
  | [] => exact ⟨by decide, by decide⟩
  | [r] => exact ⟨(by decide : Gen.rankBlank ∈ rankVals), (by decide : Gen.suitBlank ∈ suitVals)⟩
  | r :: t :: rest => exact ⟨rankFromChar_mem r, suitFromChar_mem t⟩

theorem u32_from_index (s : List Nat) : Src.u32.from_index s = some (fromIndex s) := by
  simp only [Src.u32.from_index, parse_get_rank_and_suit, Option.bind, fromIndex]
  rw [create_graph _ (getRankAndSuit_mem s).1 _ (getRankAndSuit_mem s).2]

/-- `BinaryCard::from_index`: the translated `for` loop is the fold over the tokens -/
theorem bc_body : (fun (bc : Nat) (s : List Nat) =>
      Option.bind (Src.u32.from_index s) fun t1_ =>
      Option.bind (Src.u64.from_ckc t1_) fun t2_ =>
      Option.bind (Src.u64.fold_in bc t2_) fun t3_ =>
      let bc := t3_
      (some (Src.Ctl.next bc) : Option (Src.Ctl Empty Nat)))
    = fun bc s => some (Src.Ctl.next (foldIn bc (fromCkc (fromIndex s)))) := by
  funext bc s
  simp only [u32_from_index, u64_from_ckc, u64_fold_in, Option.bind]

theorem bc_loop : ∀ (ts : List (List Nat)) (bc : Nat),
    (Src.forList (ρ := Empty) ts bc fun bc s => some (Src.Ctl.next (foldIn bc (fromCkc (fromIndex s)))))
    = some (Src.Out.done (ts.foldl (fun bc t => foldIn bc (fromCkc (fromIndex t))) bc)) := by
  intro ts
  induction ts with
  | nil => intro bc; rfl
  | cons t ts ih =>
    intro bc
    unfold Src.forList
    simp only [List.foldl]
    exact ih _

theorem u64_from_index (s : List Nat) : Src.u64.from_index s = some (bcFromIndex s) := by
  simp only [Src.u64.from_index, bc_body]
  simp only [bc_loop, Option.bind, c_bc.1, bcFromIndex]

/-- the unrolled `esses.next()?` sequence of the hand parsers -/
theorem iterNext_nil {α : Type} : Src.iterNext ([] : List α) = (none, []) := rfl
theorem iterNext_cons {α : Type} (x : α) (xs : List α) : Src.iterNext (x :: xs) = (some x, xs) := rfl

theorem Two_from_index (s : List Nat) : Src.Two.from_index s = some (parseHand 2 s) := by
  unfold Src.Two.from_index parseHand
  generalize tokens s = ts
  match ts with
  | [] => simp [iterNext_nil]
  | [a] => simp [iterNext_nil, iterNext_cons, u32_from_index, Option.bind]
  | a :: b :: rest => simp [iterNext_cons, u32_from_index, Option.bind]

theorem Three_from_index (s : List Nat) : Src.Three.from_index s = some (parseHand 3 s) := by
  unfold Src.Three.from_index parseHand
  generalize tokens s = ts
  match ts with
  | [] => simp [iterNext_nil]
  | [a] => simp [iterNext_nil, iterNext_cons, u32_from_index, Option.bind]
  | [a, b] => simp [iterNext_nil, iterNext_cons, u32_from_index, Option.bind]
  | a :: b :: c :: rest => simp [iterNext_cons, u32_from_index, Option.bind]

theorem Four_from_index (s : List Nat) : Src.Four.from_index s = some (parseHand 4 s) := by
  unfold Src.Four.from_index parseHand
  generalize tokens s = ts
  match ts with
  | [] => simp [iterNext_nil]
  | [a] => simp [iterNext_nil, iterNext_cons, u32_from_index, Option.bind]
  | [a, b] => simp [iterNext_nil, iterNext_cons, u32_from_index, Option.bind]
  | [a, b, c] => simp [iterNext_nil, iterNext_cons, u32_from_index, Option.bind]
  | a :: b :: c :: d :: rest => simp [iterNext_cons, u32_from_index, Option.bind]

theorem Five_from_index (s : List Nat) : Src.Five.from_index s = some (parseHand 5 s) := by
  unfold Src.Five.from_index parseHand
  generalize tokens s = ts
  match ts with
  | [] => simp [iterNext_nil]
  | [a] => simp [iterNext_nil, iterNext_cons, u32_from_index, Option.bind]
  | [a, b] => simp [iterNext_nil, iterNext_cons, u32_from_index, Option.bind]
  | [a, b, c] => simp [iterNext_nil, iterNext_cons, u32_from_index, Option.bind]
  | [a, b, c, d] => simp [iterNext_nil, iterNext_cons, u32_from_index, Option.bind]
  | a :: b :: c :: d :: e :: rest => simp [iterNext_cons, u32_from_index, Option.bind]

theorem parse_five_from_index (s : List Nat) : Src.parse.five_from_index s = some (parseHand 5 s) := by
  unfold Src.parse.five_from_index parseHand
  generalize tokens s = ts
  match ts with
  | [] => simp [iterNext_nil]
  | [a] => simp [iterNext_nil, iterNext_cons, u32_from_index, Option.bind]
  | [a, b] => simp [iterNext_nil, iterNext_cons, u32_from_index, Option.bind]
  | [a, b, c] => simp [iterNext_nil, iterNext_cons, u32_from_index, Option.bind]
  | [a, b, c, d] => simp [iterNext_nil, iterNext_cons, u32_from_index, Option.bind]
  | a :: b :: c :: d :: e :: rest => simp [iterNext_cons, u32_from_index, Option.bind]

theorem Six_from_index (s : List Nat) : Src.Six.from_index s = some (parseHand 6 s) := by
  unfold Src.Six.from_index parseHand
  generalize tokens s = ts
  match ts with
  | [] => simp [iterNext_nil]
  | [a] => simp [iterNext_nil, iterNext_cons, u32_from_index, Option.bind]
  | [a, b] => simp [iterNext_nil, iterNext_cons, u32_from_index, Option.bind]
  | [a, b, c] => simp [iterNext_nil, iterNext_cons, u32_from_index, Option.bind]
  | [a, b, c, d] => simp [iterNext_nil, iterNext_cons, u32_from_index, Option.bind]
  | [a, b, c, d, e] => simp [iterNext_nil, iterNext_cons, u32_from_index, Option.bind]
  | a :: b :: c :: d :: e :: f :: rest => simp [iterNext_cons, u32_from_index, Option.bind]

theorem Seven_from_index (s : List Nat) : Src.Seven.from_index s = some (parseHand 7 s) := by
  unfold Src.Seven.from_index parseHand
  generalize tokens s = ts
  match ts with
  | [] => simp [iterNext_nil]
  | [a] => simp [iterNext_nil, iterNext_cons, u32_from_index, Option.bind]
  | [a, b] => simp [iterNext_nil, iterNext_cons, u32_from_index, Option.bind]
  | [a, b, c] => simp [iterNext_nil, iterNext_cons, u32_from_index, Option.bind]
  | [a, b, c, d] => simp [iterNext_nil, iterNext_cons, u32_from_index, Option.bind]
  | [a, b, c, d, e] => simp [iterNext_nil, iterNext_cons, u32_from_index, Option.bind]
  | [a, b, c, d, e, f] => simp [iterNext_nil, iterNext_cons, u32_from_index, Option.bind]
  | a :: b :: c :: d :: e :: f :: g :: rest => simp [iterNext_cons, u32_from_index, Option.bind]

/-! ### `TryFrom<&str>`: `Err(InvalidIndex)` exactly when a token is missing -/
theorem Two_try_from (s : List Nat) :
    Src.Two.try_from s = some (match parseHand 2 s with | none => Except.error 6 | some h => Except.ok h) := by
  simp only [Src.Two.try_from, Two_from_index, Option.bind, Src.Two.from]
  cases parseHand 2 s <;> rfl
theorem Three_try_from (s : List Nat) :
    Src.Three.try_from s = some (match parseHand 3 s with | none => Except.error 6 | some h => Except.ok h) := by
  simp only [Src.Three.try_from, Three_from_index, Option.bind, Src.Three.from]
  cases parseHand 3 s <;> rfl
theorem Four_try_from (s : List Nat) :
    Src.Four.try_from s = some (match parseHand 4 s with | none => Except.error 6 | some h => Except.ok h) := by
  simp only [Src.Four.try_from, Four_from_index, Option.bind, Src.Four.from]
  cases parseHand 4 s <;> rfl
theorem Five_try_from (s : List Nat) :
    Src.Five.try_from s = some (match parseHand 5 s with | none => Except.error 6 | some h => Except.ok h) := by
  simp only [Src.Five.try_from, Five_from_index, Option.bind, Src.Five.from]
  cases parseHand 5 s <;> rfl
theorem Six_try_from (s : List Nat) :
    Src.Six.try_from s = some (match parseHand 6 s with | none => Except.error 6 | some h => Except.ok h) := by
  simp only [Src.Six.try_from, Six_from_index, Option.bind, Src.Six.from]
  cases parseHand 6 s <;> rfl
theorem Seven_try_from (s : List Nat) :
    Src.Seven.try_from s = some (match parseHand 7 s with | none => Except.error 6 | some h => Except.ok h) := by
  simp only [Src.Seven.try_from, Seven_from_index, Option.bind, Src.Seven.from]
  cases parseHand 7 s <;> rfl

end Tie

/-! ## axiom audit (written by tools/tie.py --audit) -/
#print axioms Tie.CardRank_from_char
#print axioms Tie.CardSuit_from_char
#print axioms Tie.c_blanks
#print axioms Tie.parse_get_rank_and_suit
#print axioms Tie.lookup_getD_mem
#print axioms Tie.rankFromChar_mem
#print axioms Tie.suitFromChar_mem
#print axioms Tie.getRankAndSuit_mem
#print axioms Tie.u32_from_index
#print axioms Tie.bc_body
#print axioms Tie.bc_loop
#print axioms Tie.u64_from_index
#print axioms Tie.iterNext_nil
#print axioms Tie.iterNext_cons
#print axioms Tie.Two_from_index
#print axioms Tie.Three_from_index
#print axioms Tie.Four_from_index
#print axioms Tie.Five_from_index
#print axioms Tie.parse_five_from_index
#print axioms Tie.Six_from_index
#print axioms Tie.Seven_from_index
#print axioms Tie.Two_try_from
#print axioms Tie.Three_try_from
#print axioms Tie.Four_try_from
#print axioms Tie.Five_try_from
#print axioms Tie.Six_try_from
#print axioms Tie.Seven_try_from
