import CkcVerif.Tie.Hand
import CkcVerif.Model.SixSeven
/-!
# Source tie: `Six` / `Seven` best-of-five ranking (`src/cards/six.rs`, `src/cards/seven.rs`)
-/
namespace Tie
open CK

theorem perms_eq : Src.Six.FIVE_CARD_PERMUTATIONS = Gen.perms6 ∧ Src.Seven.FIVE_CARD_PERMUTATIONS = Gen.perms7 := by decide

/-- five bounds-checked slot reads, as translated -/
theorem pick_eq (ws : List Nat) (i0 i1 i2 i3 i4 : Nat) :
    (Option.bind (ws[([i0, i1, i2, i3, i4].getD 0 default)]?) fun t1_ =>
     Option.bind (ws[([i0, i1, i2, i3, i4].getD 1 default)]?) fun t2_ =>
     Option.bind (ws[([i0, i1, i2, i3, i4].getD 2 default)]?) fun t3_ =>
     Option.bind (ws[([i0, i1, i2, i3, i4].getD 3 default)]?) fun t4_ =>
     Option.bind (ws[([i0, i1, i2, i3, i4].getD 4 default)]?) fun t5_ =>
     Option.bind (Src.Five.new t1_ t2_ t3_ t4_ t5_) fun t6_ => some t6_) = pick ws [i0, i1, i2, i3, i4] := by
  simp only [List.getD_cons_zero, List.getD_cons_succ, pick, Src.Five.new, Option.bind]
  cases ws[i0]? <;> cases ws[i1]? <;> cases ws[i2]? <;> cases ws[i3]? <;> cases ws[i4]? <;> rfl

theorem Six_five_from_permutation (ws : List Nat) (i0 i1 i2 i3 i4 : Nat) :
    Src.Six.five_from_permutation ws [i0, i1, i2, i3, i4] = pick ws [i0, i1, i2, i3, i4] := pick_eq ws i0 i1 i2 i3 i4
theorem Seven_five_from_permutation (ws : List Nat) (i0 i1 i2 i3 i4 : Nat) :
    Src.Seven.five_from_permutation ws [i0, i1, i2, i3, i4] = pick ws [i0, i1, i2, i3, i4] := pick_eq ws i0 i1 i2 i3 i4

theorem pick_shape (ws row h : List Nat) (hp : pick ws row = some h) : ∃ a b c d e, h = [a, b, c, d, e] := by
  unfold pick at hp
  split at hp
  · split at hp
    · cases hp; exact ⟨_, _, _, _, _, rfl⟩
    · cases hp
  · cases hp

theorem foldl_stepBest_none (ws : List Nat) (perms : List (List Nat)) : perms.foldl (stepBest packed ws) none = none := by
  induction perms with
  | nil => rfl
  | cons r rs ih => simpa [List.foldl, stepBest] using ih

/-- the translated best-of loop is the fold of `stepBest` -/
theorem best_loop (pickf : List Nat → List Nat → Option (List Nat)) (ws : List Nat) :
    ∀ (perms : List (List Nat)) (_ : ∀ row ∈ perms, pickf ws row = pick ws row) (bh : List Nat) (bv : Nat),
    (Src.forList (ρ := Empty) perms (bh, bv) fun (best_hand, best_hrv) perm =>
      Option.bind (pickf ws perm) fun t1_ =>
      let hand := t1_
      Option.bind (Src.Five.hand_rank_value 14 hand) fun t2_ =>
      let hrv := t2_
      if ((best_hrv == 0) || ((hrv != 0) && (decide (hrv < best_hrv)))) then
        let best_hrv := hrv
        let best_hand := hand
        some (Src.Ctl.next (best_hand, best_hrv))
      else
        some (Src.Ctl.next (best_hand, best_hrv)))
    = (match perms.foldl (stepBest packed ws) (some (bv, bh)) with
       | none => none
       | some (v, h) => some (Src.Out.done (h, v))) := by
  intro perms
  induction perms with
  | nil => intro _ bh bv; rfl
  | cons row rows ih =>
    intro hrow bh bv
    have hr := hrow row (List.mem_cons_self ..)
    have hrest : ∀ r ∈ rows, pickf ws r = pick ws r := fun r hm => hrow r (List.mem_cons_of_mem _ hm)
    unfold Src.forList
    simp only [List.foldl, hr]
    cases hp : pick ws row with
    | none => simp [Option.bind, stepBest, hp, foldl_stepBest_none]
    | some hand =>
      obtain ⟨a, b, c, d, e, rfl⟩ := pick_shape ws row hand hp
      simp only [Option.bind, Five_hand_rank_value, stepBest, hp]
      cases hv : handRankValue5 packed [a, b, c, d, e] with
      | none => simp [foldl_stepBest_none]
      | some hrv =>
        simp only
        by_cases hc : ((bv == 0) || ((hrv != 0) && (decide (hrv < bv)))) = true
        · simp only [hc, if_true]
          exact ih hrest _ _
        · simp only [hc, Bool.false_eq_true, if_false]
          exact ih hrest _ _

theorem Six_hand_rank_value_and_hand (ws : List Nat) :
    Src.Six.hand_rank_value_and_hand 14 ws = handRankValueAndHand6 packed ws := by
  unfold Src.Six.hand_rank_value_and_hand handRankValueAndHand6 handRankValueAndHandN
  simp only [perms_eq.1]
  rw [best_loop Src.Six.five_from_permutation ws Gen.perms6 (by
    intro row hrow
    have : row.length = 5 := by revert row; decide
    match row, this with
    | [i0, i1, i2, i3, i4], _ => exact Six_five_from_permutation ws _ _ _ _ _)]
  have hrep : List.replicate 5 (0 : Nat) = [0, 0, 0, 0, 0] := rfl
  simp only [hrep]
  generalize Gen.perms6.foldl (stepBest packed ws) (some (0, [0, 0, 0, 0, 0])) = r
  cases r with
  | none => rfl
  | some p => cases p with | mk v h => simp only [Option.bind, Five_sort]

theorem Seven_hand_rank_value_and_hand (ws : List Nat) :
    Src.Seven.hand_rank_value_and_hand 14 ws = handRankValueAndHand7 packed ws := by
  unfold Src.Seven.hand_rank_value_and_hand handRankValueAndHand7 handRankValueAndHandN
  simp only [perms_eq.2]
  rw [best_loop Src.Seven.five_from_permutation ws Gen.perms7 (by
    intro row hrow
    have : row.length = 5 := by revert row; decide
    match row, this with
    | [i0, i1, i2, i3, i4], _ => exact Seven_five_from_permutation ws _ _ _ _ _)]
  have hrep : List.replicate 5 (0 : Nat) = [0, 0, 0, 0, 0] := rfl
  simp only [hrep]
  generalize Gen.perms7.foldl (stepBest packed ws) (some (0, [0, 0, 0, 0, 0])) = r
  cases r with
  | none => rfl
  | some p => cases p with | mk v h => simp only [Option.bind, Five_sort]

theorem Six_hand_rank_value (a b c d e f : Nat) :
    Src.Six.hand_rank_value 14 [a, b, c, d, e, f] = handRankValue packed [a, b, c, d, e, f] := by
  simp only [Src.Six.hand_rank_value, Six_hand_rank_value_and_hand, Option.bind, handRankValue, handRankValueAndHand,
    List.length_cons, List.length_nil]
  cases handRankValueAndHand6 packed [a, b, c, d, e, f] <;> rfl
theorem Seven_hand_rank_value (a b c d e f g : Nat) :
    Src.Seven.hand_rank_value 14 [a, b, c, d, e, f, g] = handRankValue packed [a, b, c, d, e, f, g] := by
  simp only [Src.Seven.hand_rank_value, Seven_hand_rank_value_and_hand, Option.bind, handRankValue, handRankValueAndHand,
    List.length_cons, List.length_nil]
  cases handRankValueAndHand7 packed [a, b, c, d, e, f, g] <;> rfl

theorem Six_hand_rank_value_validated (a b c d e f : Nat) :
    Src.Six.hand_rank_value_validated 14 [a, b, c, d, e, f] = handRankValueValidated packed [a, b, c, d, e, f] := by
  simp only [Src.Six.hand_rank_value_validated, Six_is_valid, Six_hand_rank_value, Option.bind, handRankValueValidated, c_NO_HRV]
  cases isValid [a, b, c, d, e, f]
  · simp
  · simp only [Bool.not_true, Bool.false_eq_true, if_false]
    cases handRankValue packed [a, b, c, d, e, f] <;> rfl
theorem Seven_hand_rank_value_validated (a b c d e f g : Nat) :
    Src.Seven.hand_rank_value_validated 14 [a, b, c, d, e, f, g] = handRankValueValidated packed [a, b, c, d, e, f, g] := by
  simp only [Src.Seven.hand_rank_value_validated, Seven_is_valid, Seven_hand_rank_value, Option.bind, handRankValueValidated,
    c_NO_HRV]
  cases isValid [a, b, c, d, e, f, g]
  · simp
  · simp only [Bool.not_true, Bool.false_eq_true, if_false]
    cases handRankValue packed [a, b, c, d, e, f, g] <;> rfl

end Tie

/-! ## axiom audit (written by tools/tie.py --audit) -/
#print axioms Tie.perms_eq
#print axioms Tie.pick_eq
#print axioms Tie.Six_five_from_permutation
#print axioms Tie.Seven_five_from_permutation
#print axioms Tie.pick_shape
#print axioms Tie.foldl_stepBest_none
#print axioms Tie.best_loop
#print axioms Tie.Six_hand_rank_value_and_hand
#print axioms Tie.Seven_hand_rank_value_and_hand
#print axioms Tie.Six_hand_rank_value
#print axioms Tie.Seven_hand_rank_value
#print axioms Tie.Six_hand_rank_value_validated
#print axioms Tie.Seven_hand_rank_value_validated
