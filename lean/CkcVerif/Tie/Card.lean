import CkcVerif.Generated.Src
import CkcVerif.Model.Card
import CkcVerif.Model.Fields
/-!
# Source tie, `src/lib.rs`: card-level functions

The model's `filter` is the complete graph of the compiled function over all 2^32 words; here the *text* of the
52-pattern match is shown to denote the same function, for every `Nat`.
-/
namespace Tie
open CK

theorem lookup_diag (l : List Nat) (w : Nat) :
    ((l.map fun c => (c, c)).lookup w).getD 0 = if l.contains w then w else 0 := by
  induction l with
  | nil => rfl
  | cons x xs ih =>
    simp only [List.map, List.lookup, List.contains_cons]
    by_cases h : w == x
    · have : w = x := by simpa using h
      subst this
      simp
    · simp only [h, Bool.false_or]
      exact ih

def srcCards : List Nat := Gen.filterPoints.map (·.1)

theorem filterPoints_diag : Gen.filterPoints = srcCards.map fun c => (c, c) := by decide

theorem contains_congr {l1 l2 : List Nat} (h1 : ∀ x ∈ l1, x ∈ l2) (h2 : ∀ x ∈ l2, x ∈ l1) (w : Nat) :
    l1.contains w = l2.contains w := by
  by_cases h : w ∈ l1
  · have h' := h1 w h
    simp [h, h']
  · have h' : w ∉ l2 := fun hh => h (h2 w hh)
    simp [h, h']

theorem filter_of_list (w : Nat) (l1 : List Nat) (h1 : ∀ x ∈ l1, x ∈ srcCards) (h2 : ∀ x ∈ srcCards, x ∈ l1) :
    (if l1.contains w then some w else some Src.CardNumber.BLANK) = some (filter w) := by
  have h : filter w = if srcCards.contains w then w else 0 := by
    unfold filter; rw [filterPoints_diag]; exact lookup_diag _ _
  rw [h, contains_congr h1 h2 w]
  cases srcCards.contains w <;> simp [Src.CardNumber.BLANK]

theorem u32_filter (w : Nat) : Src.u32.filter w = some (filter w) := by
  unfold Src.u32.filter
  exact filter_of_list w _ (by decide +kernel) (by decide +kernel)

theorem CardNumber_filter (w : Nat) : Src.CardNumber.filter w = some (filter w) := by
  simp only [Src.CardNumber.filter, u32_filter, Option.bind]

end Tie
