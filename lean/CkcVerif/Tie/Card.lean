import CkcVerif.Generated.Src
import CkcVerif.Model.Card
import CkcVerif.Model.Fields
/-!
# Source tie, `src/lib.rs`: card-level functions

The model's `filter` is the complete graph of the compiled function over all 2^32 words; here the *text* of the
52-pattern match is shown to denote the same function, for every `Nat`.
-/
namespace Tie
open CK

theorem lookup_diag (l : List Nat) (w : Nat) :
    ((l.map fun c => (c, c)).lookup w).getD 0 = if l.contains w then w else 0 := by
  induction l with
  | nil => rfl
  | cons x xs ih =>
    simp only [List.map, List.lookup, List.contains_cons]
    by_cases h : w == x
    · have : w = x := by simpa using h
      subst this
      simp
    · simp only [h, Bool.false_or]
      exact ih

def srcCards : List Nat := Gen.filterPoints.map (·.1)

theorem filterPoints_diag : Gen.filterPoints = srcCards.map fun c => (c, c) := by decide

theorem contains_congr {l1 l2 : List Nat} (h1 : ∀ x ∈ l1, x ∈ l2) (h2 : ∀ x ∈ l2, x ∈ l1) (w : Nat) :
    l1.contains w = l2.contains w := by
  by_cases h : w ∈ l1
  · have h' := h1 w h
    simp [h, h']
  · have h' : w ∉ l2 := fun hh => h (h2 w hh)
    simp [h, h']

theorem filter_of_list (w : Nat) (l1 : List Nat) (h1 : ∀ x ∈ l1, x ∈ srcCards) (h2 : ∀ x ∈ srcCards, x ∈ l1) :
    (if l1.contains w then some w else some Src.CardNumber.BLANK) = some (filter w) := by
  have h : filter w = if srcCards.contains w then w else 0 := by
    unfold filter; rw [filterPoints_diag]; exact lookup_diag _ _
  rw [h, contains_congr h1 h2 w]
  cases srcCards.contains w <;> simp [Src.CardNumber.BLANK]

theorem u32_filter (w : Nat) : Src.u32.filter w = some (filter w) := by
  unfold Src.u32.filter
  exact filter_of_list w _ (by decide +kernel) (by decide +kernel)

theorem CardNumber_filter (w : Nat) : Src.CardNumber.filter w = some (filter w) := by
  simp only [Src.CardNumber.filter, u32_filter, Option.bind]

/-! ### constant-pattern matches (`Src.matchTable`) against the regenerated complete graphs -/

theorem lookup_none_of_not_mem {l : List (Nat × Nat)} {w : Nat} (h : w ∉ l.map (·.1)) : l.lookup w = none := by
  induction l with
  | nil => rfl
  | cons p ps ih =>
    simp only [List.map, List.mem_cons, not_or] at h
    have : (w == p.1) = false := by simpa using h.1
    obtain ⟨a, b⟩ := p
    simp only [List.lookup] at *
    simp only [this]
    exact ih h.2

/-- two association lists that agree (up to the default) on the keys of either one denote the same function -/
theorem matchTable_eq (t1 t2 : List (Nat × Nat)) (d : Nat)
    (h1 : ∀ k ∈ t1.map (·.1), (t1.lookup k).getD d = (t2.lookup k).getD d)
    (h2 : ∀ k ∈ t2.map (·.1), (t1.lookup k).getD d = (t2.lookup k).getD d) (w : Nat) :
    Src.matchTable t1 d w = (t2.lookup w).getD d := by
  unfold Src.matchTable
  by_cases m1 : w ∈ t1.map (·.1)
  · exact h1 w m1
  · by_cases m2 : w ∈ t2.map (·.1)
    · exact h2 w m2
    · rw [lookup_none_of_not_mem m1, lookup_none_of_not_mem m2]

theorem u64_from_ckc (w : Nat) : Src.u64.from_ckc w = some (fromCkc w) := by
  unfold Src.u64.from_ckc fromCkc
  rw [matchTable_eq _ Gen.fromCkcPoints _ (by decide +kernel) (by decide +kernel)]; rfl

theorem u32_from_binary_card (x : Nat) : Src.u32.from_binary_card x = some (fromBinaryCard x) := by
  unfold Src.u32.from_binary_card fromBinaryCard
  rw [matchTable_eq _ Gen.fromBcPoints _ (by decide +kernel) (by decide +kernel)]; rfl

/-! ### field readers and flags -/
theorem c_filters : Src.CardNumber.RANK_FLAG_FILTER = Gen.rankFlagFilter ∧ Src.CardNumber.RANK_FLAG_SHIFT = Gen.rankFlagShift ∧
    Src.CardNumber.SUIT_FILTER = Gen.suitFilter ∧ Src.CardNumber.SUIT_SHIFT = Gen.suitShift ∧
    Src.CardNumber.RANK_PRIME_FILTER = Gen.rankPrimeFilter ∧ Src.CardNumber.PAIR = Gen.pairFlag ∧
    Src.CardNumber.TRIPS = Gen.tripsFlag ∧ Src.CardNumber.QUADS = Gen.quadsFlag ∧
    Src.CardNumber.MULTIPLES_FILTER = Gen.multiplesFilter := by decide

theorem u32_get_rank_flag (w : Nat) : Src.u32.get_rank_flag w = some (getRankFlag w) := rfl
theorem u32_get_rank_bit (w : Nat) : Src.u32.get_rank_bit w = some (getRankBit w) := rfl
theorem u32_get_rank_prime (w : Nat) : Src.u32.get_rank_prime w = some (getRankPrime w) := rfl
theorem u32_get_suit_flag (w : Nat) : Src.u32.get_suit_flag w = some (getSuitFlag w) := rfl
theorem u32_get_suit_bit (w : Nat) : Src.u32.get_suit_bit w = some (getSuitBit w) := rfl
theorem u32_flag_as_pair (w : Nat) : Src.u32.flag_as_pair w = some (flagAsPair w) := rfl
theorem u32_flag_as_trips (w : Nat) : Src.u32.flag_as_trips w = some (flagAsTrips w) := rfl
theorem u32_flag_as_quads (w : Nat) : Src.u32.flag_as_quads w = some (flagAsQuads w) := rfl
theorem u32_strip_multiples_flags (w : Nat) : Src.u32.strip_multiples_flags w = some (stripMultiplesFlags w) := rfl
theorem u32_is_blank (w : Nat) : Src.u32.is_blank w = some (isBlank w) := by
  by_cases h : w = 0 <;> simp [Src.u32.is_blank, isBlank, Gen.isBlankPoints, Src.CardNumber.BLANK, h]

/-! ### rank / suit of a word: the translated matches against the regenerated field graphs -/
theorem rankIdx_lt (w : Nat) : rankIdx w < 8192 := by
  unfold rankIdx
  have h : w &&& Gen.rankFlagFilter ≤ Gen.rankFlagFilter := Nat.and_le_right
  have : Gen.rankFlagFilter = 0x1FFF0000 := by decide
  rw [Nat.shiftRight_eq_div_pow]; omega
theorem suitIdx_lt (w : Nat) : suitIdx w < 16 := by
  unfold suitIdx
  have h : w &&& Gen.suitFilter ≤ Gen.suitFilter := Nat.and_le_right
  have : Gen.suitFilter = 0xF000 := by decide
  rw [Nat.shiftRight_eq_div_pow]; omega

def rankGraphChk : Bool := (List.range 8192).all fun m =>
  Src.matchTable [(4096, 14), (2048, 13), (1024, 12), (512, 11), (256, 10), (128, 9), (64, 8), (32, 7), (16, 6), (8, 5), (4, 4), (2, 3), (1, 2)] 0 m
    == get 8 Gen.rankFieldRankP m
theorem rankGraphChk_ok : rankGraphChk = true := by decide +kernel
theorem rank_graph (m : Nat) (h : m < 8192) :
    Src.matchTable [(4096, 14), (2048, 13), (1024, 12), (512, 11), (256, 10), (128, 9), (64, 8), (32, 7), (16, 6), (8, 5), (4, 4), (2, 3), (1, 2)] 0 m
      = get 8 Gen.rankFieldRankP m := by
  have := List.all_eq_true.mp rankGraphChk_ok m (List.mem_range.mpr h)
  simpa using this
theorem u32_get_card_rank (w : Nat) : Src.u32.get_card_rank w = some (getCardRank w) := by
  simp only [Src.u32.get_card_rank, u32_get_rank_bit, Option.bind, getCardRank]
  exact congrArg some (rank_graph _ (rankIdx_lt w))

theorem suit_graph : ∀ m, m < 16 → Src.matchTable [(8, 4), (4, 3), (2, 2), (1, 1)] 0 m = Gen.suitFieldSuit.getD m 0 := by decide
theorem u32_get_card_suit (w : Nat) : Src.u32.get_card_suit w = some (getCardSuit w) := by
  simp only [Src.u32.get_card_suit, u32_get_suit_bit, Option.bind, getCardSuit]
  exact congrArg some (suit_graph _ (suitIdx_lt w))

theorem next_graph : ∀ m, m < 16 →
    Src.matchTable [(4, 3), (3, 2), (2, 1), (1, 4), (0, 0)] 0 (Gen.suitFieldSuit.getD m 0) = Gen.suitFieldNext.getD m 0 := by decide
theorem u32_next_suit (w : Nat) : Src.u32.next_suit w = some (nextSuit w) := by
  simp only [Src.u32.next_suit, u32_get_card_suit, Option.bind, nextSuit, getCardSuit]
  exact congrArg some (next_graph _ (suitIdx_lt w))

/-! ### `create` and the suit shift -/
def rankVals : List Nat := [0, 2, 3, 4, 5, 6, 7, 8, 9, 10, 11, 12, 13, 14]
def suitVals : List Nat := [0, 1, 2, 3, 4]

def rankRangeChk : Bool := (List.range 8192).all fun m => rankVals.contains (get 8 Gen.rankFieldRankP m)
theorem rankRangeChk_ok : rankRangeChk = true := by decide +kernel
theorem getCardRank_mem (w : Nat) : getCardRank w ∈ rankVals := by
  have := List.all_eq_true.mp rankRangeChk_ok (rankIdx w) (List.mem_range.mpr (rankIdx_lt w))
  simpa [getCardRank] using this
theorem nextSuit_range : ∀ m, m < 16 → Gen.suitFieldNext.getD m 0 ∈ suitVals := by decide
theorem nextSuit_mem (w : Nat) : nextSuit w ∈ suitVals := nextSuit_range _ (suitIdx_lt w)

theorem create_graph : ∀ r ∈ rankVals, ∀ s ∈ suitVals, Src.u32.create r s = some (create r s) := by decide +kernel
theorem u32_shift_suit (w : Nat) : Src.u32.shift_suit w = some (shiftSuit w) := by
  simp only [Src.u32.shift_suit, u32_get_card_rank, u32_next_suit, Option.bind,
    create_graph _ (getCardRank_mem w) _ (nextSuit_mem w), shiftSuit]

end Tie

/-! ## axiom audit (written by tools/tie.py --audit) -/
#print axioms Tie.lookup_diag
#print axioms Tie.filterPoints_diag
#print axioms Tie.contains_congr
#print axioms Tie.filter_of_list
#print axioms Tie.u32_filter
#print axioms Tie.CardNumber_filter
#print axioms Tie.lookup_none_of_not_mem
#print axioms Tie.matchTable_eq
#print axioms Tie.u64_from_ckc
#print axioms Tie.u32_from_binary_card
#print axioms Tie.c_filters
#print axioms Tie.u32_get_rank_flag
#print axioms Tie.u32_get_rank_bit
#print axioms Tie.u32_get_rank_prime
#print axioms Tie.u32_get_suit_flag
#print axioms Tie.u32_get_suit_bit
#print axioms Tie.u32_flag_as_pair
#print axioms Tie.u32_flag_as_trips
#print axioms Tie.u32_flag_as_quads
#print axioms Tie.u32_strip_multiples_flags
#print axioms Tie.u32_is_blank
#print axioms Tie.rankIdx_lt
#print axioms Tie.suitIdx_lt
#print axioms Tie.rankGraphChk_ok
#print axioms Tie.rank_graph
#print axioms Tie.u32_get_card_rank
#print axioms Tie.suit_graph
#print axioms Tie.u32_get_card_suit
#print axioms Tie.next_graph
#print axioms Tie.u32_next_suit
#print axioms Tie.rankRangeChk_ok
#print axioms Tie.getCardRank_mem
#print axioms Tie.nextSuit_range
#print axioms Tie.nextSuit_mem
#print axioms Tie.create_graph
#print axioms Tie.u32_shift_suit
