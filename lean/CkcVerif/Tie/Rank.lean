import CkcVerif.Tie.SixSeven
import CkcVerif.Tie.Misc
import CkcVerif.Model.HandRank
/-!
# Source tie: `HandRank::determine_name`, `determine_class`, `from`, and the `hand_rank()` entry points

The model's `determineName` / `determineClass` are the complete graphs of the compiled functions over all 65,536
values.  Here the *text* of the two range matches (11 and 310 arms) is shown to denote the same functions, for every `Nat`.
-/
namespace Tie
open CK

/-- first-match semantics of a range table against a function `g` -/
theorem matchRanges_eq (g : Nat → Nat) (d x : Nat) : ∀ (rows : List (Nat × Nat × Nat)),
    (∀ r ∈ rows, r.1 ≤ x → x ≤ r.2.1 → g x = r.2.2) →
    ((∀ r ∈ rows, ¬ (r.1 ≤ x ∧ x ≤ r.2.1)) → g x = d) →
    Src.matchRanges rows d x = g x := by
  intro rows
  induction rows with
  | nil => intro _ h2; exact (h2 (by simp)).symm
  | cons r rs ih =>
    obtain ⟨lo, hi, v⟩ := r
    intro h1 h2
    unfold Src.matchRanges
    by_cases hx : lo ≤ x ∧ x ≤ hi
    · simp only [hx, and_self, if_true]
      exact (h1 (lo, hi, v) (List.mem_cons_self ..) hx.1 hx.2).symm
    · simp only [hx, if_false]
      apply ih
      · intro r hr; exact h1 r (List.mem_cons_of_mem _ hr)
      · intro hn
        apply h2
        intro r hr
        rcases List.mem_cons.mp hr with rfl | hr
        · exact hx
        · exact hn r hr

/-- the rows tile `[s, e)` without gaps -/
def contig : List (Nat × Nat × Nat) → Nat → Option Nat
  | [], s => some s
  | (lo, hi, _) :: rest, s => if lo = s ∧ lo ≤ hi then contig rest (hi + 1) else none

theorem contig_cover : ∀ (rows : List (Nat × Nat × Nat)) (s e x : Nat), contig rows s = some e → s ≤ x → x < e →
    ∃ r ∈ rows, r.1 ≤ x ∧ x ≤ r.2.1 := by
  intro rows
  induction rows with
  | nil => intro s e x h hs he; simp [contig] at h; omega
  | cons r rs ih =>
    obtain ⟨lo, hi, v⟩ := r
    intro s e x h hs he
    unfold contig at h
    split at h
    · rename_i hc
      by_cases hx : x ≤ hi
      · exact ⟨(lo, hi, v), List.mem_cons_self .., by omega, hx⟩
      · obtain ⟨r, hr, hb⟩ := ih (hi + 1) e x h (by omega) he
        exact ⟨r, List.mem_cons_of_mem _ hr, hb⟩
    · cases h

/-- every cell of every row agrees with `g` -/
def rowsChk (rows : List (Nat × Nat × Nat)) (g : Nat → Nat) : Bool :=
  rows.all fun r => (List.range' r.1 (r.2.1 + 1 - r.1)).all fun x => g x == r.2.2

theorem rowsChk_spec {rows : List (Nat × Nat × Nat)} {g : Nat → Nat} (h : rowsChk rows g = true) :
    ∀ r ∈ rows, ∀ x, r.1 ≤ x → x ≤ r.2.1 → g x = r.2.2 := by
  intro r hr x h1 h2
  have := List.all_eq_true.mp h r hr
  have := List.all_eq_true.mp this x (by rw [List.mem_range']; exact ⟨x - r.1, by omega, by omega⟩)
  simpa using this

/-- a range table that tiles `[1, 7463)`, agrees with the graph on every cell, and whose default is the graph's value
    at 0 and from 7463 on, is the graph -/
theorem ranges_are_graph (rows : List (Nat × Nat × Nat)) (d : Nat) (g : Nat → Nat)
    (hc : contig rows 1 = some 7463) (hk : rowsChk rows g = true) (h0 : g 0 = d) (ht : ∀ x, 7463 ≤ x → g x = d) (x : Nat) :
    Src.matchRanges rows d x = g x := by
  apply matchRanges_eq
  · intro r hr h1 h2; exact rowsChk_spec hk r hr x h1 h2
  · intro hn
    by_cases hx0 : x = 0
    · rw [hx0]; exact h0
    · by_cases hx : x < 7463
      · obtain ⟨r, hr, hb⟩ := contig_cover rows 1 7463 x hc (by omega) hx
        exact absurd hb (hn r hr)
      · exact ht x (by omega)

theorem name_tail (x : Nat) (h : 7463 ≤ x) : determineName x = 9 := by
  have : Gen.nameTailStart = 7463 ∧ Gen.nameTail = 9 := by decide
  unfold determineName; rw [this.1, this.2]; simp; omega
theorem class_tail (x : Nat) (h : 7463 ≤ x) : determineClass x = 309 := by
  have : Gen.classTailStart = 7463 ∧ Gen.classTail = 309 := by decide
  unfold determineClass; rw [this.1, this.2]; simp; omega

theorem HandRank_determine_name (v : Nat) : Src.HandRank.determine_name v = some (determineName v) := by
  unfold Src.HandRank.determine_name
  exact congrArg some (ranges_are_graph _ _ determineName (by decide +kernel) (by decide +kernel) (by decide +kernel) name_tail v)

theorem HandRank_determine_class (v : Nat) : Src.HandRank.determine_class v = some (determineClass v) := by
  unfold Src.HandRank.determine_class
  exact congrArg some (ranges_are_graph _ _ determineClass (by decide +kernel) (by decide +kernel) (by decide +kernel) class_tail v)

theorem HandRank_from (v : Nat) : (Src.HandRank.from v).map toModel = some (HandRank.ofValue v) := by
  simp only [Src.HandRank.from, HandRank_determine_name, HandRank_determine_class, Option.bind, Option.map, toModel,
    HandRank.ofValue]

theorem HandRank_default : (Src.HandRank.default).map toModel = some HandRank.default := by
  simp only [Src.HandRank.default]
  exact HandRank_from 0

theorem toModel_inj (a b : Src.HandRank) : toModel a = toModel b ↔ a = b := by
  constructor
  · intro h
    cases a; cases b
    simp only [toModel, HandRank.mk.injEq] at h
    obtain ⟨h1, h2, h3⟩ := h
    subst h1; subst h2; subst h3; rfl
  · intro h; rw [h]

theorem from_some (v : Nat) : ∃ r, Src.HandRank.from v = some r ∧ toModel r = HandRank.ofValue v := by
  have h := HandRank_from v
  cases hf : Src.HandRank.from v with
  | none => rw [hf] at h; cases h
  | some r => rw [hf] at h; exact ⟨r, rfl, by simpa [Option.map] using h⟩

theorem HandRank_is_a_valid_hand_rank (r : Src.HandRank) :
    Src.HandRank.is_a_valid_hand_rank r = some ((toModel r).isAValidHandRank) := by
  obtain ⟨q, hq, hm⟩ := from_some r.value
  simp only [Src.HandRank.is_a_valid_hand_rank, hq, Option.bind, HandRank.isAValidHandRank]
  congr 1
  have hv : (toModel r).value = r.value := rfl
  rw [hv, ← hm]
  by_cases h : r = q
  · subst h; exact (beq_self_eq_true _).trans (beq_self_eq_true _).symm
  · have h' : toModel r ≠ toModel q := fun e => h ((toModel_inj r q).mp e)
    have e1 : (r == q) = false := by simpa using h
    have e2 : (toModel r == toModel q) = false := by simpa using h'
    rw [e1, e2]

/-- `hand_rank()` / `hand_rank_validated()`: `HandRank::from` of the value -/
theorem Five_hand_rank (a b c d e : Nat) :
    (Src.Five.hand_rank 14 [a, b, c, d, e]).map toModel = (handRankValue5 packed [a, b, c, d, e]).map HandRank.ofValue := by
  simp only [Src.Five.hand_rank, Five_hand_rank_value, Option.bind]
  cases handRankValue5 packed [a, b, c, d, e] with
  | none => rfl
  | some v =>
    obtain ⟨q, hq, hm⟩ := from_some v
    simp [hq, Option.map, hm]
theorem Seven_hand_rank (a b c d e f g : Nat) :
    (Src.Seven.hand_rank 14 [a, b, c, d, e, f, g]).map toModel
      = (handRankValue packed [a, b, c, d, e, f, g]).map HandRank.ofValue := by
  simp only [Src.Seven.hand_rank, Seven_hand_rank_value, Option.bind]
  cases handRankValue packed [a, b, c, d, e, f, g] with
  | none => rfl
  | some v =>
    obtain ⟨q, hq, hm⟩ := from_some v
    simp [hq, Option.map, hm]
theorem Six_hand_rank (a b c d e f : Nat) :
    (Src.Six.hand_rank 14 [a, b, c, d, e, f]).map toModel = (handRankValue packed [a, b, c, d, e, f]).map HandRank.ofValue := by
  simp only [Src.Six.hand_rank, Six_hand_rank_value, Option.bind]
  cases handRankValue packed [a, b, c, d, e, f] with
  | none => rfl
  | some v =>
    obtain ⟨q, hq, hm⟩ := from_some v
    simp [hq, Option.map, hm]
theorem Seven_hand_rank_validated (a b c d e f g : Nat) :
    (Src.Seven.hand_rank_validated 14 [a, b, c, d, e, f, g]).map toModel
      = (handRankValueValidated packed [a, b, c, d, e, f, g]).map HandRank.ofValue := by
  simp only [Src.Seven.hand_rank_validated, Seven_hand_rank_value_validated, Option.bind]
  cases handRankValueValidated packed [a, b, c, d, e, f, g] with
  | none => rfl
  | some v =>
    obtain ⟨q, hq, hm⟩ := from_some v
    simp [hq, Option.map, hm]
theorem Six_hand_rank_validated (a b c d e f : Nat) :
    (Src.Six.hand_rank_validated 14 [a, b, c, d, e, f]).map toModel
      = (handRankValueValidated packed [a, b, c, d, e, f]).map HandRank.ofValue := by
  simp only [Src.Six.hand_rank_validated, Six_hand_rank_value_validated, Option.bind]
  cases handRankValueValidated packed [a, b, c, d, e, f] with
  | none => rfl
  | some v =>
    obtain ⟨q, hq, hm⟩ := from_some v
    simp [hq, Option.map, hm]
theorem Five_hand_rank_validated (a b c d e : Nat) :
    (Src.Five.hand_rank_validated 14 [a, b, c, d, e]).map toModel
      = (handRankValueValidated5 packed [a, b, c, d, e]).map HandRank.ofValue := by
  simp only [Src.Five.hand_rank_validated, Five_hand_rank_value_validated, Option.bind]
  cases handRankValueValidated5 packed [a, b, c, d, e] with
  | none => rfl
  | some v =>
    obtain ⟨q, hq, hm⟩ := from_some v
    simp [hq, Option.map, hm]

end Tie

/-! ## axiom audit (written by tools/tie.py --audit) -/
#print axioms Tie.matchRanges_eq
#print axioms Tie.contig_cover
#print axioms Tie.rowsChk_spec
#print axioms Tie.ranges_are_graph
#print axioms Tie.name_tail
#print axioms Tie.class_tail
#print axioms Tie.HandRank_determine_name
#print axioms Tie.HandRank_determine_class
#print axioms Tie.HandRank_from
#print axioms Tie.HandRank_default
#print axioms Tie.toModel_inj
#print axioms Tie.from_some
#print axioms Tie.HandRank_is_a_valid_hand_rank
#print axioms Tie.Five_hand_rank
#print axioms Tie.Seven_hand_rank
#print axioms Tie.Six_hand_rank
#print axioms Tie.Seven_hand_rank_validated
#print axioms Tie.Six_hand_rank_validated
#print axioms Tie.Five_hand_rank_validated
