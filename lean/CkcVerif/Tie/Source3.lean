import CkcVerif.Tie.Source2
import CkcVerif.Tie.Rank
import CkcVerif.Props.C06
import CkcVerif.Props.C07
import CkcVerif.Props.C09
import CkcVerif.Props.C10
import CkcVerif.Props.C18
import CkcVerif.Props.C15
import CkcVerif.Props.C16
/-!
# The properties, stated about the translated source (C06, C07, C09, C10, C18)
-/
namespace Tie
open CK Spec Lemmas

/-- C10 for the source: of all words the 52-pattern filter passes exactly the layout words; construction from a proper
    rank and suit gives that card's layout word -/
theorem C10_source :
    (∀ w, Src.u32.filter w = some (if w ∈ deckWords then w else 0)) ∧
    (∀ c : Card, c.ok → Src.u32.create (rankDisc c.rank) (suitDisc c.suit) = some c.word) := by
  refine ⟨fun w => (u32_filter w).trans (congrArg some (C10.C10_filter w)), ?_⟩
  intro c h
  have hm : ∀ r < 13, ∀ s < 4, rankDisc r ∈ rankVals ∧ suitDisc s ∈ suitVals := by decide
  obtain ⟨m1, m2⟩ := hm c.rank h.1 c.suit h.2
  rw [create_graph _ m1 _ m2, C10.C10_create_card c h]

/-- C18 for the source: `Deck::get` -/
theorem C18_source (i : Nat) : Src.Deck.get i = some (if i < 52 then deckWords.getD i 0 else 0) :=
  (Deck_get i).trans (congrArg some (C18.C18_deck_get i))

/-- C07 for the source: on converted ranks the hand-written comparison is comparison of an injective key -/
theorem C07_source (a b : Nat) (ha : a < 65536) (hb : b < 65536) :
    ∃ ra rb, Src.HandRank.from a = some ra ∧ Src.HandRank.from b = some rb ∧
      Src.HandRank.cmp ra rb = some (compare (C07.keyOf a) (C07.keyOf b)) ∧
      Src.HandRank.partial_cmp ra rb = some (some (compare (C07.keyOf a) (C07.keyOf b))) ∧
      (compare (C07.keyOf a) (C07.keyOf b) = .eq ↔ a = b) := by
  obtain ⟨ra, ea, ma⟩ := from_some a
  obtain ⟨rb, eb, mb⟩ := from_some b
  have hk := C07.C07_cmp_is_key_order a b ha hb
  refine ⟨ra, rb, ea, eb, ?_, ?_, ?_⟩
  · rw [HandRank_cmp, ma, mb, hk]
  · rw [HandRank_partial_cmp, ma, mb, hk]
  · constructor
    · intro h; exact C07.C07_key_injective a b ha hb (by simpa [compare_eq_iff] using h)
    · intro h; subst h; simp [compare_eq_iff]

/-- C06 for the source: the rank reported for five distinct real cards names their category and class -/
theorem C06_source {cs : List Card} (h : IsHand 5 cs) :
    ∃ r, Src.Five.hand_rank 14 (words cs) = some r ∧ Src.Five.hand_rank_validated 14 (words cs) = some r ∧
      Src.Five.hand_rank_value 14 (words cs) = some r.value ∧ r.name ≠ 9 ∧
      Gen.nameNames.getD r.name "" = categoryName (handStrength cs / 13 ^ 5) ∧
      Gen.classNames.getD r.class_ "" = specName (descrOfStrength (handStrength cs)) := by
  obtain ⟨m, e1, e2, e3, e4, e5, e6⟩ := C06.C06_hand_rank_five h
  obtain ⟨v, _, _, q1, _, _, q4, _, _⟩ := C01.C01_entry_points h
  obtain ⟨c1, c2, c3, c4, c5, rfl⟩ := Lemmas.hand5_cases h
  have hv : handRankValue packed (words [c1, c2, c3, c4, c5]) = some v := by
    have q1' : handRankValue5 packed [c1.word, c2.word, c3.word, c4.word, c5.word] = some v := q1
    show handRankValue packed [c1.word, c2.word, c3.word, c4.word, c5.word] = some v
    simp only [handRankValue, handRankValueAndHand, List.length_cons, List.length_nil, handRankValueAndHand5, q1']
    rfl
  have hm : m = HandRank.ofValue v := by
    unfold handRank at e1; rw [hv] at e1; simpa using e1.symm
  obtain ⟨r, er, mr⟩ := from_some v
  have h1 : Src.Five.hand_rank 14 (words [c1, c2, c3, c4, c5]) = some r := by
    show Src.Five.hand_rank 14 [c1.word, c2.word, c3.word, c4.word, c5.word] = some r
    simp only [Src.Five.hand_rank, Five_hand_rank_value, Option.bind]
    rw [show handRankValue5 packed [c1.word, c2.word, c3.word, c4.word, c5.word] = some v from q1]
    simp [er]
  have h2 : Src.Five.hand_rank_validated 14 (words [c1, c2, c3, c4, c5]) = some r := by
    show Src.Five.hand_rank_validated 14 [c1.word, c2.word, c3.word, c4.word, c5.word] = some r
    simp only [Src.Five.hand_rank_validated, Five_hand_rank_value_validated, Option.bind]
    rw [show handRankValueValidated5 packed [c1.word, c2.word, c3.word, c4.word, c5.word] = some v from q4]
    simp [er]
  have hr : toModel r = m := by rw [mr, hm]
  have hname : r.name = m.name := by rw [← hr]; rfl
  have hcls : r.class_ = m.cls := by rw [← hr]; rfl
  have hval : r.value = v := by
    have hv' : (toModel r).value = v := by rw [mr]; rfl
    exact hv'
  refine ⟨r, h1, h2, ?_, ?_, ?_, ?_⟩
  · rw [hval]; exact (Five_hand_rank_value _ _ _ _ _).trans q1
  · intro h9
    have : m.isInvalid = true := by
      unfold HandRank.isInvalid; rw [← hname, h9]; decide
    rw [e4] at this; cases this
  · rw [hname]; exact e5
  · rw [hcls]; exact e6

/-- C09 for the source: a seven-card hand is at least as strong as each six-card sub-hand, which is at least as strong
    as each of its five-card sub-hands -/
theorem C09_source {cs g f : List Card} (h : IsHand 7 cs) (hg : g ∈ combos 6 cs) (hf : f ∈ combos 5 g) :
    ∃ v7 v6 v5, srcValue (words cs) = some v7 ∧ srcValue (words g) = some v6 ∧ srcValue (words f) = some v5 ∧
      1 ≤ v7 ∧ v7 ≤ v6 ∧ v6 ≤ v5 ∧ v5 ≤ 7462 := by
  obtain ⟨v7, v6, v5, e7, e6, e5, b⟩ := C09.C09_chain_values h hg hf
  have hg6 := sub_hand h hg
  have hf5 := sub_hand hg6 hf
  have l7 : (words cs).length = 7 := by simp [words, h.len]
  have l6 : (words g).length = 6 := by simp [words, hg6.len]
  have l5 : (words f).length = 5 := by simp [words, hf5.len]
  exact ⟨v7, v6, v5, ((srcValue_eq _ (by omega)).1).trans e7, ((srcValue_eq _ (by omega)).1).trans e6,
    ((srcValue_eq _ (by omega)).1).trans e5, b⟩

/-- C15 for the source: the set operations are set operations (union, subset test, count, validity), and the set of a
    hand / of a text holds exactly the cards in its slots / named by its tokens -/
theorem C15_source_sets (x y : Nat) :
    (∃ u, Src.u64.fold_in x y = some u ∧ ∀ k, u.testBit k = (x.testBit k || y.testBit k)) ∧
    (∃ b, Src.u64.has x y = some b ∧ (b = true ↔ ∀ k, y.testBit k = true → x.testBit k = true)) ∧
    Src.u64.number_of_cards x = some (((List.range 64).filter (fun k => x.testBit k)).length) ∧
    (x < 2 ^ 64 → ∃ v, Src.u64.is_valid x = some v ∧ (v = true ↔ (x ≠ 0 ∧ ∀ k, 52 ≤ k → x.testBit k = false))) := by
  refine ⟨⟨_, u64_fold_in x y, fun k => C15.C15_fold_in x y k⟩, ⟨_, u64_has x y, C15.C15_has x y⟩, ?_, ?_⟩
  · rw [u64_number_of_cards, C15.C15_count]
  · intro hx; exact ⟨_, u64_is_valid x, C15.C15_valid x hx⟩

theorem C15_source_from (a b c d e : Nat) (s : List Nat) (k : Nat) :
    (∃ u, Src.u64.from_five [a, b, c, d, e] = some u ∧
      (u.testBit k = true ↔ (k < 52 ∧ deckWords.getD (51 - k) 0 ∈ [a, b, c, d, e]))) ∧
    Src.u64.from_index s = some (bcFromHand ((tokens s).map fromIndex)) :=
  ⟨⟨_, u64_from_five a b c d e, C15.C15_from_hand _ k⟩, (u64_from_index s).trans (congrArg some (C15.C15_from_text s))⟩

/-- C16 for the source: conversion succeeds exactly for two card bits -/
theorem C16_source_success (x : Nat) (hx : x < 2 ^ 64) :
    (∃ a b, Src.Two.try_from__2 x = some (Except.ok [a, b])) ↔ (∃ i j, j < i ∧ i < 52 ∧ x = 2 ^ i ||| 2 ^ j) := by
  rw [← C16.C16_success_iff x hx, Two_try_from__2]
  constructor
  · rintro ⟨a, b, h⟩
    cases hr : twoFromBc x with
    | ok a' b' => exact ⟨a', b', rfl⟩
    | notEnoughCards => rw [hr] at h; simp [resultCode] at h
    | tooManyCards => rw [hr] at h; simp [resultCode] at h
    | invalidBinaryFormat => rw [hr] at h; simp [resultCode] at h
  · rintro ⟨a, b, h⟩
    exact ⟨a, b, by rw [h]; rfl⟩

end Tie

/-! ## axiom audit (written by tools/tie.py --audit) -/
#print axioms Tie.C10_source
#print axioms Tie.C18_source
#print axioms Tie.C07_source
#print axioms Tie.C06_source
#print axioms Tie.C09_source
#print axioms Tie.C15_source_sets
#print axioms Tie.C15_source_from
#print axioms Tie.C16_source_success
