import CkcVerif.Tie.Source3
import CkcVerif.Tie.Chen
/-!
# Non-vacuity: the translated source evaluated by the kernel on concrete inputs

Each `example` runs the Lean definitions written by `tools/rs2lean.py` from the current source text (loop fuel 14) on a
concrete input; they show that the hypotheses of the `*_source` theorems are met by ordinary hands and that the
translation computes what the crate's documentation says.
-/
namespace Tie
open CK Spec

-- A♠ K♠ Q♠ J♠ T♠ is the royal flush (value 1); 7♠ 5♥ 4♦ 3♣ 2♠ … the worst hand is 7-5-4-3-2 offsuit (7462)
example : Src.Five.hand_rank_value 14 [268471337, 134253349, 67144223, 33589533, 16812055] = some 1 := by decide +kernel
example : Src.Five.hand_rank_value 14 [2131213, 541447, 270853, 135427, 98306] = some 7462 := by decide +kernel
-- the same five cards in another slot order, through the validated entry point and the free function
example : Src.Five.hand_rank_value_validated 14 [16812055, 268471337, 33589533, 134253349, 67144223] = some 1 := by decide +kernel
example : Src.evaluate.five_cards 14 [16812055, 268471337, 33589533, 134253349, 67144223] = some 1 := by decide +kernel
-- a blank slot: value 0 (Invalid), no panic; a duplicate card: validated value 0
example : Src.Five.hand_rank_value 14 [268471337, 134253349, 67144223, 33589533, 0] = some 0 := by decide +kernel
example : Src.Five.hand_rank_value_validated 14 [268471337, 268471337, 67144223, 33589533, 16812055] = some 0 := by decide +kernel
-- seven cards: A♠ K♠ Q♠ J♠ T♠ 9♥ 2♦ ranks 1 and reports the five spades, highest first
example : Src.Seven.hand_rank_value_and_hand 14 [8406803, 268471337, 73730, 134253349, 67144223, 33589533, 16812055]
    = some (1, [268471337, 134253349, 67144223, 33589533, 16812055]) := by decide +kernel
-- the binary search: the first and the last table key, a key that is absent, a key below every product
example : Src.Five.find_in_products 14 48 = some 0 ∧ Src.Five.find_in_products 14 104553157 = some 4887 ∧
    Src.Five.find_in_products 14 49 = some 0 ∧ Src.Five.find_in_products 14 0 = some 0 := by decide +kernel
-- text: "AS" and "a♠" are the ace of spades, "1S" is blank, "AS KS" parses as a two-card hand, "AS" alone does not
example : Src.u32.from_index [0x41, 0x53] = some 268471337 ∧ Src.u32.from_index [0x61, 0x2660] = some 268471337 ∧
    Src.u32.from_index [0x31, 0x53] = some 0 := by decide +kernel
def okOf {α : Type} : Option (Except Nat α) → Option α
  | some (Except.ok a) => some a
  | _ => none
def errOf {α : Type} : Option (Except Nat α) → Option Nat
  | some (Except.error e) => some e
  | _ => none
example : okOf (Src.Two.try_from [0x41, 0x53, 0x20, 0x4B, 0x53]) = some [268471337, 134253349] ∧
    errOf (Src.Two.try_from [0x41, 0x53]) = some 6 := by decide +kernel
-- sets: A♠ is bit 51; peel returns it first
example : Src.u64.from_two [268471337, 69634] = some (2 ^ 51 + 1) ∧ Src.u64.peel (2 ^ 51 + 1) = some (2 ^ 51, 1) := by decide +kernel
-- comparison: a royal flush is greater than a pair, an invalid rank is below both
example : (do let a ← Src.HandRank.from 1; let b ← Src.HandRank.from 5000; let z ← Src.HandRank.from 0
              pure (← Src.HandRank.cmp a b, ← Src.HandRank.cmp z b)) = some (Ordering.gt, Ordering.lt) := by decide +kernel
-- Chen: A♠ K♠ scores 12, 7♠ 2♣ scores -1, pocket deuces 5
example : Src.Two.chen_formula [268471337, 134253349] = some 12 ∧ Src.Two.chen_formula [2131213, 69634] = some (-1) ∧
    Src.Two.chen_formula [98306, 69634] = some 5 := by decide +kernel
-- suit shift: A♠ -> A♥ -> A♦ -> A♣ -> A♠
example : Src.u32.shift_suit 268471337 = some 268454953 ∧ Src.u32.shift_suit 268442665 = some 268471337 := by decide +kernel

end Tie
