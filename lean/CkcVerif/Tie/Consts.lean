import CkcVerif.Generated.Src
import CkcVerif.Generated.Cards
import CkcVerif.Generated.Consts
import CkcVerif.Generated.Presets
/-!
# Source tie: constants

The translator evaluates every `const` of the crate from the source text; the extractor dumps the same constants from the
compiled crate.  The two translations must agree — on every named card, both decks, the masks and flags, the published
slot tables and the preset starting hands.
-/
namespace Tie

theorem consts_cards :
    [Src.CardNumber.ACE_SPADES, Src.CardNumber.KING_SPADES, Src.CardNumber.QUEEN_SPADES, Src.CardNumber.JACK_SPADES,
     Src.CardNumber.TEN_SPADES, Src.CardNumber.NINE_SPADES, Src.CardNumber.EIGHT_SPADES, Src.CardNumber.SEVEN_SPADES,
     Src.CardNumber.SIX_SPADES, Src.CardNumber.FIVE_SPADES, Src.CardNumber.FOUR_SPADES, Src.CardNumber.TREY_SPADES,
     Src.CardNumber.DEUCE_SPADES, Src.CardNumber.ACE_HEARTS, Src.CardNumber.KING_HEARTS, Src.CardNumber.QUEEN_HEARTS,
     Src.CardNumber.JACK_HEARTS, Src.CardNumber.TEN_HEARTS, Src.CardNumber.NINE_HEARTS, Src.CardNumber.EIGHT_HEARTS,
     Src.CardNumber.SEVEN_HEARTS, Src.CardNumber.SIX_HEARTS, Src.CardNumber.FIVE_HEARTS, Src.CardNumber.FOUR_HEARTS,
     Src.CardNumber.TREY_HEARTS, Src.CardNumber.DEUCE_HEARTS, Src.CardNumber.ACE_DIAMONDS, Src.CardNumber.KING_DIAMONDS,
     Src.CardNumber.QUEEN_DIAMONDS, Src.CardNumber.JACK_DIAMONDS, Src.CardNumber.TEN_DIAMONDS, Src.CardNumber.NINE_DIAMONDS,
     Src.CardNumber.EIGHT_DIAMONDS, Src.CardNumber.SEVEN_DIAMONDS, Src.CardNumber.SIX_DIAMONDS, Src.CardNumber.FIVE_DIAMONDS,
     Src.CardNumber.FOUR_DIAMONDS, Src.CardNumber.TREY_DIAMONDS, Src.CardNumber.DEUCE_DIAMONDS, Src.CardNumber.ACE_CLUBS,
     Src.CardNumber.KING_CLUBS, Src.CardNumber.QUEEN_CLUBS, Src.CardNumber.JACK_CLUBS, Src.CardNumber.TEN_CLUBS,
     Src.CardNumber.NINE_CLUBS, Src.CardNumber.EIGHT_CLUBS, Src.CardNumber.SEVEN_CLUBS, Src.CardNumber.SIX_CLUBS,
     Src.CardNumber.FIVE_CLUBS, Src.CardNumber.FOUR_CLUBS, Src.CardNumber.TREY_CLUBS, Src.CardNumber.DEUCE_CLUBS]
      = Gen.cardConsts ∧ Src.CardNumber.BLANK = Gen.blank := by decide

theorem consts_decks : Src.deck.POKER_DECK = Gen.deck ∧ Src.deck.DECK_SIZE = Gen.deckSize ∧ Src.BC64.DECK = Gen.bitDeck ∧
    Src.BC64.ALL = Gen.bcAll ∧ Src.BC64.OVERFLOW = Gen.bcOverflow ∧ Src.BC64.BLANK = Gen.bcBlank ∧
    [Src.BC64.ACES, Src.BC64.KINGS, Src.BC64.QUEENS, Src.BC64.JACKS, Src.BC64.TENS, Src.BC64.NINES, Src.BC64.EIGHTS,
     Src.BC64.SEVENS, Src.BC64.SIXES, Src.BC64.FIVES, Src.BC64.FOURS, Src.BC64.TREYS, Src.BC64.DEUCES] = Gen.rankGroups := by
  decide

theorem consts_masks : Src.CardNumber.RANK_FLAG_FILTER = Gen.rankFlagFilter ∧ Src.CardNumber.RANK_FLAG_SHIFT = Gen.rankFlagShift ∧
    Src.CardNumber.RANK_PRIME_FILTER = Gen.rankPrimeFilter ∧ Src.CardNumber.SUIT_FILTER = Gen.suitFilter ∧
    Src.CardNumber.SUIT_SHORT_MASK = Gen.suitShortMask ∧ Src.CardNumber.SUIT_SHIFT = Gen.suitShift ∧
    Src.CardNumber.PAIR = Gen.pairFlag ∧ Src.CardNumber.TRIPS = Gen.tripsFlag ∧ Src.CardNumber.QUADS = Gen.quadsFlag ∧
    Src.CardNumber.MULTIPLES_FILTER = Gen.multiplesFilter ∧ Src.Five.POSSIBLE_COMBINATIONS = Gen.possibleCombinations ∧
    Src.evaluate.POSSIBLE_COMBINATIONS = Gen.evaluatePossibleCombinations ∧ Src.Five.STRAIGHT_PADDING = Gen.straightPadding ∧
    Src.Five.WHEEL_OR_BITS = Gen.wheelOrBits ∧ Src.hand_rank.NO_HAND_RANK_VALUE = Gen.noHandRankValue := by decide

theorem consts_tables : Src.Six.FIVE_CARD_PERMUTATIONS = Gen.perms6 ∧ Src.Seven.FIVE_CARD_PERMUTATIONS = Gen.perms7 ∧
    Src.Four.OMAHA_PERMUTATIONS = Gen.omaha ∧ Src.Two.AA = Gen.presetAA ∧ Src.Two.AK = Gen.presetAK ∧
    Src.Two.AKs = Gen.presetAKs ∧ Src.Two.AKo = Gen.presetAKo ∧ Src.Two.AQs = Gen.presetAQs ∧ Src.Two.AQo = Gen.presetAQo := by
  decide

end Tie

/-! ## axiom audit (written by tools/tie.py --audit) -/
#print axioms Tie.consts_cards
#print axioms Tie.consts_decks
#print axioms Tie.consts_masks
#print axioms Tie.consts_tables
