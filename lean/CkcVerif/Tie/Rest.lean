import CkcVerif.Tie.Card
import CkcVerif.Tie.TwoCard
import CkcVerif.Spec.Layout
/-!
# Source tie: the remaining card-level functions (characters, construction parts, trivial views)
-/
namespace Tie
open CK Spec

def rankCharChk : Bool := (List.range 8192).all fun m =>
  Src.matchTable [(4096, 65), (2048, 75), (1024, 81), (512, 74), (256, 84), (128, 57), (64, 56), (32, 55), (16, 54), (8, 53), (4, 52), (2, 51), (1, 50)] 95 m
    == get 32 Gen.rankFieldCharP m
theorem rankCharChk_ok : rankCharChk = true := by decide +kernel
theorem rank_char_graph (m : Nat) (h : m < 8192) :
    Src.matchTable [(4096, 65), (2048, 75), (1024, 81), (512, 74), (256, 84), (128, 57), (64, 56), (32, 55), (16, 54), (8, 53), (4, 52), (2, 51), (1, 50)] 95 m
      = get 32 Gen.rankFieldCharP m := by
  have := List.all_eq_true.mp rankCharChk_ok m (List.mem_range.mpr h)
  simpa using this
theorem u32_get_rank_char (w : Nat) : Src.u32.get_rank_char w = some (getRankChar w) := by
  simp only [Src.u32.get_rank_char, u32_get_rank_bit, Option.bind, getRankChar]
  exact congrArg some (rank_char_graph _ (rankIdx_lt w))

theorem suit_char_graph : ∀ m, m < 16 →
    Src.matchTable [(8, 9824), (4, 9829), (2, 9830), (1, 9827)] 95 m = Gen.suitFieldChar.getD m 0 ∧
    Src.matchTable [(8, 83), (4, 72), (2, 68), (1, 67)] 95 m = Gen.suitFieldLetter.getD m 0 := by decide
theorem u32_get_suit_char (w : Nat) : Src.u32.get_suit_char w = some (getSuitChar w) := by
  simp only [Src.u32.get_suit_char, u32_get_suit_bit, Option.bind, getSuitChar]
  exact congrArg some (suit_char_graph _ (suitIdx_lt w)).1
theorem u32_get_suit_letter (w : Nat) : Src.u32.get_suit_letter w = some (getSuitLetter w) := by
  simp only [Src.u32.get_suit_letter, u32_get_suit_bit, Option.bind, getSuitLetter]
  exact congrArg some (suit_char_graph _ (suitIdx_lt w)).2

/-- `CKCNumber::create` on every pair of enumeration members -/
theorem u32_create : ∀ r ∈ rankVals, ∀ s ∈ suitVals, Src.u32.create r s = some (create r s) := create_graph

/-- the parts `create` ORs together, on the thirteen proper ranks and four proper suits: the documented layout -/
theorem CardRank_number : ∀ r < 13, Src.CardRank.number (rankDisc r) = some r := by decide
theorem CardRank_bits : ∀ r < 13, Src.CardRank.bits (rankDisc r) = some (1 <<< (16 + r)) := by decide
theorem CardRank_prime : ∀ r < 13, Src.CardRank.prime (rankDisc r) = some (prime r) := by decide
theorem CardRank_shift8 : ∀ r < 13, Src.CardRank.shift8 (rankDisc r) = some (r <<< 8) := by decide
theorem CardSuit_binary_signature : ∀ s < 4, Src.CardSuit.binary_signature (suitDisc s) = some (1 <<< (12 + s)) := by decide

theorem u32_as_u32 (w : Nat) : Src.u32.as_u32 w = some w := rfl
theorem u64_as_u64 (x : Nat) : Src.u64.as_u64 x = some x := rfl
theorem Two_from__2 (ws : List Nat) : Src.Two.from__2 ws = some ws := rfl
theorem Deck_arr (ws : List Nat) : Src.Deck.arr ws = some ws := rfl
theorem Deck_len : Src.Deck.len = some Gen.deckLen := by decide

end Tie

/-! ## axiom audit (written by tools/tie.py --audit) -/
#print axioms Tie.rankCharChk_ok
#print axioms Tie.rank_char_graph
#print axioms Tie.u32_get_rank_char
#print axioms Tie.suit_char_graph
#print axioms Tie.u32_get_suit_char
#print axioms Tie.u32_get_suit_letter
#print axioms Tie.u32_create
#print axioms Tie.CardRank_number
#print axioms Tie.CardRank_bits
#print axioms Tie.CardRank_prime
#print axioms Tie.CardRank_shift8
#print axioms Tie.CardSuit_binary_signature
#print axioms Tie.u32_as_u32
#print axioms Tie.u64_as_u64
#print axioms Tie.Two_from__2
#print axioms Tie.Deck_arr
#print axioms Tie.Deck_len
