import CkcVerif.Model.Basic
import CkcVerif.Model.Card
import CkcVerif.Spec.Layout
