import CkcVerif.Model.Card
import CkcVerif.Model.SixSeven
import CkcVerif.Model.HandRank
import CkcVerif.Model.HandRankOps
import CkcVerif.Model.BitCard
import CkcVerif.Model.Two
import CkcVerif.Model.Parse
import CkcVerif.Model.Containers
import CkcVerif.Spec.Layout
import CkcVerif.Spec.Poker
import CkcVerif.Spec.Names
import CkcVerif.Lemmas.Abs
/-!
# Model driver: one request per line on stdin, one answer per line on stdout.

Requests are space-separated decimal integers after a command word.  `panic` stands for `none`
(the Rust code would panic); `bad-request` for anything the driver does not understand (never
defaulted).  Only `CkcVerif.Model.*` (core Lean, no Mathlib) is imported, so this links.
The evaluator runs on `CK.arrays`, which `CK.arrays_eq_packed` proves equal to the `CK.packed`
tables the theorems are about.
-/
open CK

def natsOf (ts : List String) : Option (List Nat) := ts.mapM String.toNat?

def showOpt : Option Nat → String
  | some v => toString v
  | none => "panic"

def joinNats (l : List Nat) : String := " ".intercalate (l.map toString)
def joinStrs (l : List String) : String := " ".intercalate l

def boolNat (b : Bool) : Nat := if b then 1 else 0
def showOptBool : Option Bool → String
  | some b => toString (boolNat b)
  | none => "panic"
def showOptInt : Option Int → String
  | some v => toString v
  | none => "panic"

def T : Tables := arrays

def showRank (r : HandRank) : String := joinNats [r.value, r.name, r.cls]

def showValueHand : Option (Nat × List Nat) → String
  | some (v, h) => toString v ++ " " ++ joinNats h
  | none => "panic"

/-- split `xs` at the first `sep` (used for compound requests) -/
def splitAt (sep : Nat) (xs : List Nat) : List Nat × List Nat :=
  (xs.takeWhile (· != sep), (xs.dropWhile (· != sep)).drop 1)

/-- the `p`-th permutation (0..119) of five positions, factorial number system -/
def perm5 (p : Nat) : List Nat := Id.run do
  let mut pool := [0, 1, 2, 3, 4]
  let mut out : List Nat := []
  let mut q := p
  for k in [5, 4, 3, 2, 1] do
    let i := q % k
    q := q / k
    out := out ++ [pool.getD i 0]
    pool := pool.eraseIdx i
  return out

def deckArr : Array Nat := Spec.deckWords.toArray

/-- bulk request: every five-card hand whose lowest deck index is `a`, slots permuted by `perm5 p`;
    per hand `value * 16 + flags` (flags: flush 1, straight 2, wheel 4, validated = fiveCards = value 8),
    999999 for a panic -/
def enum5 (a p : Nat) : String := Id.run do
  let pm := perm5 p
  let mut out := ""
  for b in [a+1:52] do
    for c in [b+1:52] do
      for d in [c+1:52] do
        for e in [d+1:52] do
          let base := #[deckArr[a]!, deckArr[b]!, deckArr[c]!, deckArr[d]!, deckArr[e]!]
          let h := pm.map fun i => base[i]!
          let code :=
            match handRankValue5 T h with
            | none => 999999
            | some v =>
              let ok := handRankValueValidated5 T h == some v && fiveCards T h == some v
              v * 16 + boolNat (isFlush h) + 2 * boolNat (isStraight h) + 4 * boolNat (isWheel h) + 8 * boolNat ok
          out := out ++ toString code ++ " "
  return out

/-- the 52 card words followed by blank: the alphabet of property C05 -/
def deckBlankArr : Array Nat := (Spec.deckWords ++ [0]).toArray

/-- bulk request: every five-slot multiset over {52 cards, blank} whose lowest symbol index is `a`;
    per hand `value * 4 + (validated ok) * 2 + (fiveCards ok)`, where "ok" = returned something;
    999999 for a panic of the unvalidated ranking -/
def enum5b (a : Nat) : String := Id.run do
  let mut out := ""
  for b in [a:53] do
    for c in [b:53] do
      for d in [c:53] do
        for e in [d:53] do
          let h := [deckBlankArr[a]!, deckBlankArr[b]!, deckBlankArr[c]!, deckBlankArr[d]!, deckBlankArr[e]!]
          let code :=
            match handRankValue5 T h with
            | none => 999999
            | some v => v * 4 + 2 * boolNat (handRankValueValidated5 T h).isSome + boolNat (fiveCards T h).isSome
          out := out ++ toString code ++ " "
  return out

def handSum (h : List Nat) : Nat :=
  match h with
  | [a, b, c, d, e] => (a + 3 * b + 5 * c + 7 * d + 11 * e) % 1000003
  | _ => 0

/-- bulk request: every six-card hand whose lowest deck index is `a` (canonical slot order);
    per hand `value` and a checksum of the reported best hand -/
def enum6 (a : Nat) : String := Id.run do
  let mut out := ""
  for b in [a+1:52] do
    for c in [b+1:52] do
      for d in [c+1:52] do
        for e in [d+1:52] do
          for f in [e+1:52] do
            let h := [deckArr[a]!, deckArr[b]!, deckArr[c]!, deckArr[d]!, deckArr[e]!, deckArr[f]!]
            let code :=
              match handRankValueAndHand6 T h with
              | none => "panic"
              | some (v, hand) => toString v ++ " " ++ toString (handSum hand)
            out := out ++ code ++ " "
  return out

/-- spec-only oracle: every class with its position (1 = strongest) in the order by `Spec.strength`,
    its strength, and the names of its category and class (`Spec.categoryName`, `Spec.specName`) -/
def oracle5 : String := Id.run do
  let cs := Lemmas.classes.toArray
  let st := cs.map fun c => Spec.strength [c.1, c.2.1, c.2.2.1, c.2.2.2.1, c.2.2.2.2.1] c.2.2.2.2.2
  let sorted := st.qsort (· > ·)
  let mut out := ""
  for i in [0:cs.size] do
    let c := cs[i]!
    -- position = 1 + number of classes with strictly greater strength (binary search in `sorted`)
    let s := st[i]!
    let mut lo := 0
    let mut hi := sorted.size
    while lo < hi do
      let mid := (lo + hi) / 2
      if sorted[mid]! > s then lo := mid + 1 else hi := mid
    let d := Spec.descrOfStrength s
    out := out ++ joinNats [c.1, c.2.1, c.2.2.1, c.2.2.2.1, c.2.2.2.2.1, boolNat c.2.2.2.2.2, lo + 1, s] ++ " " ++
      Spec.categoryName d.1 ++ " " ++ Spec.specName d ++ " "
  return out

def histOps : List Nat → Option (List Op)
  | [] => some []
  | k :: x :: rest => (histOps rest).map (Op.set k x :: ·)
  | _ => none

def answer (cmd : String) (args : List Nat) : String :=
  match cmd, args with
  | "acc", [w] =>
    joinNats [getCardRank w, getCardSuit w, getRankPrime w, getRankBit w, getRankFlag w,
      getSuitBit w, getSuitFlag w, getRankChar w, getSuitChar w, getSuitLetter w,
      getChenPoints2 w, nextSuit w, boolNat (isBlank w), filter w, shiftSuit w,
      flagAsPair w, flagAsTrips w, flagAsQuads w, stripMultiplesFlags w, fromCkc w]
  | "create", [r, s] => toString (create r s)
  | "deck", [i] => toString (deckGet i)
  | "frombc", [x] => toString (fromBinaryCard x)
  | "find", [k] => showOpt (findInProducts T k)
  | "enum5", [a, p] => enum5 a p
  | "oracle5", [] => oracle5
  | "enum5b", [a] => enum5b a
  | "enum6", [a] => enum6 a
  | "ev5", [a, b, c, d, e] =>
    let h := [a, b, c, d, e]
    joinStrs [showValueHand (handRankValueAndHand5 T h), showOpt (handRankValue5 T h),
      showOpt (handRankValueValidated5 T h), showOpt (fiveCards T h),
      joinNats [boolNat (isFlush h), boolNat (isStraight h), boolNat (isStraightFlush h), boolNat (isWheel h),
        boolNat (evaluateIsFlush h), evaluateOrRankBits h, andBits h, orBits h, orRankBits h, multiplyPrimes h],
      match handRankValue5 T h with
      | some v => showRank (HandRank.ofValue v)
      | none => "panic",
      match handRankValueValidated5 T h with
      | some v => showRank (HandRank.ofValue v)
      | none => "panic"]
  | "ev6", [_, _, _, _, _, _] =>
    joinStrs [showValueHand (handRankValueAndHand6 T args), showOpt (handRankValue T args),
      showOpt (handRankValueValidated T args),
      match handRankValue T args with
      | some v => showRank (HandRank.ofValue v)
      | none => "panic"]
  | "ev7", [_, _, _, _, _, _, _] =>
    joinStrs [showValueHand (handRankValueAndHand7 T args), showOpt (handRankValue T args),
      showOpt (handRankValueValidated T args),
      match handRankValue T args with
      | some v => showRank (HandRank.ofValue v)
      | none => "panic"]
  | "evh", ws => if 5 ≤ ws.length ∧ ws.length ≤ 7 then showValueHand (handRankValueAndHand T ws) else "bad-request"
  | "ckc", [w] => toString (fromCkc w)
  | "evv", ws =>
    -- validated view (property C04): validity, validated value(s); the unvalidated value only for a valid hand
    if 5 ≤ ws.length ∧ ws.length ≤ 7 then
      let valid := isValid ws
      joinStrs [toString (boolNat valid), showOpt (handRankValueValidated T ws),
        (match handRankValueValidated T ws with
         | some v => showRank (HandRank.ofValue v)
         | none => "panic"),
        if ws.length = 5 then showOpt (fiveCards T ws) else "-",
        if valid then showOpt (handRankValue T ws) else "-"]
    else "bad-request"
  | "evt", ws =>
    -- totality view (property C05): every ranking entry point's value, and the rank's name and class
    if 5 ≤ ws.length ∧ ws.length ≤ 7 then
      joinStrs [showOpt ((handRankValueAndHand T ws).map (·.1)), showOpt (handRankValue T ws),
        showOpt (handRankValueValidated T ws), if ws.length = 5 then showOpt (fiveCards T ws) else "-",
        match handRankValue T ws with
        | some v => showRank (HandRank.ofValue v)
        | none => "panic",
        match handRankValueValidated T ws with
        | some v => showRank (HandRank.ofValue v)
        | none => "panic"]
    else "bad-request"
  | "val", ws =>
    if 2 ≤ ws.length ∧ ws.length ≤ 7 then
      joinNats [boolNat (areUnique ws), boolNat (containBlank ws), boolNat (isCorrupt ws), boolNat (isValid ws)]
    else "bad-request"
  | "sort", ws =>
    if 2 ≤ ws.length ∧ ws.length ≤ 7 then joinNats (sortDesc ws ++ sortDesc ws) else "bad-request"
  | "shift", ws =>
    if 2 ≤ ws.length ∧ ws.length ≤ 7 then joinNats (shiftSuitHand ws) else "bad-request"
  | "rank", [v] =>
    let r := HandRank.ofValue v
    joinStrs [showRank r, toString (boolNat r.isInvalid), toString (boolNat r.isAValidHandRank)]
  | "rankdefault", [] => showRank HandRank.default
  | "cmp", [a, b] =>
    let x := HandRank.ofValue a
    let y := HandRank.ofValue b
    joinNats [ordCode (x.cmp y), ordCode (x.cmp y), boolNat (x.lt y), boolNat (x.le y), boolNat (x.gt y),
      boolNat (x.ge y), boolNat (x == y), (x.max y).value, (x.min y).value, (x.max y).value, (x.min y).value]
  | "bc", ws =>
    if 2 ≤ ws.length ∧ ws.length ≤ 7 then toString (bcFromHand ws) else "bad-request"
  | "bcops", [x, y] =>
    joinNats [foldIn x y, boolNat (has x y), numberOfCards x, boolNat (isSingleCard x), boolNat (bcIsValid x)]
  | "peel", [x, k] =>
    let r := peelIter k x
    joinNats (r.1 ++ [r.2])
  | "two", [x] =>
    match twoFromBc x with
    | .ok a b => joinNats [0, a, b, bcFromHand [a, b]]
    | .notEnoughCards => "1"
    | .tooManyCards => "2"
    | .invalidBinaryFormat => "3"
  | "chen", [a, b] =>
    joinStrs [showOptInt (chenFormula a b), showOpt (getGap a b), showOptBool (isConnector a b),
      toString (boolNat (isPocketPair a b)), toString (boolNat (isSuited a b)),
      showOptBool (isSuitedConnector a b), toString (highCard a b)]
  | "parse", n :: cps =>
    match parseHand n cps with
    | some ws => joinNats ws
    | none => "none"
  | "idx", cps =>
    let p := getRankAndSuit cps
    joinNats [p.1, p.2, fromIndex cps]
  | "bcidx", cps => toString (bcFromIndex cps)
  | "hist", n :: rest =>
    let init := rest.take n
    match histOps (rest.drop n) with
    | some ops =>
      if init.length = n then
        joinNats (ops.foldl (fun (acc : List Nat × List Nat) op =>
          let s := applyOp acc.1 op
          (s, acc.2 ++ s)) (init, init)).2
      else "bad-request"
    | none => "bad-request"
  | "ctor", ws =>
    -- every constructor stores the words as given; `Default` is all blank
    let zeros := List.replicate ws.length 0
    match ws.length with
    | 2 => joinNats (ws ++ ws ++ ws ++ zeros)
    | 3 => joinNats (ws ++ ws ++ ws ++ zeros)
    | 4 => joinNats (ws ++ zeros)
    | 5 => joinNats (ws ++ ws ++ zeros)
    | 6 => joinNats (ws ++ six123 (ws.getD 0 0) [ws.getD 1 0, ws.getD 2 0] [ws.getD 3 0, ws.getD 4 0, ws.getD 5 0] ++ zeros)
    | 7 => joinNats (ws ++ sevenNew (ws.take 2) (ws.drop 2) ++ zeros)
    | _ => "bad-request"
  | "six123", [one, t1, t2, h1, h2, h3] => joinNats (six123 one [t1, t2] [h1, h2, h3])
  | "sevennew", [t1, t2, f1, f2, f3, f4, f5] => joinNats (sevenNew [t1, t2] [f1, f2, f3, f4, f5])
  | "pick", n :: rest =>
    let ws := rest.take n
    let row := rest.drop n
    if ws.length = n ∧ row.length = 5 then
      match pick ws row with
      | some h => joinNats h
      | none => "panic"
    else "bad-request"
  | _, _ => "bad-request"

partial def loop (hin : IO.FS.Stream) (hout : IO.FS.Stream) (buf : String) (n : Nat) : IO Unit := do
  let line ← hin.getLine
  if line.isEmpty then
    hout.putStr buf
    hout.flush
    return ()
  let toks := (line.trimAscii.toString.splitOn " ").filter (· ≠ "")
  let out :=
    match toks with
    | [] => "bad-request"
    | cmd :: rest =>
      match natsOf rest with
      | some args => answer cmd args
      | none => "bad-request"
  let buf := buf ++ out ++ "\n"
  if n ≥ 4096 then
    hout.putStr buf
    loop hin hout "" 0
  else
    loop hin hout buf (n + 1)

def main : IO Unit := do
  let hin ← IO.getStdin
  let hout ← IO.getStdout
  loop hin hout "" 0
