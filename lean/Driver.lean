import CkcVerif.Model.Card
/-!
# Model driver: one request per line on stdin, one answer per line on stdout.

Requests are space-separated decimal integers after a command word.  `panic` stands for `none`
(the Rust code would panic); `bad-request` for anything the driver does not understand (never
defaulted).  Only `CkcVerif.Model.*` / `Spec.*` (core Lean, no Mathlib) is imported, so this links.
-/
open CK

def natsOf (ts : List String) : Option (List Nat) := ts.mapM String.toNat?

def showOpt : Option Nat → String
  | some v => toString v
  | none => "panic"

def joinNats (l : List Nat) : String := " ".intercalate (l.map toString)

def boolNat (b : Bool) : Nat := if b then 1 else 0

def answer (cmd : String) (args : List Nat) : String :=
  match cmd, args with
  | "acc", [w] =>
    joinNats [getCardRank w, getCardSuit w, getRankPrime w, getRankBit w, getRankFlag w,
      getSuitBit w, getSuitFlag w, getRankChar w, getSuitChar w, getSuitLetter w,
      getChenPoints2 w, nextSuit w, boolNat (isBlank w), filter w, shiftSuit w,
      flagAsPair w, flagAsTrips w, flagAsQuads w, stripMultiplesFlags w, fromCkc w]
  | "create", [r, s] => toString (create r s)
  | "deck", [i] => toString (deckGet i)
  | "frombc", [x] => toString (fromBinaryCard x)
  | _, _ => "bad-request"

partial def loop (hin : IO.FS.Stream) (hout : IO.FS.Stream) (buf : String) (n : Nat) : IO Unit := do
  let line ← hin.getLine
  if line.isEmpty then
    hout.putStr buf
    hout.flush
    return ()
  let toks := (line.trimAscii.toString.splitOn " ").filter (· ≠ "")
  let out :=
    match toks with
    | [] => "bad-request"
    | cmd :: rest =>
      match natsOf rest with
      | some args => answer cmd args
      | none => "bad-request"
  let buf := buf ++ out ++ "\n"
  if n ≥ 4096 then
    hout.putStr buf
    loop hin hout "" 0
  else
    loop hin hout buf (n + 1)

def main : IO Unit := do
  let hin ← IO.getStdin
  let hout ← IO.getStdout
  loop hin hout "" 0
