#!/usr/bin/env python3
"""Source tie bookkeeping: which Rust function is proved equal to which model definition, and what changed since the pins.

  tie.py --audit     rewrite the `#print axioms` block at the end of every lean/CkcVerif/Tie/*.lean
  tie.py --write     re-pin: record the token hash of every non-test function of /repo and the tie theorems that hold now
                     (done by hand after `./check setup` on a reviewed tree; never at run time)
  tie.py             print the functions whose text differs from the pins

A tie theorem is named `Tie.<Owner>_<function>` (optionally followed by `_14`, the loop fuel it is stated for) and says
that `Src.<Owner>.<function>` — written by tools/rs2lean.py from the current text of the function — equals the
hand-written model definition for all arguments.
"""
import json, os, re, sys

ROOT = os.path.dirname(os.path.dirname(os.path.abspath(__file__)))
LEAN = os.path.join(ROOT, "lean")
TIE_DIR = os.path.join(LEAN, "CkcVerif", "Tie")
PINS = os.path.join(ROOT, "tools", "tie_pins.json")
STATUS = os.path.join(ROOT, "build", "src_status.json")
MODULES = ["Five", "Card", "Hand", "SixSeven", "Misc", "Containers", "Text", "TwoCard", "Rank", "Source", "Source2", "Source3", "Rest", "Chen", "Consts"]
MARK = "/-! ## axiom audit (written by tools/tie.py --audit) -/"


def theorems(module):
    src = open(os.path.join(TIE_DIR, module + ".lean")).read()
    src = src.split(MARK)[0]
    return re.findall(r"^theorem\s+([A-Za-z0-9_']+)", src, re.M)


def all_theorems():
    return {m: theorems(m) for m in MODULES if os.path.exists(os.path.join(TIE_DIR, m + ".lean"))}


def function_of(theorem, functions):
    """`Five_hand_rank_value_14` -> `Five::hand_rank_value` if that is a function of the crate"""
    base = re.sub(r"_14$", "", theorem)
    for owner in sorted({f.split("::")[0] for f in functions}, key=len, reverse=True):
        if base.startswith(owner + "_"):
            name = owner + "::" + base[len(owner) + 1:]
            if name in functions:
                return name
    return None


def status():
    return json.load(open(STATUS))


def tie_map(functions):
    """rust function -> [(module, theorem)]"""
    out = {}
    for m, ths in all_theorems().items():
        for t in ths:
            f = function_of(t, functions)
            if f:
                out.setdefault(f, []).append((m, t))
    return out


def write_audit():
    for m in MODULES:
        p = os.path.join(TIE_DIR, m + ".lean")
        src = open(p).read().split(MARK)[0].rstrip("\n") + "\n"
        block = MARK + "\n" + "".join("#print axioms Tie.%s\n" % t for t in theorems(m))
        open(p, "w").write(src + "\n" + block)


def pins():
    try:
        return json.load(open(PINS))
    except OSError:
        return {"functions": {}, "theorems": []}


def changed_functions(st=None):
    """(changed or new functions, removed functions) relative to the pins"""
    st = st or status()
    pf = pins()["functions"]
    cur = {k: v.get("hash") for k, v in st["functions"].items()}
    changed = sorted(k for k, h in cur.items() if pf.get(k) != h)
    removed = sorted(k for k in pf if k not in cur)
    return changed, removed


def drift_outside_functions(files, st=None):
    """True if one of `files` differs from the pins outside function bodies (items added, removed or changed), or is unknown"""
    st = st or status()
    cur = st.get("files_outside_functions", {})
    pf = pins().get("files_outside_functions", {})
    return any(f not in cur or cur.get(f) != pf.get(f) for f in files)


def main():
    a = sys.argv[1:]
    if a == ["--audit"]:
        write_audit()
        return 0
    if a and a[0] == "--write":
        st = status()
        proved = json.load(open(a[1])) if len(a) > 1 else sorted(t for ths in all_theorems().values() for t in ths)
        json.dump({"functions": {k: v.get("hash") for k, v in sorted(st["functions"].items())},
                   "translated": sorted(k for k, v in st["functions"].items() if v["translated"]),
                   "files_outside_functions": st.get("files_outside_functions", {}),
                   "theorems": proved}, open(PINS, "w"), indent=1, sort_keys=True)
        print("pinned %d functions, %d tie theorems" % (len(st["functions"]), len(proved)))
        return 0
    if a == ["--table"]:
        st = status()
        fns = st["functions"]
        tm = tie_map(fns)
        print("| function | file | translated | tie theorem(s) |")
        print("|---|---|---|---|")
        for f, v in sorted(fns.items(), key=lambda kv: (kv[1].get("file") or "", kv[0])):
            ths = ", ".join("`Tie.%s`" % t for _, t in tm.get(f, []))
            tr = "yes" if v["translated"] else "no: " + (v["reason"] or "")[:70]
            print("| `%s` | %s | %s | %s |" % (f, (v.get("file") or "").replace("src/", ""), tr, ths or "—"))
        n = len(fns)
        print("\n%d function instances; %d translated; %d with a tie theorem." % (n, sum(1 for v in fns.values() if v["translated"]), sum(1 for f in fns if f in tm)))
        return 0
    ch, rm = changed_functions()
    for f in ch:
        print("changed:", f)
    for f in rm:
        print("removed:", f)
    return 0


if __name__ == "__main__":
    sys.exit(main())
