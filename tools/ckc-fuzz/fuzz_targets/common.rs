// shared by the fuzz targets: report a divergence in a form ./check can parse, then abort
use std::sync::OnceLock;

#[allow(dead_code)]
pub fn fail(what: &str, input: &str, expected: &str, actual: &str) -> ! {
    eprintln!("FUZZ-FAIL\t{what}\t{input}\t{expected}\t{actual}");
    std::process::abort();
}

/// `CKC_FUZZ_PROP=C04` confines a run to the comparisons that belong to that property (unset: all of them)
#[allow(dead_code)]
pub fn on(props: &[&str]) -> bool {
    static P: OnceLock<Option<String>> = OnceLock::new();
    match P.get_or_init(|| std::env::var("CKC_FUZZ_PROP").ok()) {
        None => true,
        Some(p) => props.contains(&p.as_str()),
    }
}

#[allow(dead_code)]
pub fn guarded<T, F: FnOnce() -> T>(f: F) -> Option<T> {
    std::panic::catch_unwind(std::panic::AssertUnwindSafe(f)).ok()
}

#[allow(dead_code)]
pub fn quiet_panics() {
    use std::sync::Once;
    static ONCE: Once = Once::new();
    ONCE.call_once(|| std::panic::set_hook(Box::new(|_| {})));
}
