#![no_main]
//! Hands of arbitrary 32-bit words: validity, validated ranking, sorting, bit-set form, containers
//! (properties C04, C05, C11, C14, C15, C19, C20) against specifications written out here.
use ckc_rs::cards::binary_card::{BinaryCard, BC64};
use ckc_rs::cards::{five::Five, four::Four, seven::Seven, six::Six, three::Three, two::Two};
use ckc_rs::cards::{HandRanker, HandValidator};
use ckc_rs::{CKCNumber, PokerCard, Shifty};
use ckc_tools::{layout_deck, Oracle5};
use libfuzzer_sys::fuzz_target;
use std::sync::OnceLock;
mod common;
use common::*;

static ORACLE: OnceLock<Oracle5> = OnceLock::new();
fn load_oracle() -> Oracle5 {
    match guarded(Oracle5::load) {
        Some(o) => o,
        None => { eprintln!("FUZZ-SETUP\tcannot load the class oracle (CKC_ORACLE5)"); std::process::exit(3) }
    }
}

fn decode(data: &[u8], deck: &[u32; 52]) -> Vec<u32> {
    let mut out = Vec::new();
    for ch in data.chunks(5) {
        if ch.len() < 5 || out.len() == 7 { break; }
        let raw = u32::from_le_bytes([ch[1], ch[2], ch[3], ch[4]]);
        let card = deck[ch[1] as usize % 52];
        out.push(match ch[0] % 8 {
            0..=3 => card,
            4 => 0,
            5 => card ^ (1 << (ch[2] % 32)),
            6 => card | ((ch[2] as u32 % 8) << 29),
            7 if ch[2] % 2 == 0 => {
                // fields of two different cards
                let other = deck[ch[3] as usize % 52];
                match ch[4] % 3 { 0 => (card & 0xFFFF_0000) | (other & 0xFFFF), 1 => (card & 0xFFFF_F000) | (other & 0xFFF), _ => (card & 0xFFFF_00FF) | (other & 0xFF00) }
            }
            _ => raw,
        });
    }
    out
}

fn spec_value(o: &Oracle5, deck: &[u32; 52], w: &[u32]) -> u16 {
    // best five-card class over all five-subsets, by the Lean-derived class ordinal
    let idx: Vec<usize> = w.iter().map(|x| deck.iter().position(|d| d == x).unwrap()).collect();
    let n = idx.len();
    let mut best = u16::MAX;
    for mask in 0u32..1 << n {
        if mask.count_ones() != 5 { continue; }
        let mut five = [0usize; 5];
        let mut k = 0;
        for i in 0..n { if mask >> i & 1 == 1 { five[k] = idx[i]; k += 1; } }
        best = best.min(o.of_indices(&five).0);
    }
    best
}

macro_rules! size {
    ($ty:ty, $n:expr, $w:expr, $deck:expr, $from:ident) => {{
        let w: &[u32] = $w;
        let deck: &[u32; 52] = $deck;
        let arr: [u32; $n] = w[..$n].try_into().unwrap();
        let inp = format!("{:?}", arr);
        let valid = arr.iter().all(|x| deck.contains(x)) && (0..$n).all(|i| (0..i).all(|j| arr[i] != arr[j]));
        let h = <$ty>::from(arr);
        if on(&["C19"]) && h.to_arr() != arr { fail("container round trip", &inp, &inp, &format!("{:?}", h.to_arr())); }
        let it: Vec<u32> = h.iter().copied().collect();
        if on(&["C19"]) && it != arr.to_vec() { fail("container iteration", &inp, &inp, &format!("{it:?}")); }
        // the property speaks of validity only; `are_unique` on its own is compared on real cards only
        // (on other words the crate's answer is unspecified: Six/Seven call a hand holding u32::MAX non-unique)
        let all_cards = arr.iter().all(|x| deck.contains(x));
        if on(&["C04"]) { match guarded(|| (h.is_valid(), h.are_unique(), HandValidator::first(&h))) {
            Some((v, u, f)) if v == valid && f == arr[0] && (!all_cards || u == valid) => {}
            other => fail("is_valid / are_unique / first", &inp, &format!("valid={valid}"), &format!("{other:?}")),
        } }
        let mut want = arr.to_vec();
        want.sort_unstable_by(|a, b| b.cmp(a));
        let mut m = h;
        if on(&["C11"]) { match guarded(|| { m.sort_in_place(); (h.sort().to_arr().to_vec(), m.to_arr().to_vec()) }) {
            Some((a, b)) if a == want && b == want => {}
            other => fail("sort / sort_in_place", &inp, &format!("{want:?}"), &format!("{other:?}")),
        } }
        let want_bc = arr.iter().fold(0u64, |a, x| a | deck.iter().position(|d| d == x).map_or(0, |i| 1u64 << (51 - i)));
        let got_bc = arr.iter().fold(0u64, |a, x| a | <BinaryCard as BC64>::from_ckc(*x));
        if on(&["C14", "C15"]) && got_bc != want_bc { fail("bit-set of the slots", &inp, &want_bc.to_string(), &got_bc.to_string()); }
        if on(&["C15"]) {
            match guarded(|| <BinaryCard as BC64>::$from(h)) {
                Some(g) if g == want_bc => {}
                other => fail("bit-set built from the hand", &inp, &want_bc.to_string(), &format!("{other:?}")),
            }
        }
        if on(&["C08"]) && arr.iter().all(|x| *x == 0 || deck.contains(x)) {
            // shifting a hand shifts the card in every slot: same rank, next suit (S -> H -> D -> C -> S); blank stays blank
            let sh = |x: u32| -> u32 { deck.iter().position(|d| *d == x).map_or(0, |i| deck[(i + 13) % 52]) };
            let want_s: Vec<u32> = arr.iter().map(|x| sh(*x)).collect();
            match guarded(|| (h.shift_suit().to_arr().to_vec(), arr.iter().map(|x| x.shift_suit()).collect::<Vec<u32>>(),
                              h.shift_suit().shift_suit().shift_suit().shift_suit().to_arr().to_vec())) {
                Some((a, b, c)) if a == want_s && b == want_s && c == arr.to_vec() => {}
                other => fail("suit shift of a hand / of its cards / four shifts", &inp, &format!("{want_s:?}"), &format!("{other:?}")),
            }
        }
    }};
}

macro_rules! ranked {
    ($ty:ty, $n:expr, $w:expr, $deck:expr) => {{
        let w: &[u32] = $w;
        let deck: &[u32; 52] = $deck;
        let arr: [u32; $n] = w[..$n].try_into().unwrap();
        let inp = format!("{:?}", arr);
        let valid = arr.iter().all(|x| deck.contains(x)) && (0..$n).all(|i| (0..i).all(|j| arr[i] != arr[j]));
        let h = <$ty>::from(arr);
            let cards_or_blank = arr.iter().all(|x| *x == 0 || deck.contains(x));
            let o = ORACLE.get_or_init(load_oracle);
            let want_v = if valid { spec_value(o, deck, &arr) } else { 0 };
            if on(&["C04"]) { match guarded(|| h.hand_rank_value_validated()) {
                Some(g) if g == want_v => {}
                other => fail("validated ranking", &inp, &want_v.to_string(), &format!("{other:?}")),
            }
            match guarded(|| h.hand_rank_validated()) {
                Some(g) if g.value == want_v => {}
                other => fail("validated rank", &inp, &want_v.to_string(), &format!("{:?}", other.map(|r| r.value))),
            } }
            if on(&["C04", "C05"]) && (valid || cards_or_blank) {
                match guarded(|| (h.hand_rank_value(), h.hand_rank_value_and_hand().0, h.hand_rank().value)) {
                    Some((a, b, c)) if (!valid || [a, b, c] == [want_v; 3]) && ($n != 5 || !arr.contains(&0) || [a, b, c] == [0; 3]) => {}
                    other => fail("unvalidated ranking on cards-or-blank", &inp, &want_v.to_string(), &format!("{other:?}")),
                }
            }
    }};
}

fuzz_target!(|data: &[u8]| {
    quiet_panics();
    let deck = layout_deck();
    let w = decode(data, &deck);
    if on(&["C10"]) { for x in &w {
        let want = if deck.contains(x) { *x } else { 0 };
        match guarded(|| (ckc_rs::CardNumber::filter(*x), <CKCNumber as PokerCard>::filter(*x))) {
            Some(g) if g == (want, want) => {}
            other => fail("card filter", &x.to_string(), &want.to_string(), &format!("{other:?}")),
        }
    } }
    match w.len() {
        2 => size!(Two, 2, &w, &deck, from_two),
        3 => size!(Three, 3, &w, &deck, from_three),
        4 => size!(Four, 4, &w, &deck, from_four),
        5 => { size!(Five, 5, &w, &deck, from_five); ranked!(Five, 5, &w, &deck) },
        6 => { size!(Six, 6, &w, &deck, from_six); ranked!(Six, 6, &w, &deck) },
        7 => { size!(Seven, 7, &w, &deck, from_seven); ranked!(Seven, 7, &w, &deck) },
        _ => {}
    }
});
