#![no_main]
//! 64-bit card sets against bit-level set semantics (properties C14, C15, C16).
use ckc_rs::cards::binary_card::{BinaryCard, BC64};
use ckc_rs::cards::two::Two;
use ckc_rs::{CKCNumber, HandError, PokerCard};
use ckc_tools::layout_deck;
use libfuzzer_sys::fuzz_target;
mod common;
use common::*;

fuzz_target!(|data: &[u8]| {
    quiet_panics();
    if data.len() < 16 { return; }
    let x = u64::from_le_bytes(data[0..8].try_into().unwrap());
    let y = u64::from_le_bytes(data[8..16].try_into().unwrap());
    let deck = layout_deck();
    let all: u64 = (1u64 << 52) - 1;
    let want_word = |b: u64| -> u32 { if b.count_ones() == 1 && b.trailing_zeros() < 52 { deck[51 - b.trailing_zeros() as usize] } else { 0 } };
    if on(&["C14"]) { for v in [x, y, x & y, x & all, 1u64 << (x % 64)] {
        match guarded(|| <CKCNumber as PokerCard>::from_binary_card(v)) {
            Some(g) if g == want_word(v) => {}
            other => fail("from_binary_card", &v.to_string(), &want_word(v).to_string(), &format!("{other:?}")),
        }
    } }
    if on(&["C15"]) {
    let got = guarded(|| (x.fold_in(y), x.has(y), x.number_of_cards(), x.is_single_card(), BC64::is_valid(&x)));
    let want = (x | y, y & !x == 0, x.count_ones(), x.count_ones() == 1, x != 0 && x & !all == 0);
    if got != Some(want) {
        fail("fold_in / has / number_of_cards / is_single_card / is_valid", &format!("{x} {y}"), &format!("{want:?}"), &format!("{got:?}"));
    }
    // peel to exhaustion + 2
    let members: Vec<u64> = (0..52).rev().filter(|i| x >> i & 1 == 1).map(|i| 1u64 << i).collect();
    let r = guarded(|| {
        let mut cur = x;
        for step in 0..members.len() + 2 {
            let before = cur;
            let b = cur.peel();
            let wb = members.get(step).copied().unwrap_or(0);
            if b != wb || cur != (if wb != 0 { before & !wb } else { before }) {
                return Some((step, b, cur));
            }
        }
        None
    });
    if r != Some(None) {
        fail("peel sequence", &x.to_string(), "members in deck order, then blank, set unchanged", &format!("{r:?}"));
    }
    }
    // two-card hand from a set
    if on(&["C16"]) { for v in [x, (1u64 << (x % 64)) | (1u64 << (y % 64)), (1u64 << (x % 52)) | (1u64 << (y % 52)) | (y & !all & (x >> 7))] {
        let got = guarded(|| Two::try_from(v).map(|t| (t.to_arr(), <BinaryCard as BC64>::from_two(t))));
        let pop = v.count_ones();
        let want: Result<([u32; 2], u64), HandError> = if pop < 2 { Err(HandError::NotEnoughCards) } else if pop > 2 { Err(HandError::TooManyCards) } else {
            let hi = 63 - v.leading_zeros() as usize;
            let lo = v.trailing_zeros() as usize;
            if hi < 52 { Ok(([deck[51 - hi], deck[51 - lo]], v)) } else { Err(HandError::InvalidBinaryFormat) }
        };
        if got.as_ref() != Some(&want) {
            fail("Two::try_from(BinaryCard)", &v.to_string(), &format!("{want:?}"), &format!("{got:?}"));
        }
    } }
});
