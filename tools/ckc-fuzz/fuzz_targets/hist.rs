#![no_main]
//! Histories of slot writes on every container size against a plain array; constructors from parts;
//! slot-index selection with arbitrary in-range index tuples (property C19).
use ckc_rs::cards::{five::Five, four::Four, seven::Seven, six::Six, three::Three, two::Two};
use ckc_rs::cards::{HandValidator, Permutator};
use ckc_tools::layout_deck;
use libfuzzer_sys::fuzz_target;
mod common;
use common::*;

fn word(sel: u8, deck: &[u32; 52]) -> u32 {
    match sel % 64 {
        s @ 0..=51 => deck[s as usize],
        52 => 0,
        53 => u32::MAX,
        54 => 1,
        55 => deck[0] ^ 1,
        56 => deck[0] | 1 << 29,
        57 => deck[13] | 3 << 30,
        58 => 0x8000_0000,
        s => deck[(s - 59) as usize],
    }
}

fn generic_first<T: HandValidator>(h: &T) -> u32 { h.first() }

macro_rules! history {
    ($ty:ty, $n:expr, $ops:expr, $deck:expr, [$($set:ident),*], [$($get:ident),*]) => {{
        let deck: &[u32; 52] = $deck;
        let ops: &[u8] = $ops;
        let mut arr = [0u32; $n];
        for k in 0..$n { arr[k] = word(ops.get(k).copied().unwrap_or(52), deck); }
        let mut h = <$ty>::from(arr);
        let mut hist = format!("from {:?}", arr);
        let setters: [fn(&mut $ty, u32); $n] = [$(<$ty>::$set),*];
        let mut rest = ops.get($n..).unwrap_or(&[]).chunks_exact(2);
        loop {
            // read back every way there is
            let got_arr = h.to_arr();
            let by_get: [u32; $n] = [$(h.$get()),*];
            let it: Vec<u32> = h.iter().copied().collect();
            let via_trait = <$ty as HandValidator>::first(&h);
            let via_generic = generic_first(&h);
            let back = <$ty>::from(got_arr);
            if got_arr != arr || by_get != arr || it != arr.to_vec() || via_trait != arr[0] || via_generic != arr[0] || back != h || back.to_arr() != arr {
                fail("container differs from a plain array with the same writes", &hist, &format!("{arr:?}"),
                     &format!("to_arr {got_arr:?} accessors {by_get:?} iter {it:?} trait-first {via_trait} generic-first {via_generic}"));
            }
            let Some(op) = rest.next() else { break };
            let slot = op[0] as usize % $n;
            let w = word(op[1], deck);
            setters[slot](&mut h, w);
            arr[slot] = w;
            hist.push_str(&format!("; set {slot} {w}"));
        }
        (h, arr)
    }};
}

fuzz_target!(|data: &[u8]| {
    quiet_panics();
    if data.len() < 2 || !on(&["C19"]) { return; }
    let deck = layout_deck();
    let ops = &data[1..];
    match data[0] % 8 {
        0 => { history!(Two, 2, ops, &deck, [set_first, set_second], [first, second]); }
        1 => { history!(Three, 3, ops, &deck, [set_first, set_second, set_third], [first, second, third]); }
        2 => { history!(Four, 4, ops, &deck, [set_first, set_second, set_third, set_forth], [first, second, third, forth]); }
        3 => { history!(Five, 5, ops, &deck, [set_first, set_second, set_third, set_forth, set_fifth], [first, second, third, forth, fifth]); }
        4 => {
            let (h, arr) = history!(Six, 6, ops, &deck, [set_first, set_second, set_third, set_forth, set_fifth, set_sixth], [first, second, third, forth, fifth, sixth]);
            let p: Vec<u8> = (0..5).map(|k| data[(k * 7 + 1) % data.len()] % 6).collect();
            let want: Vec<u32> = p.iter().map(|i| arr[*i as usize]).collect();
            let got = guarded(|| h.five_from_permutation([p[0], p[1], p[2], p[3], p[4]]).to_arr().to_vec());
            if got.as_ref() != Some(&want) {
                fail("slot-index selection", &format!("{arr:?} indices {p:?}"), &format!("{want:?}"), &format!("{got:?}"));
            }
        }
        5 => {
            let (h, arr) = history!(Seven, 7, ops, &deck, [set_first, set_second, set_third, set_forth, set_fifth, set_sixth, set_seventh], [first, second, third, forth, fifth, sixth, seventh]);
            let p: Vec<u8> = (0..5).map(|k| data[(k * 7 + 1) % data.len()] % 7).collect();
            let want: Vec<u32> = p.iter().map(|i| arr[*i as usize]).collect();
            let got = guarded(|| h.five_from_permutation([p[0], p[1], p[2], p[3], p[4]]).to_arr().to_vec());
            if got.as_ref() != Some(&want) {
                fail("slot-index selection", &format!("{arr:?} indices {p:?}"), &format!("{want:?}"), &format!("{got:?}"));
            }
        }
        _ => {
            // constructors from parts
            let w: Vec<u32> = (0..7).map(|k| word(ops.get(k).copied().unwrap_or(52), &deck)).collect();
            let two = Two::new(w[0], w[1]);
            let five = Five::new(w[2], w[3], w[4], w[5], w[6]);
            let three = Three::from([w[2], w[3], w[4]]);
            let seven = Seven::new(two, five);
            let six = Six::from_1_and_2_and_3(w[5], two, three);
            let want6 = [w[5], w[0], w[1], w[2], w[3], w[4]];
            if two.to_arr() != w[..2] || five.to_arr() != w[2..7] || seven.to_arr() != w[..7] || six.to_arr() != want6 {
                fail("constructors from parts", &format!("{w:?}"), "words in the given slots",
                     &format!("two {:?} five {:?} seven {:?} six {:?}", two.to_arr(), five.to_arr(), seven.to_arr(), six.to_arr()));
            }
        }
    }
});
