#![no_main]
//! Five to seven distinct real cards in an arbitrary slot order: every ranking entry point against the
//! Lean-derived class ordinal (properties C01, C02, C03, C08, C09, C13).
use ckc_rs::cards::{five::Five, seven::Seven, six::Six};
use ckc_rs::cards::{HandRanker, HandValidator};
use ckc_rs::Shifty;
use ckc_tools::{layout_deck, Oracle5};
use libfuzzer_sys::fuzz_target;
use std::sync::OnceLock;
mod common;
use common::*;

static ORACLE: OnceLock<Oracle5> = OnceLock::new();
fn load_oracle() -> Oracle5 {
    match guarded(Oracle5::load) {
        Some(o) => o,
        None => { eprintln!("FUZZ-SETUP\tcannot load the class oracle (CKC_ORACLE5)"); std::process::exit(3) }
    }
}

fn best(o: &Oracle5, idx: &[usize]) -> u16 {
    let n = idx.len();
    let mut best = u16::MAX;
    for mask in 0u32..1 << n {
        if mask.count_ones() != 5 { continue; }
        let mut five = [0usize; 5];
        let mut k = 0;
        for i in 0..n { if mask >> i & 1 == 1 { five[k] = idx[i]; k += 1; } }
        best = best.min(o.of_indices(&five).0);
    }
    best
}

macro_rules! check {
    ($ty:ty, $n:expr, $idx:expr, $deck:expr, $o:expr) => {{
        let idx: &[usize] = $idx;
        let mut arr = [0u32; $n];
        for k in 0..$n { arr[k] = $deck[idx[k]]; }
        let inp = format!("{:?}", arr);
        let want = best($o, &idx[..$n]);
        let h = <$ty>::from(arr);
        let got = guarded(|| {
            let (v, five) = h.hand_rank_value_and_hand();
            (v, five.to_arr(), h.hand_rank_value(), h.hand_rank_value_validated(), h.hand_rank().value, h.hand_rank_validated().value, h.shift_suit().hand_rank_value(), h.sort().hand_rank_value())
        });
        let Some((v, five, a, b, c, d, e, f)) = got else { fail("ranking panics", &inp, &want.to_string(), "panic") };
        if on(&[if $n == 5 { "C01" } else { "C02" }]) && [v, a, b, c, d, f] != [want; 6] {
            fail("ranking entry points", &inp, &want.to_string(), &format!("{:?}", [v, a, b, c, d, f]));
        }
        if on(&["C06"]) {
            match guarded(|| (h.hand_rank(), h.hand_rank_validated())) {
                Some((a, b)) if a == b && a.value == want && format!("{:?}", a.name) == $o.cat_name[want as usize] && format!("{:?}", a.class) == $o.class_name[want as usize] => {}
                other => fail("the reported rank does not carry the value / category / class of the best five cards", &inp,
                              &format!("{} {} {}", want, $o.cat_name[want as usize], $o.class_name[want as usize]), &format!("{other:?}")),
            }
        }
        if on(&["C08"]) && e != v {
            fail("value after a suit shift", &inp, &v.to_string(), &e.to_string());
        }
        let witness_ok = if $n == 5 { five == arr[..5] } else {
            five.iter().all(|x| arr.contains(x)) && five.windows(2).all(|p| p[0] > p[1])
        };
        let wv = guarded(|| Five::from(five).hand_rank_value());
        if on(&["C03"]) && (!witness_ok || wv != Some(v)) {
            fail("reported best hand", &inp, &format!("five of the input, descending, value {v}"), &format!("{five:?} value {wv:?}"));
        }
    }};
}

fuzz_target!(|data: &[u8]| {
    quiet_panics();
    if data.len() < 6 { return; }
    let deck = layout_deck();
    let o = ORACLE.get_or_init(load_oracle);
    // first byte: size; then a card per byte, skipping repeats
    let n = 5 + data[0] as usize % 3;
    let mut idx: Vec<usize> = Vec::new();
    for b in &data[1..] {
        let i = *b as usize % 52;
        if !idx.contains(&i) { idx.push(i); }
        if idx.len() == n { break; }
    }
    if idx.len() < n { return; }
    match n {
        5 => check!(Five, 5, &idx, &deck, o),
        6 => check!(Six, 6, &idx, &deck, o),
        _ => check!(Seven, 7, &idx, &deck, o),
    }
    if n == 7 && on(&["C09"]) {
        // C09: seven <= each of its sixes, equal to the smallest of them; each six <= each of its fives, equal to the smallest
        let mut a7 = [0u32; 7];
        for k in 0..7 { a7[k] = deck[idx[k]]; }
        let Some(v7) = guarded(|| Seven::from(a7).hand_rank_value()) else { fail("seven-card ranking panics", &format!("{a7:?}"), "returns", "panic") };
        let mut min6 = u16::MAX;
        for drop in 0..7 {
            let mut a6 = [0u32; 6];
            let mut k = 0;
            for s in 0..7 { if s != drop { a6[k] = a7[s]; k += 1; } }
            let Some(v6) = guarded(|| Six::from(a6).hand_rank_value()) else { fail("six-card ranking panics", &format!("{a6:?}"), "returns", "panic") };
            min6 = min6.min(v6);
            if v7 > v6 {
                fail("seven against six of its cards", &format!("{a7:?} without slot {drop}"), "seven <= six", &format!("{v7} vs {v6}"));
            }
            let mut min5 = u16::MAX;
            for d5 in 0..6 {
                let mut a5 = [0u32; 5];
                let mut k = 0;
                for s in 0..6 { if s != d5 { a5[k] = a6[s]; k += 1; } }
                let Some(v5) = guarded(|| Five::from(a5).hand_rank_value()) else { fail("five-card ranking panics", &format!("{a5:?}"), "returns", "panic") };
                min5 = min5.min(v5);
                if v6 > v5 {
                    fail("six against five of its cards", &format!("{a6:?} without slot {d5}"), "six <= five", &format!("{v6} vs {v5}"));
                }
            }
            if min5 != v6 {
                fail("six is the smallest of its fives", &format!("{a6:?}"), &min5.to_string(), &v6.to_string());
            }
        }
        if min6 != v7 {
            fail("seven is the smallest of its sixes", &format!("{a7:?}"), &min6.to_string(), &v7.to_string());
        }
    }
});
