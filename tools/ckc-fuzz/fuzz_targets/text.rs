#![no_main]
//! Every text entry point against the token grammar (properties C12, C15), on arbitrary UTF-8.
use ckc_rs::cards::binary_card::{BinaryCard, BC64};
use ckc_rs::cards::{five::Five, four::Four, seven::Seven, six::Six, three::Three, two::Two};
use ckc_rs::{CKCNumber, PokerCard};
use ckc_tools::{spec_token, spec_tokens};
use libfuzzer_sys::fuzz_target;
mod common;
use common::*;

fuzz_target!(|data: &[u8]| {
    quiet_panics();
    let Ok(text) = std::str::from_utf8(data) else { return };
    let st: &'static str = Box::leak(text.to_string().into_boxed_str());
    let toks = spec_tokens(text);
    if on(&["C12"]) {
        // the whole text as one card token
        let want = spec_token(text);
        match guarded(|| <CKCNumber as PokerCard>::from_index(text)) {
            Some(g) if g == want => {}
            other => fail("card token", &format!("{text:?}"), &want.to_string(), &format!("{other:?}")),
        }
        // hand parsers: fewer tokens than slots fails; exactly as many fills the slots in token order
        // (more tokens than slots is left to the correspondence check: the property does not speak of it)
        let got: [Option<Option<Vec<u32>>>; 7] = [
            guarded(|| Two::try_from(st).ok().map(|h| h.to_arr().to_vec())),
            guarded(|| Three::try_from(st).ok().map(|h| h.to_arr().to_vec())),
            guarded(|| Four::try_from(st).ok().map(|h| h.to_arr().to_vec())),
            guarded(|| Five::try_from(st).ok().map(|h| h.to_arr().to_vec())),
            guarded(|| Six::try_from(st).ok().map(|h| h.to_arr().to_vec())),
            guarded(|| Seven::try_from(st).ok().map(|h| h.to_arr().to_vec())),
            guarded(|| ckc_rs::parse::five_from_index(text).map(|a| a.to_vec())),
        ];
        for (k, g) in got.iter().enumerate() {
            let n = if k == 6 { 5 } else { k + 2 };
            let name = format!("{}-slot hand parser{}", n, if k == 6 { " (parse::five_from_index)" } else { "" });
            let Some(g) = g else { fail(&format!("{name} panics"), &format!("{text:?}"), "returns", "panic") };
            if toks.len() < n && g.is_some() {
                fail(&name, &format!("{text:?}"), "failure (fewer tokens than slots)", &format!("{g:?}"));
            }
            if toks.len() == n {
                let want: Vec<u32> = toks.iter().map(|t| spec_token(t)).collect();
                if g.as_ref() != Some(&want) {
                    fail(&name, &format!("{text:?}"), &format!("{want:?}"), &format!("{g:?}"));
                }
            }
        }
    }
    if on(&["C15"]) {
        let want_bc = toks.iter().fold(0u64, |a, t| a | <BinaryCard as BC64>::from_ckc(spec_token(t)));
        match guarded(|| <BinaryCard as BC64>::from_index(text)) {
            Some(g) if g == want_bc => {}
            other => fail("bit-set from text", &format!("{text:?}"), &want_bc.to_string(), &format!("{other:?}")),
        }
    }
});
