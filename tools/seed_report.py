#!/usr/bin/env python3
"""Markdown table of the seeded breaking changes (seeded/*/meta.json) for DESIGN.md section 13."""
import glob, json, os, re
rows = []
for m in sorted(glob.glob("/verif/seeded/*/meta.json")):
    d = json.load(open(m))
    if "property" not in d:
        continue      # behaviour-preserving refactorings are reported separately
    name = d["name"]
    what = (d.get("summary") or "").strip() + " — needs: " + (d.get("needs_to_manifest") or "") + ((" — " + d["history"]) if d.get("history") else "")
    first = []
    for q, r in d.get("checks_with_change", {}).items():
        kinds = []
        for l in r["output"]:
            mm = re.search(r"no longer checks: \[([a-z-]+)\] (.*)", l)
            if mm:
                kinds.append(mm.group(1) + ": " + mm.group(2)[:70])
            mm = re.search(r"failing input: (.*?): input (.*?) expected", l)
            if mm and not any(k.startswith("input") for k in kinds):
                kinds.append("input " + mm.group(2)[:60])
        tail = [l for l in r["output"] if l.startswith("VIOLATION")]
        nf = " (no-failing-input-found)" if tail and tail[0].endswith("no-failing-input-found") else ""
        first.append(f"`./check {q} quick` exit {r['exit']} in {r['wall_s']} s{nf}: " + "; ".join(kinds[:3]))
    rows.append((name, d["property"], what, "yes" if d.get("confirmed") else "NO", ", ".join(d.get("caught_by", [])) or "**missed**", " / ".join(first)))
print("| change | property | what it does / what it needs to manifest | confirmed (suite passes, demo fails) | caught by | first signals |")
print("|---|---|---|---|---|---|")
for r in rows:
    print("| " + " | ".join(x.replace("|", "\\|").replace("\n", " ") for x in r) + " |")
