#!/usr/bin/env python3
"""Run every quick check against a behaviour-preserving refactoring of /repo (false-alarm test).

  harmless_eval.py <worktree> <out_subdir> <name>
"""
import json, os, re, shutil, subprocess, sys, time
wt, sub, name = sys.argv[1:4]
src = os.path.join(wt, sub)
dst = os.path.join("/verif/seeded", "harmless-" + name)
os.makedirs(dst, exist_ok=True)
env = dict(os.environ, CARGO_NET_OFFLINE="true")


def sh(cmd, cwd, timeout=7200):
    p = subprocess.run(cmd, cwd=cwd, shell=True, capture_output=True, text=True, env=env, timeout=timeout)
    return p.returncode, p.stdout + p.stderr


patch = os.path.join(src, "patch.diff")
meta = {"name": name, "kind": "behaviour-preserving refactoring (must raise no alarm)"}
sh("git checkout -- . && git clean -fdq tests", wt)
rc, out = sh(f"git apply {patch}", wt)
assert rc == 0, out
rc, out = sh("cargo test --offline --lib 2>&1 | grep 'test result'", wt)
meta["unit_tests_with_change"] = out.strip()
sh("git checkout -- .", wt)
for f in ("patch.diff", "notes.md"):
    if os.path.exists(os.path.join(src, f)):
        shutil.copy(os.path.join(src, f), os.path.join(dst, f))
rc, out = sh("git status --porcelain", "/repo")
assert out.strip() == "", "/repo not clean"
rc, out = sh(f"git apply {os.path.join(dst, 'patch.diff')}", "/repo")
assert rc == 0, out
t0 = time.time()
try:
    rc, out = sh("./check all quick", "/verif")
finally:
    sh("git checkout -- .", "/repo")
lines = [l for l in out.split("\n") if l.startswith("[check]") or l.startswith("VIOLATION")]
ok = [re.search(r"\[check\] (C\d+) quick.*OK", l).group(1) for l in lines if re.search(r"\[check\] (C\d+) quick.*OK", l)]
viol = [l for l in lines if l.startswith("VIOLATION")]
meta["checks_ok"] = ok
meta["violations"] = viol
meta["detail"] = [l[:300] for l in lines if "no longer" in l or "failing input" in l][:20]
meta["wall_s"] = round(time.time() - t0, 1)
for v in viol:
    m = re.match(r"VIOLATION property=(\S+) replay=(\S+)", v)
    if m and os.path.exists(m.group(2)):
        shutil.move(m.group(2), os.path.join(dst, f"replay-{m.group(1)}.json"))
json.dump(meta, open(os.path.join(dst, "meta.json"), "w"), indent=1)
print(name, "suite:", meta["unit_tests_with_change"][:60], "| ok:", len(ok), "| alarms:", [re.search(r"property=(\S+)", v).group(1) + (" (no-failing-input-found)" if v.endswith("no-failing-input-found") else " (WITH INPUT)") for v in viol], meta["wall_s"], "s")
for l in meta["detail"][:6]:
    print("    ", l)
