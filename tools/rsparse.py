#!/usr/bin/env python3
"""A small lexer and recursive-descent parser for the subset of Rust that ckc-rs's non-test code is written in.

Used by rs2lean.py (the source-level translator).  Anything outside the subset raises `Unsupported`, which the
translator records per function ("not translated: <reason>"); it is never an error of the check.
"""
import re


class Unsupported(Exception):
    pass


KEYWORDS = {"fn", "let", "mut", "if", "else", "match", "while", "for", "in", "loop", "return", "break", "continue", "impl",
            "trait", "struct", "enum", "const", "static", "pub", "use", "mod", "type", "as", "self", "Self", "crate", "where",
            "true", "false", "extern", "unsafe", "move", "ref", "dyn", "super"}

PUNCT = ["<<=", ">>=", "...", "..=", "::", "->", "=>", "==", "!=", "<=", ">=", "&&", "||", "+=", "-=", "*=", "/=", "%=", "^=", "&=",
         "|=", "<<", ">>", "..", "+", "-", "*", "/", "%", "^", "!", "&", "|", "=", "<", ">", "@", ".", ",", ";", ":", "#", "$", "?", "(",
         ")", "[", "]", "{", "}", "_"]


def lex(src):
    toks, i, n = [], 0, len(src)
    while i < n:
        c = src[i]
        if c.isspace():
            i += 1
            continue
        if src.startswith("//", i):
            j = src.find("\n", i)
            i = n if j < 0 else j
            continue
        if src.startswith("/*", i):
            depth, i = 1, i + 2
            while i < n and depth:
                if src.startswith("/*", i):
                    depth, i = depth + 1, i + 2
                elif src.startswith("*/", i):
                    depth, i = depth - 1, i + 2
                else:
                    i += 1
            continue
        m = re.match(r'b?r(#*)"', src[i:])
        if m and not (i and (src[i - 1].isalnum() or src[i - 1] == "_")):
            end = '"' + m.group(1)
            j = src.find(end, i + len(m.group(0)))
            if j < 0:
                raise Unsupported("unterminated raw string")
            toks.append(("str", src[i:j + len(end)]))
            i = j + len(end)
            continue
        if c == '"' or (c == "b" and src.startswith('b"', i)):
            j = i + (2 if c == "b" else 1)
            while j < n and src[j] != '"':
                j += 2 if src[j] == "\\" else 1
            toks.append(("str", src[i:j + 1]))
            i = j + 1
            continue
        if c == "'":
            m = re.match(r"'(\\u\{[0-9a-fA-F_]+\}|\\x[0-9a-fA-F]{2}|\\.|[^\\'])'", src[i:])
            if m:
                toks.append(("char", m.group(0)))
                i += len(m.group(0))
                continue
            m = re.match(r"'[A-Za-z_][A-Za-z0-9_]*", src[i:])
            if m:
                toks.append(("lifetime", m.group(0)))
                i += len(m.group(0))
                continue
            raise Unsupported("stray quote")
        if c.isdigit():
            m = re.match(r"0x[0-9a-fA-F_]+|0b[01_]+|0o[0-7_]+|[0-9][0-9_]*(\.[0-9][0-9_]*)?([eE][+-]?[0-9]+)?", src[i:])
            text = m.group(0)
            j = i + len(text)
            # a trailing `.` followed by an identifier or another `.` is a method call / range, not a float
            ms = re.match(r"(u8|u16|u32|u64|u128|usize|i8|i16|i32|i64|i128|isize|f32|f64)\b", src[j:])
            suffix = ms.group(0) if ms else None
            if suffix:
                j += len(suffix)
            # floats written like `2.0`
            toks.append(("num", (text, suffix)))
            i = j
            continue
        if c.isalpha() or c == "_":
            m = re.match(r"[A-Za-z_][A-Za-z0-9_]*", src[i:])
            w = m.group(0)
            if w == "_":
                toks.append(("punct", "_"))
            elif w in KEYWORDS:
                toks.append(("kw", w))
            else:
                toks.append(("id", w))
            i += len(w)
            continue
        for p in PUNCT:
            if src.startswith(p, i):
                toks.append(("punct", p))
                i += len(p)
                break
        else:
            raise Unsupported("unexpected character %r" % c)
    toks.append(("eof", None))
    return toks


BINPREC = [
    ("||",), ("&&",), ("==", "!=", "<", ">", "<=", ">="), ("|",), ("^",), ("&",), ("<<", ">>"), ("+", "-"), ("*", "/", "%"),
]
ASSIGN_OPS = {"=", "+=", "-=", "*=", "/=", "%=", "^=", "&=", "|=", "<<=", ">>="}


class Parser:
    def __init__(self, toks):
        self.t = toks
        self.i = 0

    # --- helpers
    def peek(self, k=0):
        return self.t[min(self.i + k, len(self.t) - 1)]

    def at(self, kind, val=None, k=0):
        a = self.peek(k)
        return a[0] == kind and (val is None or a[1] == val)

    def atp(self, val, k=0):
        return self.at("punct", val, k)

    def atk(self, val, k=0):
        return self.at("kw", val, k)

    def next(self):
        a = self.t[self.i]
        self.i += 1
        return a

    def expect(self, kind, val=None):
        a = self.next()
        if a[0] != kind or (val is not None and a[1] != val):
            raise Unsupported("expected %s %s, got %s" % (kind, val, a))
        return a

    def eat(self, kind, val=None):
        if self.at(kind, val):
            return self.next()
        return None

    def ident(self):
        a = self.next()
        if a[0] == "id" or (a[0] == "kw" and a[1] in ("self", "Self", "crate", "super")):
            return a[1]
        raise Unsupported("expected identifier, got %s" % (a,))

    # --- attributes
    def attrs(self):
        """returns list of attribute texts (token-joined)"""
        out = []
        while self.atp("#"):
            self.next()
            self.eat("punct", "!")
            self.expect("punct", "[")
            depth, buf = 1, []
            while depth:
                a = self.next()
                if a[0] == "eof":
                    raise Unsupported("unterminated attribute")
                if a == ("punct", "["):
                    depth += 1
                elif a == ("punct", "]"):
                    depth -= 1
                    if not depth:
                        break
                buf.append(str(a[1]) if a[0] != "num" else a[1][0])
            out.append("".join(buf))
        return out

    def skip_balanced_item(self):
        """skip one item: up to `;` at depth 0 or a matching `{...}` block"""
        depth = 0
        while True:
            a = self.next()
            if a[0] == "eof":
                return
            if a[0] == "punct" and a[1] in "([{":
                depth += 1
            elif a[0] == "punct" and a[1] in ")]}":
                depth -= 1
                if depth == 0 and a[1] == "}":
                    # `struct X {..}` / `mod x {..}` / `fn f() {..}` end here
                    return
            elif a == ("punct", ";") and depth == 0:
                return

    # --- types
    def ty(self):
        if self.eat("punct", "&") or self.eat("punct", "&&"):
            self.eat("lifetime")
            m = bool(self.eat("kw", "mut"))
            return ("ref", self.ty(), m)
        if self.eat("punct", "("):
            items = []
            while not self.atp(")"):
                items.append(self.ty())
                if not self.eat("punct", ","):
                    break
            self.expect("punct", ")")
            return ("tuple", items)
        if self.eat("punct", "["):
            el = self.ty()
            if self.eat("punct", ";"):
                n = self.expr()
                self.expect("punct", "]")
                return ("array", el, n)
            self.expect("punct", "]")
            return ("slice", el)
        if self.atk("dyn") or self.atk("impl"):
            raise Unsupported("dyn/impl type")
        if self.atp("<"):
            return ("path",) + (self.path(),)
        return ("path", self.path())

    def generic_args(self):
        args = []
        self.expect("punct", "<")
        while not self.atp(">"):
            if self.at("lifetime"):
                self.next()
                args.append(("lifetime",))
            else:
                args.append(self.ty())
            if not self.eat("punct", ","):
                break
        if self.atp(">>"):  # split
            self.t[self.i] = ("punct", ">")
            self.t.insert(self.i, ("punct", ">"))
        self.expect("punct", ">")
        return args

    def path(self, in_expr=False):
        """returns list of segments; a segment is a name or ('qself', type, trait_path); generics dropped except kept in tuple"""
        segs = []
        if self.atp("<"):
            self.next()
            t = self.ty()
            tr = None
            if self.eat("kw", "as"):
                tr = self.path()
            self.expect("punct", ">")
            segs.append(("qself", t, tr))
            self.expect("punct", "::")
        self.eat("punct", "::")
        while True:
            name = self.ident()
            gen = None
            if in_expr:
                if self.atp("::") and self.atp("<", 1):
                    self.next()
                    gen = self.generic_args()
            elif self.atp("<"):
                gen = self.generic_args()
            segs.append((name, gen) if gen else name)
            if self.atp("::") and not self.atp("{", 1) and not self.atp("*", 1):
                self.next()
                continue
            break
        return segs

    # --- items
    def items(self, until_brace=False):
        out = []
        while not self.at("eof"):
            if until_brace and self.atp("}"):
                break
            start = self.i
            try:
                out.append(self.item())
            except Unsupported as e:
                # one item outside the subset must not hide the rest of the file
                self.i = start
                try:
                    self.attrs()
                except Unsupported:
                    pass
                if self.eat("kw", "pub") and self.atp("("):
                    self.skip_parens()
                if self.i == start and self.atp(";"):
                    self.next()
                else:
                    self.skip_balanced_item()
                out.append(("unparsed", str(e)))
        return [x for x in out if x]

    def item(self):
        attrs = self.attrs()
        is_test = any(re.match(r"cfg\(test\)", a) or a == "test" for a in attrs)
        cfgs = [a for a in attrs if a.startswith("cfg(") or a.startswith("cfg_attr(")]
        vis = False
        if self.eat("kw", "pub"):
            vis = True
            if self.atp("("):
                self.skip_parens()
        if is_test:
            self.skip_balanced_item()
            return None
        a = self.peek()
        if a == ("kw", "use") or a == ("kw", "extern"):
            while not self.atp(";") and not self.at("eof"):
                self.next()
            self.next()
            return None
        if a == ("kw", "mod"):
            self.next()
            name = self.ident()
            if self.eat("punct", ";"):
                return ("moddecl", name, cfgs)
            self.expect("punct", "{")
            body = self.items(until_brace=True)
            self.expect("punct", "}")
            return ("mod", name, body, cfgs)
        if a == ("kw", "type"):
            self.next()
            name = self.ident()
            if self.eat("punct", "="):
                t = self.ty()
                self.expect("punct", ";")
                return ("alias", name, t)
            self.expect("punct", ";")
            return ("assoc_type", name)
        if a == ("kw", "struct"):
            self.next()
            name = self.ident()
            if self.atp("<"):
                raise Unsupported("generic struct")
            if self.eat("punct", ";"):
                return ("struct", name, "unit", [])
            if self.eat("punct", "("):
                fields = []
                while not self.atp(")"):
                    self.attrs()
                    self.eat("kw", "pub")
                    fields.append(self.ty())
                    if not self.eat("punct", ","):
                        break
                self.expect("punct", ")")
                self.expect("punct", ";")
                return ("struct", name, "tuple", fields)
            self.expect("punct", "{")
            fields = []
            while not self.atp("}"):
                self.attrs()
                if self.eat("kw", "pub") and self.atp("("):
                    self.skip_parens()
                fname = self.ident()
                self.expect("punct", ":")
                fields.append((fname, self.ty()))
                if not self.eat("punct", ","):
                    break
            self.expect("punct", "}")
            return ("struct", name, "named", fields)
        if a == ("kw", "enum"):
            self.next()
            name = self.ident()
            self.expect("punct", "{")
            variants = []
            while not self.atp("}"):
                self.attrs()
                vname = self.ident()
                disc = None
                if self.atp("(") or self.atp("{"):
                    raise Unsupported("enum with payload")
                if self.eat("punct", "="):
                    disc = self.expr()
                variants.append((vname, disc))
                if not self.eat("punct", ","):
                    break
            self.expect("punct", "}")
            return ("enum", name, variants)
        if a == ("kw", "const") or a == ("kw", "static"):
            if a[1] == "const" and self.atk("fn", 1):
                self.next()
                return self.fn(attrs, vis, cfgs, const=True)
            self.next()
            mut = bool(self.eat("kw", "mut"))
            name = self.ident() if not self.atp("_") else (self.next() and "_")
            self.expect("punct", ":")
            t = self.ty()
            val = None
            if self.eat("punct", "="):
                val = self.expr()
            self.expect("punct", ";")
            return ("const" if a[1] == "const" else "static", name, t, val, mut, cfgs)
        if a == ("kw", "unsafe"):
            raise Unsupported("unsafe item")
        if a == ("kw", "fn"):
            return self.fn(attrs, vis, cfgs)
        if a == ("kw", "impl"):
            self.next()
            if self.atp("<"):
                self.generic_args()
                generic = True
            else:
                generic = False
            neg = bool(self.eat("punct", "!"))
            first = self.ty()
            trait = None
            target = first
            if self.eat("kw", "for"):
                trait = first
                target = self.ty()
            if self.atk("where"):
                raise Unsupported("where clause")
            self.expect("punct", "{")
            body = self.items(until_brace=True)
            self.expect("punct", "}")
            return ("impl", trait, target, body, generic or neg, cfgs)
        if a == ("kw", "trait"):
            self.next()
            name = self.ident()
            if self.atp("<"):
                self.generic_args()
            if self.eat("punct", ":"):
                while not self.atp("{"):
                    self.next()
            self.expect("punct", "{")
            body = self.items(until_brace=True)
            self.expect("punct", "}")
            return ("trait", name, body, cfgs)
        if a[0] == "id" and self.atp("!", 1):
            # item macro (macro_rules!, lazy_static!, thread_local!)
            name = self.next()[1]
            self.skip_balanced_item()
            return ("macro_item", name)
        raise Unsupported("item starting with %s" % (a,))

    def skip_parens(self):
        depth = 0
        while True:
            a = self.next()
            if a == ("punct", "("):
                depth += 1
            elif a == ("punct", ")"):
                depth -= 1
                if not depth:
                    return
            elif a[0] == "eof":
                raise Unsupported("unbalanced")

    def fn(self, attrs, vis, cfgs, const=False):
        out = self.fn_(attrs, vis, cfgs, const, self.i)
        return out

    def fn_(self, attrs, vis, cfgs, const, fn_start):
        self.expect("kw", "fn")
        name = self.ident()
        generics = None
        if self.atp("<"):
            generics = self.generic_args()
        self.expect("punct", "(")
        params = []
        selfkind = None
        while not self.atp(")"):
            self.attrs()
            if self.atp("&") and (self.atk("self", 1) or (self.atk("mut", 1) and self.atk("self", 2)) or (self.at("lifetime", None, 1))):
                self.next()
                self.eat("lifetime")
                m = bool(self.eat("kw", "mut"))
                self.expect("kw", "self")
                selfkind = "refmut" if m else "ref"
            elif self.atk("self") or (self.atk("mut") and self.atk("self", 1)):
                m = bool(self.eat("kw", "mut"))
                self.next()
                selfkind = "valmut" if m else "val"
                if self.eat("punct", ":"):
                    self.ty()
            else:
                pat = self.pattern()
                self.expect("punct", ":")
                params.append((pat, self.ty()))
            if not self.eat("punct", ","):
                break
        self.expect("punct", ")")
        ret = ("tuple", [])
        if self.eat("punct", "->"):
            ret = self.ty()
        if self.atk("where"):
            raise Unsupported("where clause")
        body = None
        body_span = None
        if self.eat("punct", ";"):
            pass
        else:
            start = self.i
            try:
                body = self.block()
                body_err = None
            except Unsupported as e:
                # skip the body, remember why
                self.i = start
                self.skip_block()
                body = None
                body_err = str(e)
            body_span = (start, self.i)
            return ("fn", name, selfkind, params, ret, body, {"attrs": attrs, "cfgs": cfgs, "generics": generics, "err": body_err, "span": body_span, "const": const,
                                                                "tokens": self.t[fn_start:self.i]})
        return ("fn", name, selfkind, params, ret, None, {"attrs": attrs, "cfgs": cfgs, "generics": generics, "err": None, "span": None, "const": const,
                                                           "tokens": self.t[fn_start:self.i]})

    def skip_block(self):
        self.expect("punct", "{")
        depth = 1
        while depth:
            a = self.next()
            if a == ("punct", "{"):
                depth += 1
            elif a == ("punct", "}"):
                depth -= 1
            elif a[0] == "eof":
                raise Unsupported("unbalanced block")

    # --- patterns
    def pattern(self):
        alts = [self.pattern1()]
        while self.eat("punct", "|"):
            alts.append(self.pattern1())
        return alts[0] if len(alts) == 1 else ("por", alts)

    def pattern1(self):
        if self.eat("punct", "_"):
            return ("pwild",)
        if self.eat("punct", "&"):
            self.eat("kw", "mut")
            return ("pref", self.pattern1())
        if self.eat("punct", "("):
            items = []
            while not self.atp(")"):
                items.append(self.pattern())
                if not self.eat("punct", ","):
                    break
            self.expect("punct", ")")
            return ("ptuple", items)
        if self.atp("["):
            raise Unsupported("slice pattern")
        if self.at("num") or self.at("char") or self.atp("-") or self.at("str"):
            lo = self.lit_pat()
            if self.eat("punct", "..="):
                hi = self.lit_pat()
                return ("prange", lo, hi)
            if self.atp("..") or self.atp("..."):
                raise Unsupported("exclusive/legacy range pattern")
            return ("plit", lo)
        if self.eat("kw", "true"):
            return ("plit", ("bool", True))
        if self.eat("kw", "false"):
            return ("plit", ("bool", False))
        if self.atk("ref") or self.atk("mut"):
            m = False
            while self.atk("ref") or self.atk("mut"):
                m = m or self.next()[1] == "mut"
            name = self.ident()
            return ("pbind", name, m)
        p = self.path(in_expr=True)
        if self.eat("punct", "("):
            items = []
            while not self.atp(")"):
                items.append(self.pattern())
                if not self.eat("punct", ","):
                    break
            self.expect("punct", ")")
            return ("pctor", p, items)
        if self.atp("{"):
            raise Unsupported("struct pattern")
        if self.eat("punct", "..="):
            hi = self.path(in_expr=True)
            return ("prange", ("path", p), ("path", hi))
        if self.eat("punct", "@"):
            raise Unsupported("@ pattern")
        if len(p) == 1 and isinstance(p[0], str) and p[0][0].islower():
            return ("pbind", p[0], False)
        return ("ppath", p)

    def lit_pat(self):
        neg = bool(self.eat("punct", "-"))
        a = self.next()
        if a[0] == "num":
            return ("num", a[1][0], a[1][1], neg)
        if a[0] == "char":
            return ("char", a[1])
        if a[0] == "str":
            return ("str", a[1])
        raise Unsupported("literal pattern")

    # --- blocks and statements
    def block(self):
        self.expect("punct", "{")
        stmts = []
        tail = None
        while not self.atp("}"):
            if self.eat("punct", ";"):
                continue
            attrs = self.attrs()
            if any(a.startswith("cfg") for a in attrs):
                raise Unsupported("cfg attribute on a statement")
            if self.atk("let"):
                self.next()
                pat = self.pattern()
                t = None
                if self.eat("punct", ":"):
                    t = self.ty()
                init = None
                if self.eat("punct", "="):
                    init = self.expr()
                if self.atk("else"):
                    raise Unsupported("let-else")
                self.expect("punct", ";")
                stmts.append(("let", pat, t, init))
                continue
            if self.atk("fn") or self.atk("const") or self.atk("static") or self.atk("struct") or self.atk("use") or self.atk("impl") or self.atk("enum") or self.atk("trait") or self.atk("mod"):
                raise Unsupported("item inside a function body")
            e = self.expr(stmt=True)
            if self.eat("punct", ";"):
                stmts.append(("expr", e))
            elif self.atp("}"):
                tail = e
            elif e[0] in ("if", "match", "while", "for", "loop", "block", "unsafe"):
                stmts.append(("expr", e))
            else:
                raise Unsupported("expected ; after expression, got %s" % (self.peek(),))
        self.expect("punct", "}")
        return ("block", stmts, tail)

    # --- expressions
    def expr(self, stmt=False, nostruct=False):
        return self.assign(stmt, nostruct)

    def assign(self, stmt, nostruct):
        lhs = self.range_(stmt, nostruct)
        a = self.peek()
        if a[0] == "punct" and a[1] in ASSIGN_OPS:
            self.next()
            rhs = self.assign(False, nostruct)
            return ("assign", a[1], lhs, rhs)
        return lhs

    def range_(self, stmt, nostruct):
        if self.atp("..") or self.atp("..="):
            op = self.next()[1]
            hi = None
            if not (self.atp("]") or self.atp(")") or self.atp("{") or self.atp(";") or self.atp(",")):
                hi = self.binary(0, False, nostruct)
            return ("range", None, hi, op == "..=")
        lo = self.binary(0, stmt, nostruct)
        if self.atp("..") or self.atp("..="):
            op = self.next()[1]
            hi = None
            if not (self.atp("]") or self.atp(")") or self.atp("{") or self.atp(";") or self.atp(",")):
                hi = self.binary(0, False, nostruct)
            return ("range", lo, hi, op == "..=")
        return lo

    def binary(self, level, stmt, nostruct):
        if level == len(BINPREC):
            return self.cast(stmt, nostruct)
        lhs = self.binary(level + 1, stmt, nostruct)
        # a block-like expression in statement position ends the statement
        if stmt and lhs[0] in ("if", "match", "while", "for", "loop", "block") and not self.atp("."):
            return lhs
        while True:
            a = self.peek()
            if a[0] == "punct" and a[1] in BINPREC[level]:
                # `|` `||` after a closure param list are not reachable here
                self.next()
                rhs = self.binary(level + 1, False, nostruct)
                lhs = ("bin", a[1], lhs, rhs)
                if level == 2 and self.peek()[0] == "punct" and self.peek()[1] in BINPREC[2]:
                    raise Unsupported("chained comparison")
            else:
                return lhs

    def cast(self, stmt, nostruct):
        e = self.unary(stmt, nostruct)
        while self.atk("as"):
            self.next()
            e = ("cast", e, self.ty())
        return e

    def unary(self, stmt, nostruct):
        if self.eat("punct", "!"):
            return ("un", "!", self.unary(False, nostruct))
        if self.eat("punct", "-"):
            return ("un", "-", self.unary(False, nostruct))
        if self.eat("punct", "*"):
            return ("deref", self.unary(False, nostruct))
        if self.atp("&") or self.atp("&&"):
            two = self.next()[1] == "&&"
            m = bool(self.eat("kw", "mut"))
            e = ("addr", self.unary(False, nostruct), m)
            return ("addr", e, False) if two else e
        prim = self.primary(stmt, nostruct)
        if stmt and prim[0] in ("if", "match", "while", "for", "loop", "block") and not self.atp(".") and not self.atp("?"):
            return prim
        return self.postfix(prim, nostruct)

    def postfix(self, e, nostruct):
        while True:
            if self.atp("?"):
                self.next()
                e = ("try", e)
            elif self.atp("."):
                self.next()
                if self.at("num"):
                    a = self.next()
                    text = a[1][0]
                    # `x.0.1` lexes as a float
                    for part in text.split("."):
                        e = ("field", e, part)
                    continue
                name = self.ident()
                gen = None
                if self.atp("::") and self.atp("<", 1):
                    self.next()
                    gen = self.generic_args()
                if self.atp("("):
                    args = self.call_args()
                    e = ("mcall", e, name, args)
                else:
                    e = ("field", e, name)
            elif self.atp("("):
                args = self.call_args()
                e = ("call", e, args)
            elif self.atp("["):
                self.next()
                idx = self.expr()
                self.expect("punct", "]")
                e = ("index", e, idx)
            else:
                return e

    def call_args(self):
        self.expect("punct", "(")
        args = []
        while not self.atp(")"):
            args.append(self.expr())
            if not self.eat("punct", ","):
                break
        self.expect("punct", ")")
        return args

    def primary(self, stmt, nostruct):
        a = self.peek()
        if a[0] == "num":
            self.next()
            return ("num", a[1][0], a[1][1])
        if a[0] == "char":
            self.next()
            return ("char", a[1])
        if a[0] == "str":
            self.next()
            return ("str", a[1])
        if a == ("kw", "true") or a == ("kw", "false"):
            self.next()
            return ("bool", a[1] == "true")
        if a == ("punct", "("):
            self.next()
            items = []
            trailing = False
            while not self.atp(")"):
                items.append(self.expr())
                trailing = False
                if not self.eat("punct", ","):
                    break
                trailing = True
            self.expect("punct", ")")
            if len(items) == 1 and not trailing:
                return ("paren", items[0])
            return ("tuple", items)
        if a == ("punct", "["):
            self.next()
            items = []
            if self.atp("]"):
                self.next()
                return ("array", [])
            first = self.expr()
            if self.eat("punct", ";"):
                n = self.expr()
                self.expect("punct", "]")
                return ("repeat", first, n)
            items.append(first)
            while self.eat("punct", ","):
                if self.atp("]"):
                    break
                items.append(self.expr())
            self.expect("punct", "]")
            return ("array", items)
        if a == ("punct", "{"):
            return self.block()
        if a == ("kw", "unsafe"):
            raise Unsupported("unsafe block")
        if a == ("kw", "if"):
            return self.if_()
        if a == ("kw", "match"):
            self.next()
            scrut = self.expr(nostruct=True)
            self.expect("punct", "{")
            arms = []
            while not self.atp("}"):
                self.attrs()
                self.eat("punct", "|")
                pat = self.pattern()
                guard = None
                if self.eat("kw", "if"):
                    guard = self.expr()
                self.expect("punct", "=>")
                body = self.expr(stmt=True)
                arms.append((pat, guard, body))
                if not self.eat("punct", ","):
                    if not (body[0] == "block") and not self.atp("}"):
                        raise Unsupported("match arm separator")
            self.expect("punct", "}")
            return ("match", scrut, arms)
        if a == ("kw", "while"):
            self.next()
            if self.atk("let"):
                raise Unsupported("while let")
            c = self.expr(nostruct=True)
            return ("while", c, self.block())
        if a == ("kw", "loop"):
            self.next()
            return ("loop", self.block())
        if a == ("kw", "for"):
            self.next()
            pat = self.pattern()
            self.expect("kw", "in")
            it = self.expr(nostruct=True)
            return ("for", pat, it, self.block())
        if a == ("kw", "return"):
            self.next()
            if self.atp(";") or self.atp("}") or self.atp(","):
                return ("return", None)
            return ("return", self.expr())
        if a == ("kw", "break"):
            self.next()
            if self.at("lifetime"):
                raise Unsupported("labelled break")
            if not (self.atp(";") or self.atp("}") or self.atp(",")):
                raise Unsupported("break with value")
            return ("break",)
        if a == ("kw", "continue"):
            self.next()
            if self.at("lifetime"):
                raise Unsupported("labelled continue")
            return ("continue",)
        if a == ("kw", "move"):
            self.next()
            a = self.peek()
        if a == ("punct", "|") or a == ("punct", "||"):
            params = []
            if self.next()[1] == "|":
                while not self.atp("|"):
                    p = self.pattern1()
                    if self.eat("punct", ":"):
                        self.ty()
                    params.append(p)
                    if not self.eat("punct", ","):
                        break
                self.expect("punct", "|")
            if self.atp("->"):
                raise Unsupported("closure with return type")
            return ("closure", params, self.expr())
        if a[0] == "lifetime":
            raise Unsupported("labelled block")
        # path, macro, struct literal
        p = self.path(in_expr=True)
        if self.atp("!") and not self.atp("!=") :
            # macro invocation
            self.next()
            depth = 0
            buf = []
            while True:
                b = self.next()
                if b[0] == "eof":
                    raise Unsupported("unbalanced macro")
                if b[0] == "punct" and b[1] in "([{":
                    depth += 1
                elif b[0] == "punct" and b[1] in ")]}":
                    depth -= 1
                    if not depth:
                        break
                buf.append(b)
            return ("macro", p, buf)
        if self.atp("{") and not nostruct and isinstance(p[-1], str) and (p[-1][0].isupper()):
            # struct literal
            self.next()
            fields = []
            while not self.atp("}"):
                if self.atp(".."):
                    raise Unsupported("struct update syntax")
                fname = self.ident()
                if self.eat("punct", ":"):
                    val = self.expr()
                else:
                    val = ("path", [fname])
                fields.append((fname, val))
                if not self.eat("punct", ","):
                    break
            self.expect("punct", "}")
            return ("structlit", p, fields)
        return ("path", p)

    def if_(self):
        self.expect("kw", "if")
        if self.atk("let"):
            raise Unsupported("if let")
        c = self.expr(nostruct=True)
        then = self.block()
        els = None
        if self.eat("kw", "else"):
            if self.atk("if"):
                els = self.if_()
            else:
                els = self.block()
        return ("if", c, then, els)


def parse_file(src):
    return Parser(lex(src)).items()


if __name__ == "__main__":
    import sys, pprint
    for f in sys.argv[1:]:
        its = parse_file(open(f).read())

        def walk(its, pre=""):
            for it in its:
                if it[0] in ("impl",):
                    print(pre + "impl", it[1], "for" if it[1] else "", it[2])
                    walk(it[3], pre + "  ")
                elif it[0] == "trait":
                    print(pre + "trait", it[1])
                    walk(it[2], pre + "  ")
                elif it[0] == "mod":
                    print(pre + "mod", it[1])
                    walk(it[2], pre + "  ")
                elif it[0] == "fn":
                    print(pre + "fn", it[1], "OK" if it[5] else ("decl" if not it[6]["err"] else "ERR " + it[6]["err"]))
                else:
                    print(pre + it[0], it[1] if len(it) > 1 else "")
        walk(its)
