#!/usr/bin/env python3
"""Confirm a seeded breaking change and run the checks against it.

  seed_eval.py <property> <worktree> <out_subdir> <name> [extra properties to run...]

 1. in the scratch worktree: demo passes on the pinned source, the unit suite (2542) passes with the
    patch, the demo fails with the patch;
 2. copy patch.diff / demo / notes to /verif/seeded/<name>/;
 3. apply the patch to /repo, run ./check <property> quick (and any extra), undo the patch;
 4. write /verif/seeded/<name>/meta.json.
"""
import json, os, re, shutil, subprocess, sys, time

pid, wt, sub, name = sys.argv[1:5]
extra = sys.argv[5:]
src = os.path.join(wt, sub)
dst = os.path.join("/verif/seeded", name)
os.makedirs(dst, exist_ok=True)
env = dict(os.environ, CARGO_NET_OFFLINE="true")


def sh(cmd, cwd, timeout=3600):
    p = subprocess.run(cmd, cwd=cwd, shell=True, capture_output=True, text=True, env=env, timeout=timeout)
    return p.returncode, p.stdout + p.stderr


patch = os.path.join(src, "patch.diff")
demo = os.path.join(src, "demo_break.rs")
assert os.path.exists(patch) and os.path.exists(demo), "missing patch or demo"
meta = {"property": pid, "name": name, "ran": []}
sh("git checkout -- . && git clean -fdq tests", wt)
os.makedirs(os.path.join(wt, "tests"), exist_ok=True)
shutil.copy(demo, os.path.join(wt, "tests", "demo_break.rs"))
rc, out = sh("cargo test --offline --test demo_break 2>&1 | tail -5", wt)
meta["demo_passes_without_change"] = "test result: ok" in out
meta["ran"].append("pinned source: cargo test --offline --test demo_break -> " + ("pass" if meta["demo_passes_without_change"] else "FAIL"))
rc, out = sh(f"git apply {patch}", wt)
assert rc == 0, "patch does not apply: " + out
rc, out = sh("cargo test --offline --lib 2>&1 | grep 'test result'", wt)
m = re.search(r"(\d+) passed; (\d+) failed", out)
meta["unit_tests_with_change"] = out.strip()
meta["suite_passes_with_change"] = bool(m and m.group(1) == "2542" and m.group(2) == "0")
meta["ran"].append("with change: cargo test --offline --lib -> " + out.strip())
rc, out = sh("cargo test --offline --test demo_break 2>&1 | grep -E 'test result' | head -5", wt)
meta["demo_fails_with_change"] = "FAILED" in out or "failed" in out
meta["ran"].append("with change: cargo test --offline --test demo_break -> " + ("fails (as required)" if meta["demo_fails_with_change"] else "PASSES"))
for f in ("patch.diff", "demo_break.rs", "notes.md"):
    if os.path.exists(os.path.join(src, f)):
        shutil.copy(os.path.join(src, f), os.path.join(dst, f))
meta["confirmed"] = meta["demo_passes_without_change"] and meta["suite_passes_with_change"] and meta["demo_fails_with_change"]
# run the checks against it
rc, out = sh("git status --porcelain", "/repo")
assert out.strip() == "", "/repo is not clean: " + out
rc, out = sh(f"git apply {os.path.join(dst, 'patch.diff')}", "/repo")
assert rc == 0, "patch does not apply to /repo: " + out
results = {}
try:
    for q in [pid] + extra:
        t0 = time.time()
        rc, out = sh(f"./check {q} quick", "/verif", timeout=7200)
        lines = [l for l in out.split("\n") if l.startswith("[check]") or l.startswith("VIOLATION") or l.startswith("KNOWN")]
        results[q] = {"exit": rc, "wall_s": round(time.time() - t0, 1), "output": lines[-12:]}
        for l in lines:
            m = re.match(r"VIOLATION property=\S+ replay=(\S+)", l)
            if m and os.path.exists(m.group(1)):
                shutil.copy(m.group(1), os.path.join(dst, f"replay-{q}.json"))
                os.remove(m.group(1))
finally:
    sh("git checkout -- .", "/repo")
meta["checks_with_change"] = results
meta["caught_by"] = [q for q, r in results.items() if r["exit"] != 0]
meta["needs_to_manifest"] = ""
notes = os.path.join(dst, "notes.md")
if os.path.exists(notes):
    meta["notes_excerpt"] = open(notes).read()[:1500]
json.dump(meta, open(os.path.join(dst, "meta.json"), "w"), indent=1, ensure_ascii=False)
print(json.dumps({k: meta[k] for k in ("name", "confirmed", "caught_by")}, ensure_ascii=False))
for q, r in results.items():
    print(q, "exit", r["exit"], r["wall_s"], "s")
    for l in r["output"][-6:]:
        print("   ", l[:300])
