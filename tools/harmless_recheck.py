#!/usr/bin/env python3
"""False-alarm test: every quick check of a property anchored in a file the refactoring touches, against each
behaviour-preserving refactoring kept in seeded/harmless-*/ (drift escalation off: the thorough tier is timed separately).
Writes seeded/harmless_recheck.json.  Never commits anything to /repo."""
import json, os, re, subprocess, sys, time
sys.path.insert(0, "/verif/tools")
from propdefs import PROPS
ROOT = "/verif"
env = dict(os.environ, CARGO_NET_OFFLINE="true", CKC_NO_DRIFT_ESCALATION="1")
anchors = {}
for ln in open(f"{ROOT}/properties.jsonl"):
    p = json.loads(ln)
    anchors[p["id"]] = set(p.get("anchors", {}).get("files", [])) | set(PROPS[p["id"]].get("extra_anchors", []))


def sh(cmd, cwd, timeout=14400):
    p = subprocess.run(cmd, cwd=cwd, shell=True, capture_output=True, text=True, env=env, timeout=timeout)
    return p.returncode, p.stdout + p.stderr


res = {}
names = sys.argv[1:] or sorted(n for n in os.listdir(f"{ROOT}/seeded") if n.startswith("harmless-"))
for n in names:
    patch = f"{ROOT}/seeded/{n}/patch.diff"
    touched = set(re.findall(r"^\+\+\+ b/(\S+)", open(patch).read(), re.M))
    props = sorted(k for k, v in anchors.items() if v & touched)
    rc, out = sh("git status --porcelain", "/repo")
    assert out.strip() == "", "/repo not clean"
    rc, out = sh(f"git apply {patch}", "/repo")
    assert rc == 0, out
    r = {}
    try:
        for pid in props:
            t0 = time.time()
            rc, out = sh(f"./check {pid} quick", ROOT)
            r[pid] = {"exit": rc, "wall_s": round(time.time() - t0, 1),
                      "alarm": [l for l in out.split("\n") if l.startswith("VIOLATION") or "no longer checks" in l or "failing input" in l][:6]}
    finally:
        sh("git checkout -- .", "/repo")
    res[n] = {"touched": sorted(touched), "checks": r, "alarms": sorted(k for k, v in r.items() if v["exit"] != 0)}
    print(n, len(props), "checks, alarms:", res[n]["alarms"], flush=True)
    json.dump(res, open(f"{ROOT}/seeded/harmless_recheck.json", "w"), indent=1)
subprocess.run("rm -f /verif/replays/*.json", shell=True)
