#!/usr/bin/env python3
"""Write MANIFEST.json from tools/propdefs.py (one source of truth for what is claimed)."""
import json, os, sys
ROOT = os.path.dirname(os.path.dirname(os.path.abspath(__file__)))
sys.path.insert(0, os.path.join(ROOT, "tools"))
from propdefs import PROPS, TRUSTED_BASE

props = [json.loads(l) for l in open(os.path.join(ROOT, "properties.jsonl"))]
checks, na = [], []
for p in props:
    pid = p["id"]
    if pid in PROPS:
        d = PROPS[pid]
        checks.append({
            "property_id": pid,
            "quick_cmd": f"./check {pid} quick",
            "thorough_cmd": f"./check {pid} thorough",
            "evidence_file": f"/verif/evidence/{pid}.json",
            "replay_cmd_template": f"./check {pid} --replay {{path}}",
            "engine": "lean4-proof+correspondence",
            "level_claimed": {
                "category": "proof",
                "text": d["level_text"],
                "design_ref": f"DESIGN.md section 6, {pid}",
            },
            "level_note": d["level_note"] + " Source tie (DESIGN.md section 15): the algorithmic functions this property rests on are also translated from the current source text on every run (tools/rs2lean.py) and proved equal to the model definitions (lean/CkcVerif/Tie, evidence coverage.source_tie lists which); a function outside the translator's subset, or whose tie theorem no longer checks, falls back to the correspondence alone.",
            "technique": d["technique"] + "; model tied to the code by (a) regeneration of data from the compiled crate, (b) mechanical translation of the algorithmic functions from source with Lean theorems translated = model, (c) differential correspondence",
        })
    else:
        na.append({"property_id": pid, "reason": "not claimed yet: its Lean theorems and correspondence check are still under construction in this tree (see DESIGN.md section 6 for the plan)"})
m = {
    "version": 1,
    "setup_cmd": "./check setup",
    "hooks": {
        "guard": "--cfg contractbridge_ckc_rs_verif",
        "enable": "RUSTFLAGS='--cfg contractbridge_ckc_rs_verif' (set in tools/ckc-tools/.cargo/config.toml; the tools crate depends on /repo by path)",
        "baseline_off_cmd": "cd /repo && cargo nextest run --workspace --no-fail-fast --tool-config-file pb:/w/lib/nextest.toml --profile pb --test-threads 8 --offline || cargo test --workspace --no-fail-fast --offline",
        "source_commits": ["10988c9"],
        "add_only": True,
    },
    "engines": [{
        "name": "lean4-proof+correspondence",
        "path": "/verif/check",
        "serves_properties": sorted(PROPS),
        "kind_free_text": "Lean 4 theorems about an executable model; data part of the model regenerated from the compiled crate on every run (tools/ckc-tools extract + tools/gen_lean.py), algorithmic part translated from the source text on every run (tools/rs2lean.py) and proved equal to the model (lean/CkcVerif/Tie), and additionally tied by a differential correspondence check (tools/ckc-tools harness vs lean/Driver.lean); implementation-vs-specification sweeps as the failing-input search",
    }],
    "checks": checks,
    "not_applicable": na,
    "notes": "Three genuine defects (C05, C07, C13) were repaired by fix: commits in /repo; see known_findings.txt and DESIGN.md section 7. Trusted base: " + "; ".join(TRUSTED_BASE),
}
json.dump(m, open(os.path.join(ROOT, "MANIFEST.json"), "w"), indent=1)
print(f"MANIFEST.json: {len(checks)} checks, {len(na)} not claimed")
