#!/usr/bin/env python3
"""Source-level translator: the algorithmic functions of /repo/src/**/*.rs  ->  Lean definitions (namespace `Src`).

    rs2lean.py <repo> <out.lean> <status.json>

Every non-test function of the crate is attempted.  A function whose body lies inside the supported subset of Rust is
emitted as a Lean definition `Src.<Owner>.<name>` returning `Option τ` (`none` = the Rust code panics: bounds check,
unsigned subtraction below zero, exhausted loop fuel); the others are listed with the reason in the status file and as
comments in the Lean file.  Conventions (DESIGN section 15):

 * integers are `Nat`; `& | ^` are exact; narrowing `as` is reduced modulo the width; `+ - * / %` on unsigned integers
   are checked (`Src.add w`, `Src.sub`, `Src.mul w` …: `none` = the overflow panic of a build with overflow checks);
   shifts by a constant below the width are exact (`<<` reduced modulo the width), other shifts are checked;
 * arrays, slices and the new-type hand containers are `List`s; enum values are their discriminants;
 * `&mut self` methods return the new receiver (paired with the result when there is one);
 * `while` becomes `Src.whileFuel fuel …` (every function that loops, or calls one that does, takes a `fuel` argument);
   `for x in <table>` becomes `Src.forList`; `return` / `break` / `continue` are the constructors of `Src.Ctl`;
 * `if` / `match` duplicate their continuation (no join points);
 * the four lookup tables are the regenerated packed tables (`CK.packed`).
"""
import json, os, re, sys

sys.path.insert(0, os.path.dirname(os.path.abspath(__file__)))
from rsparse import parse_file, Unsupported, lex

INT_W = {"u8": 8, "u16": 16, "u32": 32, "u64": 64, "usize": 64, "u128": 128}
SIGNED = {"i8", "i16", "i32", "i64", "isize", "i128"}
LEAN_RESERVED = {"end", "from", "at", "show", "have", "fun", "match", "with", "then", "do", "in", "if", "else", "let", "def", "theorem",
                 "open", "where", "by", "instance", "class", "structure", "inductive", "namespace", "section", "variable", "universe",
                 "import", "mutual", "private", "protected", "partial", "unsafe", "return", "for", "while", "break", "continue", "try", "catch",
                 "finally", "using", "calc", "set", "Type", "Prop", "Sort", "fuel", "some", "none", "true", "false", "abbrev", "example",
                 "macro", "syntax", "notation", "infix", "prefix", "postfix", "deriving", "extends", "mut", "nomatch", "nofun", "local"}

U = ("unknown",)
BOOL = ("bool",)
UNIT = ("unit",)


def I(w):
    return ("int", w)


class Crate:
    def __init__(self, root):
        self.root = root
        self.aliases = {}
        self.structs = {}
        self.enums = {}
        self.consts = {}      # (owner, name) -> (type_ast, expr_ast)
        self.fns = {}         # (owner, name) -> list of records
        self.traits = {}      # trait name -> {fname: record}
        self.trait_impls = {}  # trait name -> [owner]
        self.impl_traits = {}  # owner -> [trait names]
        self.notes = []
        self.files = {}
        for dp, dn, fn in os.walk(os.path.join(root, "src")):
            for f in sorted(fn):
                if f.endswith(".rs"):
                    p = os.path.join(dp, f)
                    rel = os.path.relpath(p, root)
                    try:
                        items = parse_file(open(p, encoding="utf-8").read())
                    except Unsupported as e:
                        self.notes.append("%s: not parsed: %s" % (rel, e))
                        continue
                    self.files[rel] = items
        # two passes: type-level items first
        for rel, items in self.files.items():
            mod = os.path.splitext(os.path.basename(rel))[0]
            if mod == "mod":
                mod = os.path.basename(os.path.dirname(rel))
            if mod == "lib":
                mod = "crate"
            self.collect_types(items, mod)
        for rel, items in self.files.items():
            mod = os.path.splitext(os.path.basename(rel))[0]
            if mod == "mod":
                mod = os.path.basename(os.path.dirname(rel))
            if mod == "lib":
                mod = "crate"
            self.collect(items, mod, rel)

    def collect_types(self, items, mod):
        for it in items:
            k = it[0]
            if k == "alias":
                self.aliases[it[1]] = it[2]
            elif k == "struct":
                self.structs[it[1]] = (it[2], it[3])
            elif k == "enum":
                self.enums[it[1]] = it[2]
            elif k == "mod":
                self.collect_types(it[2], it[1])

    def owner_of_type(self, t):
        t = self.norm(t)
        if t[0] == "int":
            return t[1]
        if t[0] in ("adt", "enum"):
            return t[1]
        if t[0] == "arr":
            return "array"
        if t[0] == "ref":
            return self.owner_of_type(t[1])
        return None

    def collect(self, items, mod, rel):
        for it in items:
            k = it[0]
            if k == "const":
                self.consts[(mod, it[1])] = (it[2], it[3])
            elif k == "unparsed":
                self.notes.append("%s: an item is outside the parser's subset: %s" % (rel, it[1]))
            elif k == "static":
                self.notes.append("%s: static %s" % (rel, it[1]))
            elif k == "fn":
                self.fns.setdefault((mod, it[1]), []).append({"fn": it, "owner": mod, "self_ty": None, "trait": None, "file": rel, "mod": mod})
            elif k == "mod":
                self.collect(it[2], it[1], rel)
            elif k == "trait":
                tr = {}
                for sub in it[2]:
                    if sub[0] == "fn":
                        tr[sub[1]] = {"fn": sub, "owner": "trait:" + it[1], "self_ty": None, "trait": it[1], "file": rel, "mod": mod}
                    elif sub[0] == "const":
                        self.consts[("trait:" + it[1], sub[1])] = (sub[2], sub[3])
                self.traits[it[1]] = tr
            elif k == "impl":
                trait, target, body, odd, cfgs = it[1], it[2], it[3], it[4], it[5]
                try:
                    owner = self.owner_of_type(target)
                except Unsupported:
                    owner = None
                tname = None
                if trait is not None and trait[0] == "path":
                    seg = trait[1][-1]
                    tname = seg[0] if isinstance(seg, tuple) else seg
                if owner is None or odd:
                    self.notes.append("%s: impl for an unsupported target %s" % (rel, target))
                    continue
                if tname:
                    self.trait_impls.setdefault(tname, []).append(owner)
                    self.impl_traits.setdefault(owner, []).append(tname)
                for sub in body:
                    if sub[0] == "fn":
                        if cfgs:
                            sub[6]["cfgs"] = list(sub[6]["cfgs"]) + list(cfgs)
                        self.fns.setdefault((owner, sub[1]), []).append({"fn": sub, "owner": owner, "self_ty": self.norm(target), "trait": tname, "file": rel, "trait_args": trait, "mod": mod})
                    elif sub[0] == "const":
                        self.consts[(owner, sub[1])] = (sub[2], sub[3])

    # --- types
    def norm(self, t, self_ty=None):
        if t is None:
            return U
        k = t[0]
        if k in ("int", "bool", "unit", "adt", "enum", "arr", "tup", "opt", "ordering", "f32", "str", "unknown", "char", "iter", "res"):
            return t
        if k == "ref":
            return self.norm(t[1], self_ty)
        if k == "tuple":
            if not t[1]:
                return UNIT
            return ("tup", [self.norm(x, self_ty) for x in t[1]])
        if k == "array":
            n = None
            try:
                n = const_int(t[2])
            except Exception:
                n = None
            return ("arr", self.norm(t[1], self_ty), n)
        if k == "slice":
            return ("arr", self.norm(t[1], self_ty), None)
        if k == "path":
            segs = t[1]
            last = segs[-1]
            gen = None
            if isinstance(last, tuple) and last[0] != "qself":
                last, gen = last
            if last == "Self":
                if self_ty is None:
                    raise Unsupported("Self outside an impl")
                return self_ty
            if last in INT_W or last in SIGNED:
                return I(last)
            if last == "bool":
                return BOOL
            if last in ("f32", "f64"):
                return ("f32",)
            if last == "char":
                return ("char",)
            if last == "str":
                return ("str",)
            if last == "Ordering":
                return ("ordering",)
            if last == "Option" and gen:
                return ("opt", self.norm(gen[0], self_ty))
            if last == "Result" and gen:
                return ("res", self.norm(gen[0], self_ty))
            if last in self.aliases:
                return self.norm(self.aliases[last], self_ty)
            if last in self.structs:
                return ("adt", last)
            if last in self.enums:
                return ("enum", last)
            if last == "Iter":
                elems = [g for g in (gen or []) if g != ("lifetime",)]
                return ("iter", self.norm(elems[0], self_ty)) if elems else ("iter",)
            return ("unknown", last)
        return U


def const_int(e):
    if e[0] == "num":
        return parse_int(e[1])
    if e[0] == "paren":
        return const_int(e[1])
    raise ValueError


def parse_int(text):
    t = text.replace("_", "")
    if t.startswith("0x"):
        return int(t, 16)
    if t.startswith("0b"):
        return int(t, 2)
    if t.startswith("0o"):
        return int(t, 8)
    if "." in t or "e" in t.lower():
        raise Unsupported("float literal")
    return int(t)


def char_code(lit):
    body = lit[1:-1]
    if body.startswith("\\u{"):
        return int(body[3:-1].replace("_", ""), 16)
    if body.startswith("\\x"):
        return int(body[2:], 16)
    if body.startswith("\\"):
        m = {"n": 10, "r": 13, "t": 9, "0": 0, "\\": 92, "'": 39, '"': 34}
        if body[1] in m:
            return m[body[1]]
        raise Unsupported("escape " + body)
    if len(body) != 1:
        raise Unsupported("character literal " + lit)
    return ord(body)


def lname(n):
    if n == "self":
        return "self_"
    if n in LEAN_RESERVED:
        return n + "_"
    return n


class Translator:
    def __init__(self, crate):
        self.c = crate
        self.done = {}      # (owner, name) -> record {lean, fuel, params, ret, mutself, ok, reason}
        self.order = []
        self.const_done = {}
        self.const_order = []
        self.stack = []
        self.used_structs = set()

    # ------------------------------------------------------------------ constants (evaluated here, emitted as literals)
    def const_value(self, owner, name):
        key = (owner, name)
        if key in self.const_done:
            return self.const_done[key]
        if key not in self.c.consts:
            # trait constants reached through an implementing type
            for tr in self.c.impl_traits.get(owner, []):
                if ("trait:" + tr, name) in self.c.consts:
                    v = self.const_value("trait:" + tr, name)
                    return v
            raise Unsupported("unknown constant %s::%s" % (owner, name))
        ty, e = self.c.consts[key]
        if e is None:
            raise Unsupported("constant %s::%s has no value" % key)
        nty = self.c.norm(ty, ("adt", owner) if owner in self.c.structs else None)
        val = self.ceval(e, owner)
        self.const_done[key] = (val, nty)
        self.const_order.append(key)
        return self.const_done[key]

    def ceval(self, e, owner):
        k = e[0]
        if k == "num":
            return parse_int(e[1])
        if k == "bool":
            return e[1]
        if k == "paren":
            return self.ceval(e[1], owner)
        if k == "array":
            return [self.ceval(x, owner) for x in e[1]]
        if k == "bin":
            a, b = self.ceval(e[2], owner), self.ceval(e[3], owner)
            op = e[1]
            if not isinstance(a, int) or not isinstance(b, int):
                raise Unsupported("constant expression")
            if op == "|":
                return a | b
            if op == "&":
                return a & b
            if op == "^":
                return a ^ b
            if op == "<<":
                return a << b
            if op == ">>":
                return a >> b
            if op == "+":
                return a + b
            if op == "-":
                return a - b
            if op == "*":
                return a * b
            raise Unsupported("constant operator " + op)
        if k == "cast":
            return self.ceval(e[1], owner)
        if k == "index":
            a, i = self.ceval(e[1], owner), self.ceval(e[2], owner)
            return a[i]
        if k == "call" and e[1][0] == "path":
            segs = e[1][1]
            last = segs[-1]
            if isinstance(last, str) and (last in self.c.structs or last == "Self") and len(e[2]) == 1:
                return self.ceval(e[2][0], owner)  # new-type constructor: transparent
            raise Unsupported("call in a constant")
        if k == "path":
            segs = [s if isinstance(s, str) else s[0] for s in e[1]]
            name = segs[-1]
            if len(segs) == 1:
                own = owner
            else:
                own = self.path_owner(segs[:-1], owner)
            return self.const_value(own, name)[0]
        if k == "macro":
            raise Unsupported("macro in a constant")
        raise Unsupported("constant expression kind " + k)

    def path_owner(self, segs, cur_owner):
        """owner key for the type/module named by a path prefix"""
        last = segs[-1]
        if isinstance(last, tuple):
            if last[0] == "qself":
                return self.c.owner_of_type(last[1])
            last = last[0]
        if last == "Self":
            return cur_owner
        if last in self.c.aliases:
            return self.c.owner_of_type(self.c.aliases[last])
        if last in INT_W or last in SIGNED:
            return last
        return last

    # ------------------------------------------------------------------ Lean rendering of types and values
    def lty(self, t):
        k = t[0]
        if k == "int":
            if t[1] in SIGNED:
                return "Int"
            return "Nat"
        if k == "f32":
            return "Int"
        if k == "bool":
            return "Bool"
        if k == "unit":
            return "Unit"
        if k == "enum":
            return "Nat"
        if k == "ordering":
            return "Ordering"
        if k == "arr":
            return "(List %s)" % self.lty(t[1])
        if k == "adt":
            kind, fields = self.c.structs[t[1]]
            if kind == "tuple" and len(fields) == 1:
                return self.lty(self.c.norm(fields[0]))
            if kind == "named":
                for fname, fty in fields:
                    self.lty(self.c.norm(fty))
                self.used_structs.add(t[1]) if t[1] not in self.used_structs else None
                return "Src.%s" % t[1]
            if kind == "unit":
                return "Unit"
            raise Unsupported("struct %s" % t[1])
        if k == "tup":
            return "(" + " × ".join(self.lty(x) for x in t[1]) + ")"
        if k == "opt":
            return "(Option %s)" % self.lty(t[1])
        if k == "res":
            return "(Except Nat %s)" % self.lty(t[1])
        if k == "char":
            return "Nat"
        if k == "str":
            return "(List Nat)"
        if k == "iter" and len(t) > 1:
            return "(List %s)" % self.lty(t[1])
        raise Unsupported("type %s" % (t,))

    def lval(self, v):
        if isinstance(v, bool):
            return "true" if v else "false"
        if isinstance(v, int):
            return str(v)
        if isinstance(v, list):
            return "[" + ", ".join(self.lval(x) for x in v) + "]"
        raise Unsupported("constant value")

    # ------------------------------------------------------------------ function lookup
    def find_fn(self, owner, name):
        """returns (key, record) of the function `name` reachable on `owner` (own impls, then trait defaults)"""
        m = re.match(r"^(.*)__(\d+)$", name)
        if m and (owner, m.group(1)) in self.c.fns:
            recs = self.c.fns[(owner, m.group(1))]
            return (owner, name), recs[int(m.group(2)) - 1]
        if (owner, name) in self.c.fns:
            recs = self.c.fns[(owner, name)]
            inherent = [r for r in recs if r.get("trait") is None]
            return (owner, name), (inherent[0] if inherent else recs[0])
        for tr in self.c.impl_traits.get(owner, []):
            d = self.c.traits.get(tr, {}).get(name)
            if d is not None and d["fn"][5] is not None:
                return (owner, name), dict(d, owner=owner, self_ty=self.owner_ty(owner), via_trait=tr)
            if d is not None and d["fn"][6]["err"]:
                raise Unsupported("%s::%s (trait default): %s" % (tr, name, d["fn"][6]["err"]))
        return None, None

    def owner_ty(self, owner):
        if owner in INT_W:
            return I(owner)
        if owner in self.c.structs:
            return ("adt", owner)
        if owner in self.c.enums:
            return ("enum", owner)
        return None

    def translate(self, owner, name):
        key = (owner, name)
        if key in self.done:
            return self.done[key]
        if key in self.stack:
            raise Unsupported("recursion through %s::%s" % key)
        k2, rec = self.find_fn(owner, name)
        if rec is None:
            raise Unsupported("no function %s::%s" % key)
        self.stack.append(key)
        try:
            out = FnTr(self, rec, owner).run()
            out["ok"] = True
        except Unsupported as e:
            out = {"ok": False, "reason": str(e)}
        except RecursionError:
            out = {"ok": False, "reason": "translator: expression nesting too deep"}
        except Exception as e:  # noqa: BLE001 — a construct the translator mishandles is "not translated", never a crash
            out = {"ok": False, "reason": "translator: %s: %s" % (type(e).__name__, str(e)[:120])}
        finally:
            self.stack.pop()
        out["file"] = rec["file"]
        out["via_trait"] = rec.get("via_trait")
        import hashlib
        out["hash"] = hashlib.sha1(repr(rec["fn"][6].get("tokens")).encode()).hexdigest()[:16]
        self.done[key] = out
        if out["ok"]:
            self.order.append(key)
        return out


class Ref:
    def __init__(self):
        self.v = None


class FnTr:
    """translation of one function body"""

    def __init__(self, tr, rec, owner):
        self.tr = tr
        self.c = tr.c
        self.rec = rec
        self.owner = owner
        self.self_ty = rec.get("self_ty") or tr.owner_ty(owner)
        self.n = 0
        self.fuel = False

    def fresh(self, base="t"):
        self.n += 1
        return "%s%d_" % (base, self.n)

    def norm(self, t):
        return self.c.norm(t, self.self_ty)

    def run(self):
        fn = self.rec["fn"]
        _, name, selfkind, params, ret, body, meta = fn
        if meta["err"]:
            raise Unsupported(meta["err"])
        if body is None:
            raise Unsupported("no body")
        if meta["generics"]:
            raise Unsupported("generic function")
        if meta["cfgs"]:
            raise Unsupported("cfg-conditional function")
        env = {}
        lparams = []
        if selfkind:
            if self.self_ty is None:
                raise Unsupported("self of unknown type")
            env["self"] = self.self_ty
            lparams.append(("self_", self.tr.lty(self.self_ty)))
        for pat, ty in params:
            if pat[0] != "pbind":
                raise Unsupported("pattern parameter")
            t = self.norm(ty)
            env[pat[1]] = t
            lparams.append((lname(pat[1]), self.tr.lty(t)))
        rty = self.norm(ret)
        self.mutself = selfkind == "refmut"
        self.rty = rty
        if self.mutself:
            full = self.self_ty if rty == UNIT else ("tup", [rty, self.self_ty])
        else:
            full = rty
        self.full_lty = self.tr.lty(full)

        def fin(atom):
            if self.mutself:
                return "some self_" if rty == UNIT else "some (%s, self_)" % atom
            return "some %s" % atom
        ctx = {"ret": lambda a: fin(a), "brk": None, "cont": None}
        term = self.block(body, env, ctx, lambda a, t, env2: fin(a), expect=rty)
        return {"lean_body": term, "params": lparams, "ret": full, "ret_lty": self.full_lty, "fuel": self.fuel, "mutself": self.mutself,
                "plain_ret": rty}

    # ------------------------------------------------------------------ blocks / statements
    def block(self, b, env, ctx, k, expect=None):
        """b = ('block', stmts, tail); k(atom, type, env) builds the continuation term"""
        _, stmts, tail = b
        env = dict(env)
        env["#depth"] = env.get("#depth", 0) + 1
        return self.stmts(list(stmts), tail, env, ctx, k, expect)

    def stmts(self, stmts, tail, env, ctx, k, expect=None):
        if not stmts:
            if tail is None:
                return k("()", UNIT, env)
            if (tail[0] == "if" and tail[3] is None) or tail[0] in ("while", "for", "loop", "assign", "break", "continue"):
                return self.stmt_expr(tail, env, ctx, lambda env2: k("()", UNIT, env2))
            return self.ev(tail, env, ctx, lambda a, t: k(a, t, env), expect=expect, tailpos=True)
        s, rest = stmts[0], stmts[1:]

        def cont(env2):
            return self.stmts(rest, tail, env2, ctx, k, expect)
        if s[0] == "let":
            _, pat, ty, init = s
            if init is None:
                # `let mut x;` — the first assignment acts as the declaration
                if pat[0] != "pbind":
                    raise Unsupported("uninitialised pattern")
                env2 = dict(env)
                env2["?" + pat[1]] = self.norm(ty) if ty else U
                return cont(env2)
            decl = self.norm(ty) if ty else None

            def after(a, t):
                t2 = decl if decl is not None else t
                env2 = dict(env)
                lp = self.bindpat(pat, t2, env2)
                return "let %s := %s\n%s" % (lp, a, cont(env2))
            return self.ev(init, env, ctx, after, expect=decl)
        if s[0] == "expr":
            e = s[1]
            return self.stmt_expr(e, env, ctx, cont)
        raise Unsupported("statement " + s[0])

    def bindpat(self, pat, t, env):
        if pat[0] == "pbind":
            d = env.get("#depth", 0)
            if pat[1] in env and env.get("^" + pat[1], 0) < d:
                # a nested block re-declares a name of an enclosing scope: with duplicated continuations the inner binding
                # would leak into the code after the block
                raise Unsupported("`%s` shadows a variable of an enclosing block" % pat[1])
            env["^" + pat[1]] = d
            env[pat[1]] = t
            env.pop("?" + pat[1], None)
            return lname(pat[1])
        if pat[0] == "pwild":
            return "_"
        if pat[0] == "ptuple":
            if t[0] != "tup" or len(t[1]) != len(pat[1]):
                raise Unsupported("tuple pattern against %s" % (t,))
            return "(" + ", ".join(self.bindpat(p, x, env) for p, x in zip(pat[1], t[1])) + ")"
        if pat[0] == "pref":
            return self.bindpat(pat[1], t, env)
        raise Unsupported("pattern in let")

    def stmt_expr(self, e, env, ctx, cont):
        k = e[0]
        if k == "paren":
            return self.stmt_expr(e[1], env, ctx, cont)
        if k == "assign":
            return self.assign(e, env, ctx, cont)
        if k == "return":
            if e[1] is None:
                return ctx["ret"]("()")
            return self.ev(e[1], env, ctx, lambda a, t: ctx["ret"](a), expect=self.rty)
        if k == "break":
            if not ctx["brk"]:
                raise Unsupported("break outside a loop")
            return ctx["brk"](env)
        if k == "continue":
            if not ctx["cont"]:
                raise Unsupported("continue outside a loop")
            return ctx["cont"](env)
        if k == "if":
            c, then, els = e[1], e[2], e[3]

            def after(a, t):
                th = self.block(then, env, ctx, lambda _a, _t, env2: cont(self.merge_env(env, env2)))
                if els is None:
                    el = cont(env)
                elif els[0] == "if":
                    el = self.stmt_expr(els, env, ctx, cont)
                else:
                    el = self.block(els, env, ctx, lambda _a, _t, env2: cont(self.merge_env(env, env2)))
                return "if %s then\n%s\nelse\n%s" % (a, indent(th), indent(el))
            return self.ev(c, env, ctx, after, expect=BOOL)
        if k == "block":
            return self.block(e, env, ctx, lambda _a, _t, env2: cont(self.merge_env(env, env2)))
        if k == "while":
            return self.while_(e, env, ctx, cont)
        if k == "loop":
            return self.while_(("while", ("bool", True), e[1]), env, ctx, cont)
        if k == "for":
            return self.for_(e, env, ctx, cont)
        if k == "match":
            return self.match_(e, env, ctx, lambda a, t: cont(env), stmt_cont=cont)
        if k == "macro":
            raise Unsupported("macro %s!" % "::".join(str(x) for x in e[1]))
        if k == "mcall":
            return self.mcall(e, env, ctx, lambda a, t, env2=None: cont(env2 or env), want_env=True)
        return self.ev(e, env, ctx, lambda a, t: cont(env))

    def merge_env(self, outer, inner):
        """after a nested block: keep outer variables (types possibly refined by first assignment)"""
        env = dict(outer)
        for kx in list(outer):
            if kx.startswith("?") and kx[1:] in inner:
                env["^" + kx[1:]] = outer.get("#depth", 0)
                env.pop(kx)
                env[kx[1:]] = inner[kx[1:]]
        return env

    def place(self, e, env):
        """returns (varname, path) for an assignable place: var | self.0 | *x | x[i] (i handled by caller)"""
        k = e[0]
        if k == "paren":
            return self.place(e[1], env)
        if k == "path" and len(e[1]) == 1 and isinstance(e[1][0], str):
            return e[1][0]
        if k == "deref":
            return self.place(e[1], env)
        if k == "field" and e[2] == "0":
            v = self.place(e[1], env)
            t = env.get(v)
            if t and t[0] == "adt" and self.c.structs[t[1]][0] == "tuple" and len(self.c.structs[t[1]][1]) == 1:
                return v
        raise Unsupported("assignment target")

    def assign(self, e, env, ctx, cont):
        _, op, lhs, rhs = e
        if lhs[0] == "index":
            v = self.place(lhs[1], env)
            vt = self.vtype(v, env)
            et = self.elem_type(vt)

            def after_i(i, it):
                def after_v(a, t):
                    if op != "=":
                        raise Unsupported("compound assignment to an element")
                    n = self.arr_len(vt)
                    ci = as_const(i)
                    if n is not None and ci is not None and ci < n:
                        return "let %s := %s.set %s %s\n%s" % (lname(v), lname(v), i, a, cont(env))
                    return "if %s < %s.length then\n  let %s := %s.set %s %s\n%s\nelse none" % (i, lname(v), lname(v), lname(v), i, a, indent(cont(env)))
                return self.ev(rhs, env, ctx, after_v, expect=et)
            return self.ev(lhs[2], env, ctx, after_i)
        v = self.place(lhs, env)
        declared_only = ("?" + v) in env and v not in env
        if v not in env and not declared_only:
            raise Unsupported("assignment to unknown variable " + v)
        vt = env.get(v) or env.get("?" + v)

        def after(a, t):
            env2 = dict(env)
            if declared_only:
                env2.pop("?" + v)
                env2[v] = t if vt == U else vt
            if op == "=":
                val = a
            else:
                val = self.binop(op[:-1], lname(v), env2[v], a, t)
                if isinstance(val, tuple):  # checked op: (bindterm)
                    tmp = self.fresh()
                    return "Option.bind (%s) fun %s =>\nlet %s := %s\n%s" % (val[0], tmp, lname(v), tmp, cont(env2))
            return "let %s := %s\n%s" % (lname(v), val, cont(env2))
        return self.ev(rhs, env, ctx, after, expect=None if vt == U else vt)

    def vtype(self, v, env):
        if v in env:
            return env[v]
        raise Unsupported("unknown variable " + v)

    def elem_type(self, t):
        if t[0] == "arr":
            return t[1]
        if t[0] == "adt":
            kind, fields = self.c.structs[t[1]]
            if kind == "tuple" and len(fields) == 1:
                return self.elem_type(self.c.norm(fields[0]))
        raise Unsupported("indexing into %s" % (t,))

    def arr_len(self, t):
        if t[0] == "arr":
            return t[2]
        if t[0] == "adt":
            kind, fields = self.c.structs[t[1]]
            if kind == "tuple" and len(fields) == 1:
                return self.arr_len(self.c.norm(fields[0]))
        return None

    # ------------------------------------------------------------------ loops
    def assigned(self, node, acc):
        """names assigned anywhere inside `node`"""
        if isinstance(node, tuple):
            if node and isinstance(node[0], str) and node[0] == "assign":
                try:
                    lhs = node[2]
                    if lhs[0] == "index":
                        lhs = lhs[1]
                    acc.add(self.place(lhs, {}))
                except Unsupported:
                    t = node[2]
                    while isinstance(t, tuple) and t and t[0] in ("deref", "field", "index", "paren"):
                        t = t[1]
                    if isinstance(t, tuple) and t and t[0] == "path":
                        acc.add(t[1][0] if isinstance(t[1][0], str) else "?")
            if node and isinstance(node[0], str) and node[0] == "mcall":
                # a `&mut self` method mutates its receiver
                r = node[1]
                try:
                    v = self.place(r, {})
                    acc.add("~" + v + "." + node[2])
                except Unsupported:
                    pass
            for x in node:
                self.assigned(x, acc)
        elif isinstance(node, list):
            for x in node:
                self.assigned(x, acc)

    def has(self, node, kinds):
        if isinstance(node, tuple):
            if node and isinstance(node[0], str) and node[0] in kinds:
                return True
            return any(self.has(x, kinds) for x in node)
        if isinstance(node, list):
            return any(self.has(x, kinds) for x in node)
        return False

    def state_vars(self, body, env):
        acc = set()
        self.assigned(body, acc)
        out = []
        for a in sorted(acc):
            if a.startswith("~"):
                v, m = a[1:].split(".", 1)
                if v in env and self.is_mut_method(env[v], m):
                    if v not in out:
                        out.append(v)
            elif a in env and a not in out:
                out.append(a)
        return sorted(out)

    def is_mut_method(self, t, m):
        if t[0] == "iter":
            return m == "next"
        owner = self.c.owner_of_type(t) if t[0] != "arr" else None
        if t[0] == "arr" or owner is None:
            return m in ("sort_unstable", "reverse", "sort", "swap")
        try:
            key, rec = self.tr.find_fn(owner, m)
        except Unsupported:
            return False
        return bool(rec and rec["fn"][2] == "refmut") or (self.arr_len(t) is not None and m in ("sort_unstable", "reverse", "sort", "swap") and not rec)

    def tup(self, vs):
        if not vs:
            return "()"
        if len(vs) == 1:
            return lname(vs[0])
        return "(" + ", ".join(lname(v) for v in vs) + ")"

    def loop_ctx(self, sv, ctx):
        st = self.tup(sv)
        return {"ret": lambda a: "some (Src.Ctl.ret %s)" % (("(%s, self_)" % a if self.mutself and self.rty != UNIT else ("self_" if self.mutself else a))),
                "brk": lambda env: "some (Src.Ctl.brk %s)" % st,
                "cont": lambda env: "some (Src.Ctl.next %s)" % st,
                "outer": ctx}

    def after_loop(self, loopterm, sv, env, ctx, cont, has_ret):
        st = self.tup(sv)
        r = self.fresh("r")
        if ctx.get("outer") is not None or True:
            retline = ""
            if has_ret:
                # the loop body returned from the function: pass the value on unchanged
                v = self.fresh("v")
                if "outer" in ctx:
                    retline = "| Src.Out.ret %s => some (Src.Ctl.ret %s)\n" % (v, v)
                else:
                    retline = "| Src.Out.ret %s => some %s\n" % (v, v)
            else:
                v = self.fresh("v")
                retline = "| Src.Out.ret %s => nomatch %s\n" % (v, v)
        return "Option.bind (%s) fun %s =>\nmatch %s with\n%s| Src.Out.done %s =>\n%s" % (loopterm, r, r, retline, st, indent(cont(env)))

    def while_(self, e, env, ctx, cont):
        _, c, body = e
        self.fuel = True
        sv = self.state_vars(body, env)
        lctx = self.loop_ctx(sv, ctx)
        has_ret = self.has(body, {"return", "try"})
        st = self.tup(sv)

        def after_c(a, t):
            bt = self.block(body, env, lctx, lambda _a, _t, env2: lctx["cont"](env2))
            if a == "true":
                return bt
            return "if %s then\n%s\nelse some (Src.Ctl.brk %s)" % (a, indent(bt), st)
        inner = self.ev(c, env, lctx, after_c, expect=BOOL)
        rho = self.full_lty if has_ret else "Empty"
        loopterm = "Src.whileFuel (ρ := %s) fuel %s fun %s =>\n%s" % (rho, st, st, indent(inner))
        return self.after_loop(loopterm, sv, env, ctx, cont, has_ret)

    def for_(self, e, env, ctx, cont):
        _, pat, it, body = e
        sv = self.state_vars(body, env)
        lctx = self.loop_ctx(sv, ctx)
        has_ret = self.has(body, {"return", "try"})
        st = self.tup(sv)

        def after_it(xs, xt):
            if xt[0] != "arr":
                raise Unsupported("for over %s" % (xt,))
            env2 = dict(env)
            env2["#depth"] = env2.get("#depth", 0) + 1
            lp = self.bindpat(pat, xt[1], env2)
            bt = self.block(body, env2, lctx, lambda _a, _t, env3: lctx["cont"](env3))
            rho = self.full_lty if has_ret else "Empty"
            loopterm = "Src.forList (ρ := %s) %s %s fun %s %s =>\n%s" % (rho, xs, st, st, lp, indent(bt))
            return self.after_loop(loopterm, sv, env, ctx, cont, has_ret)
        return self.iterable(it, env, ctx, after_it)

    def iterable(self, it, env, ctx, k):
        """evaluates an iterable expression to a Lean list; k(atom, ('arr', elem, n))"""
        if it[0] == "paren":
            return self.iterable(it[1], env, ctx, k)
        if it[0] == "range":
            lo, hi, incl = it[1], it[2], it[3]
            if lo is None or hi is None:
                raise Unsupported("open range as an iterator")

            def a1(a, t):
                def a2(b, t2):
                    ty = t if t != I("lit") else (t2 if t2 != I("lit") else I("usize"))
                    cnt = "(%s + 1 - %s)" % (b, a) if incl else "(%s - %s)" % (b, a)
                    ca, cb = as_const(a), as_const(b)
                    if ca is not None and cb is not None:
                        cnt = str(max(0, cb + (1 if incl else 0) - ca))
                    return k("(List.range' %s %s)" % (a, cnt), ("arr", ty, None))
                return self.ev(hi, env, ctx, a2)
            return self.ev(lo, env, ctx, a1)

        def after(a, t):
            if t[0] == "adt":
                return k(a, ("arr", self.elem_type(t), self.arr_len(t)))
            if t[0] == "arr":
                return k(a, t)
            if t[0] == "iter" and len(t) > 1:
                return k(a, ("arr", t[1], None))
            raise Unsupported("iteration over %s" % (t,))
        return self.ev(it, env, ctx, after)

    # ------------------------------------------------------------------ expressions
    def ev(self, e, env, ctx, k, expect=None, tailpos=False):
        """k(atom, type) -> term.  `atom` is a pure Lean expression (parenthesised when compound)."""
        kind = e[0]
        if kind == "paren":
            return self.ev(e[1], env, ctx, k, expect, tailpos)
        if kind == "num" and (("." in e[1] and not e[1].startswith("0x")) or e[2] in ("f32", "f64") or (expect == ("f32",) and e[2] is None)):
            # `f32` values are exact multiples of 1/256 (`Int` scaled by 256); anything else is not representable in the model
            from fractions import Fraction
            q = Fraction(e[1].replace("_", "")) * 256
            if q.denominator != 1:
                raise Unsupported("float literal %s is not a multiple of 1/256" % e[1])
            return k("(%d : Int)" % q.numerator, ("f32",))
        if kind == "num":
            text, suffix = e[1], e[2]
            v = parse_int(text)
            t = I(suffix) if suffix else (expect if expect and expect[0] == "int" else I("lit"))
            if t[0] == "int" and t[1] in SIGNED:
                return k("(%d : Int)" % v, t)
            return k(str(v), t)
        if kind == "bool":
            return k("true" if e[1] else "false", BOOL)
        if kind == "char":
            return k(str(char_code(e[1])), ("char",))
        if kind == "str":
            raise Unsupported("string literal")
        if kind == "path":
            return self.path(e, env, k, expect)
        if kind == "addr" or kind == "deref":
            return self.ev(e[1], env, ctx, k, expect, tailpos)
        if kind == "un":
            op = e[1]

            def after(a, t):
                if op == "!":
                    if t == BOOL:
                        return k("(!%s)" % a, BOOL)
                    if t[0] == "int" and t[1] in INT_W:
                        return k("(%d - %s)" % (2 ** INT_W[t[1]] - 1, a), t)
                    raise Unsupported("! on %s" % (t,))
                raise Unsupported("unary " + op)
            return self.ev(e[2], env, ctx, after, expect)
        if kind == "bin":
            return self.bin(e, env, ctx, k, expect)
        if kind == "cast":
            return self.cast(e, env, ctx, k)
        if kind == "tuple":
            atoms, types = [], []

            def go(i):
                if i == len(e[1]):
                    return k("(" + ", ".join(atoms) + ")", ("tup", list(types)))

                def after(a, t):
                    atoms.append(a)
                    types.append(t)
                    return go(i + 1)
                ex = expect[1][i] if expect and expect[0] == "tup" and len(expect[1]) == len(e[1]) else None
                return self.ev(e[1][i], env, ctx, after, ex)
            return go(0)
        if kind == "array":
            atoms, types = [], []
            ex = expect[1] if expect and expect[0] == "arr" else None

            def go(i):
                if i == len(e[1]):
                    et = types[0] if types else (ex or U)
                    for t in types:
                        if t != I("lit"):
                            et = t
                    return k("[" + ", ".join(atoms) + "]", ("arr", et, len(atoms)))

                def after(a, t):
                    atoms.append(a)
                    types.append(t)
                    return go(i + 1)
                return self.ev(e[1][i], env, ctx, after, ex)
            return go(0)
        if kind == "index":
            return self.index(e, env, ctx, k)
        if kind == "field":
            def after(a, t):
                if t[0] == "adt":
                    skind, fields = self.c.structs[t[1]]
                    if skind == "tuple" and len(fields) == 1 and e[2] == "0":
                        return k(a, self.c.norm(fields[0]))
                    if skind == "named":
                        for fname, fty in fields:
                            if fname == e[2]:
                                self.tr.lty(t)
                                return k("%s.%s" % (a, lname(fname)), self.c.norm(fty))
                if t[0] == "tup" and e[2].isdigit():
                    i = int(e[2])
                    n = len(t[1])
                    proj = a
                    for _ in range(i):
                        proj = "%s.2" % proj
                    if i < n - 1:
                        proj = "%s.1" % proj
                    return k(proj, t[1][i])
                raise Unsupported("field .%s of %s" % (e[2], t))
            return self.ev(e[1], env, ctx, after)
        if kind == "call":
            return self.call(e, env, ctx, k, expect)
        if kind == "mcall":
            return self.mcall(e, env, ctx, k)
        if kind == "if":
            c, then, els = e[1], e[2], e[3]
            if els is None:
                raise Unsupported("if without else as a value")

            def after(a, t):
                th = self.block(then, env, ctx, lambda a2, t2, env2: k(a2, fix(t2, expect)))
                if els[0] == "if":
                    el = self.ev(els, env, ctx, k, expect, tailpos)
                else:
                    el = self.block(els, env, ctx, lambda a2, t2, env2: k(a2, fix(t2, expect)))
                return "if %s then\n%s\nelse\n%s" % (a, indent(th), indent(el))
            return self.ev(c, env, ctx, after, expect=BOOL)
        if kind == "block":
            return self.block(e, env, ctx, lambda a, t, env2: k(a, t))
        if kind == "match":
            return self.match_(e, env, ctx, k, expect=expect)
        if kind == "return":
            if e[1] is None:
                return ctx["ret"]("()")
            return self.ev(e[1], env, ctx, lambda a, t: ctx["ret"](a), expect=self.rty)
        if kind == "macro":
            raise Unsupported("macro %s!" % "::".join(str(x) for x in e[1]))
        if kind == "try":
            if self.rty[0] != "opt":
                raise Unsupported("? in a function that does not return Option")
            if ctx.get("ret") is None:
                raise Unsupported("? inside a closure")

            def after_try(a, t):
                if t[0] != "opt":
                    raise Unsupported("? on %s" % (t,))
                v = self.fresh("v")
                return "match %s with\n| none => %s\n| some %s =>\n%s" % (a, ctx["ret"]("none"), v, indent(k(v, t[1])))
            return self.ev(e[1], env, ctx, after_try)
        if kind == "closure":
            raise Unsupported("closure outside a supported iterator adaptor")
        if kind == "range":
            raise Unsupported("range value")
        if kind == "structlit":
            sname = e[1][-1] if isinstance(e[1][-1], str) else None
            if sname == "Self":
                sname = self.owner
            if sname not in self.c.structs or self.c.structs[sname][0] != "named":
                raise Unsupported("struct literal of %s" % (sname,))
            decl = dict(self.c.structs[sname][1])
            lt = self.tr.lty(("adt", sname))
            atoms = []

            def go(i):
                if i == len(e[2]):
                    return k("({ %s } : %s)" % (", ".join("%s := %s" % (lname(f), a) for f, a in atoms), lt), ("adt", sname))
                fname, val = e[2][i]
                if fname not in decl:
                    raise Unsupported("unknown field " + fname)

                def after(a, t):
                    atoms.append((fname, a))
                    return go(i + 1)
                return self.ev(val, env, ctx, after, expect=self.c.norm(decl[fname]))
            if sorted(f for f, _ in e[2]) != sorted(decl):
                raise Unsupported("struct literal does not give every field")
            return go(0)
        if kind in ("while", "for", "loop", "assign", "break", "continue"):
            raise Unsupported("%s as a value" % kind)
        raise Unsupported("expression " + kind)

    def path(self, e, env, k, expect):
        segs = e[1]
        if len(segs) == 1 and isinstance(segs[0], str):
            n = segs[0]
            if n in env:
                return k(lname(n), env[n])
            if n == "None":
                return k("none", expect if expect and expect[0] == "opt" else ("opt", U))
            if ("?" + n) in env:
                raise Unsupported("variable %s read before its first assignment is visible" % n)
            # module-level constant of the current module
            for own in (self.rec["owner"], self.owner, self.rec.get("mod")):
                try:
                    v, t = self.tr.const_value(own, n)
                    return k(self.const_ref(own, n), t)
                except Unsupported:
                    pass
            raise Unsupported("unknown name " + n)
        name = segs[-1]
        if not isinstance(name, str):
            raise Unsupported("generic path")
        own = self.tr.path_owner(segs[:-1], self.owner)
        # enum variant
        if own in self.c.enums:
            for i, (vn, disc) in enumerate(self.c.enums[own]):
                if vn == name:
                    return k(str(self.enum_disc(own, vn)), ("enum", own))
        if own == "Ordering":
            m = {"Less": "Ordering.lt", "Equal": "Ordering.eq", "Greater": "Ordering.gt"}
            if name in m:
                return k(m[name], ("ordering",))
        if own in INT_W and name in ("MAX", "MIN"):
            return k(str(2 ** INT_W[own] - 1 if name == "MAX" else 0), I(own))
        if own == "lookups":
            raise Unsupported("lookup table used other than by indexing")
        v, t = self.tr.const_value(own, name)
        return k(self.const_ref(own, name), t)

    def enum_disc(self, own, vn):
        cur = -1
        for n, d in self.c.enums[own]:
            cur = const_int(d) if d is not None else cur + 1
            if n == vn:
                return cur
        raise Unsupported("variant")

    def const_ref(self, own, name):
        key = (own, name)
        if key not in self.tr.const_done:
            for tr in self.c.impl_traits.get(own, []):
                if ("trait:" + tr, name) in self.tr.const_done:
                    key = ("trait:" + tr, name)
        own2 = key[0].replace("trait:", "")
        return "Src.%s.%s" % (own2, key[1])

    def binop(self, op, a, ta, b, tb):
        """pure Lean expression for `a op b`, or (term,) for a checked operation returning Option"""
        t = ta if ta != I("lit") else tb
        if op in ("&", "|", "^"):
            if t == BOOL:
                return "(%s %s %s)" % (a, {"&": "&&", "|": "||", "^": "!="}[op], b)
            return "(%s %s %s)" % (a, {"&": "&&&", "|": "|||", "^": "^^^"}[op], b)
        if t == ("f32",):
            if op in ("+", "-"):
                return "(%s %s %s)" % (a, op, b)
            if op == "*":
                return ("Src.fmul %s %s" % (a, b),)
            if op == "/":
                return ("Src.fdiv %s %s" % (a, b),)
            raise Unsupported("operator %s on f32" % op)
        if t[0] != "int":
            raise Unsupported("arithmetic on %s" % (t,))
        if t[1] in SIGNED:
            raise Unsupported("signed arithmetic")
        w = INT_W.get(t[1], 31)   # an unsuffixed literal of undetermined type: the narrowest candidate (non-negative i32)
        if op in (">>", "<<"):
            wl = INT_W.get(ta[1], 31) if ta[0] == "int" else w
            amt = self.const_amount(b)
            if amt is not None and amt < wl:
                return "(%s >>> %s)" % (a, b) if op == ">>" else "((%s <<< %s) %% %d)" % (a, b, 2 ** wl)
            return ("Src.%s %d %s %s" % ("shr" if op == ">>" else "shl", wl, a, b),)
        if op == "+":
            return ("Src.add %d %s %s" % (w, a, b),)
        if op == "*":
            return ("Src.mul %d %s %s" % (w, a, b),)
        if op == "-":
            return ("Src.sub %s %s" % (a, b),)
        if op == "/":
            return ("Src.div %s %s" % (a, b),)
        if op == "%":
            return ("Src.rem %s %s" % (a, b),)
        raise Unsupported("operator " + op)

    def const_amount(self, atom):
        """value of a shift amount that is a literal or a named constant; None otherwise"""
        if re.match(r"^[0-9]+$", atom):
            return int(atom)
        m = re.match(r"^Src\.([A-Za-z0-9_]+)\.([A-Za-z0-9_]+)$", atom)
        if m:
            for key, (val, ty) in self.tr.const_done.items():
                if key[0].replace("trait:", "") == m.group(1) and key[1] == m.group(2) and isinstance(val, int):
                    return val
        return None

    def bin(self, e, env, ctx, k, expect):
        _, op, l, r = e
        if op in ("&&", "||"):
            def after_l(a, t):
                n0 = self.n
                probe = self.ev(r, env, ctx, lambda b, t2: "\0" + b, expect=BOOL)
                if probe.startswith("\0"):
                    # nothing had to be bound: the right operand is a pure expression
                    return k("(%s %s %s)" % (a, op, probe[1:]), BOOL)
                self.n = n0
                tmp = self.fresh()
                rhs = self.ev(r, env, ctx, lambda b, t2: "some %s" % b, expect=BOOL)
                if op == "&&":
                    return "Option.bind (if %s then\n%s\nelse some false) fun %s =>\n%s" % (a, indent(rhs), tmp, k(tmp, BOOL))
                return "Option.bind (if %s then some true else\n%s) fun %s =>\n%s" % (a, indent(rhs), tmp, k(tmp, BOOL))
            return self.ev(l, env, ctx, after_l, expect=BOOL)
        if op in ("==", "!=", "<", ">", "<=", ">="):
            def after_l(a, t):
                def after_r(b, t2):
                    tt = t if t != I("lit") else t2
                    if tt[0] not in ("int", "bool", "enum", "arr", "adt", "tup", "ordering", "opt", "char", "res", "f32"):
                        raise Unsupported("comparison of %s" % (tt,))
                    if tt[0] in ("arr", "adt", "tup", "opt") and op not in ("==", "!="):
                        raise Unsupported("ordering comparison of %s" % (tt,))
                    if tt[0] == "int" and tt[1] in SIGNED and t2[0] != "int":
                        raise Unsupported("signed comparison")
                    lop = {"==": "==", "!=": "!=", "<": "<", ">": ">", "<=": "≤", ">=": "≥"}[op]
                    if op in ("==", "!="):
                        return k("(%s %s %s)" % (a, lop, b), BOOL)
                    return k("(decide (%s %s %s))" % (a, lop, b), BOOL)
                return self.ev(r, env, ctx, after_r, expect=t if t != I("lit") else None)
            return self.ev(l, env, ctx, after_l)

        def after_l(a, t):
            def after_r(b, t2):
                t_l = t
                if t == I("lit") and op in ("<<", ">>") and expect is not None and expect[0] == "int":
                    t_l = expect
                if t == I("lit") and t2 == I("lit") and expect is not None and expect[0] == "int":
                    t_l = expect
                res = self.binop(op, a, t_l, b, t2)
                rt = t if t != I("lit") else t2
                if op in ("<<", ">>"):
                    rt = t if t != I("lit") else (expect if expect and expect[0] == "int" else I("lit"))
                if isinstance(res, tuple):
                    tmp = self.fresh()
                    return "Option.bind (%s) fun %s =>\n%s" % (res[0], tmp, k(tmp, rt))
                return k(res, rt)
            ex2 = None if op in ("<<", ">>") else (t if t != I("lit") else expect)
            return self.ev(r, env, ctx, after_r, expect=ex2)
        return self.ev(l, env, ctx, after_l, expect=expect if op not in ("<<", ">>") else expect)

    def is_pure(self, e, env):
        """no panicking / Option-returning operation inside (conservative)"""
        return not self.has(e, {"call", "mcall", "index", "try", "macro", "match", "if", "block", "return"}) and not self.has_sub(e)

    def has_sub(self, e):
        if isinstance(e, tuple):
            if e and isinstance(e[0], str) and e[0] == "bin" and e[1] in ("-", "/", "%"):
                return True
            return any(self.has_sub(x) for x in e)
        if isinstance(e, list):
            return any(self.has_sub(x) for x in e)
        return False

    def cast(self, e, env, ctx, k):
        _, inner, ty = e
        tt = self.norm(ty)

        def after(a, t):
            if tt == ("f32",) and t[0] == "int" and t[1] not in SIGNED:
                return k("((%s : Int) * 256)" % a, tt)
            if tt[0] != "int":
                raise Unsupported("cast to %s" % (tt,))
            if tt[1] in SIGNED:
                if t == ("f32",):
                    bits = {"i8": 8, "i16": 16, "i32": 32, "i64": 64}.get(tt[1])
                    if bits:
                        return k("(Src.f2i %d %s)" % (bits, a), tt)
                raise Unsupported("cast to a signed type")
            w = INT_W[tt[1]]
            if t == BOOL:
                return k("(if %s then 1 else 0)" % a, tt)
            if t[0] == "enum":
                return k(a, tt)
            if t[0] == "int":
                if t[1] == "lit":
                    return k(a, tt)
                if t[1] in SIGNED:
                    raise Unsupported("cast from a signed type")
                if INT_W[t[1]] <= w:
                    return k(a, tt)
                return k("(%s %% %d)" % (a, 2 ** w), tt)
            raise Unsupported("cast from %s" % (t,))
        return self.ev(inner, env, ctx, after)

    def index(self, e, env, ctx, k):
        _, base, idx = e
        # lookup tables
        if base[0] == "path":
            segs = [s if isinstance(s, str) else s[0] for s in base[1]]
            if len(segs) >= 2 and segs[-2] == "lookups" and segs[-1] in ("FLUSHES", "UNIQUE_5", "PRODUCTS", "VALUES"):
                fld = {"FLUSHES": "flushes", "UNIQUE_5": "unique5", "PRODUCTS": "products", "VALUES": "values"}[segs[-1]]
                ety = I("u32") if segs[-1] == "PRODUCTS" else I("u16")

                def after_i(i, t):
                    tmp = self.fresh()
                    return "Option.bind (CK.packed.%s %s) fun %s =>\n%s" % (fld, i, tmp, k(tmp, ety))
                return self.ev(idx, env, ctx, after_i, expect=I("usize"))

        def after_b(a, t):
            et = self.elem_type(t)
            n = self.arr_len(t)
            if idx[0] == "range":
                lo, hi = idx[1], idx[2]
                if hi is not None or idx[3]:
                    raise Unsupported("slice with an upper bound")
                if lo is None:
                    return k(a, ("arr", et, None))

                def after_lo(i, it):
                    tmp = self.fresh()
                    return "Option.bind (Src.sliceFrom %s %s) fun %s =>\n%s" % (a, i, tmp, k(tmp, ("arr", et, None)))
                return self.ev(lo, env, ctx, after_lo, expect=I("usize"))

            def after_i(i, it):
                ci = as_const(i)
                if n is not None and ci is not None and ci < n:
                    return k("(%s.getD %s default)" % (a, i), et)
                tmp = self.fresh()
                return "Option.bind (%s[%s]?) fun %s =>\n%s" % (a, i, tmp, k(tmp, et))
            return self.ev(idx, env, ctx, after_i, expect=I("usize"))
        return self.ev(base, env, ctx, after_b)

    def args(self, exprs, ptypes, env, ctx, k):
        atoms, types = [], []

        def go(i):
            if i == len(exprs):
                return k(atoms, types)

            def after(a, t):
                atoms.append(a)
                types.append(t)
                return go(i + 1)
            return self.ev(exprs[i], env, ctx, after, expect=ptypes[i] if ptypes and i < len(ptypes) else None)
        return go(0)

    def call_fn(self, owner, name, recv_atom, arg_exprs, env, ctx, k, recv_var=None, want_env=False):
        """call of a crate function (translated on demand)"""
        out = self.tr.translate(owner, name)
        if not out["ok"]:
            raise Unsupported("calls %s::%s, which is not translated (%s)" % (owner, name, out["reason"]))
        key, rec = self.tr.find_fn(owner, name)
        fn = rec["fn"]
        ptypes = [self.c.norm(ty, rec.get("self_ty") or self.tr.owner_ty(owner)) for _, ty in fn[3]]
        if len(ptypes) != len(arg_exprs):
            raise Unsupported("argument count of %s::%s" % (owner, name))
        if out["fuel"]:
            self.fuel = True

        def after(atoms, types):
            lean = "Src.%s.%s" % (owner, name)
            allargs = (["fuel"] if out["fuel"] else []) + ([recv_atom] if recv_atom is not None else []) + atoms
            term = lean + "".join(" " + a for a in allargs)
            if out["mutself"]:
                if recv_var is None:
                    raise Unsupported("&mut self method on a temporary")
                if out["plain_ret"] == UNIT:
                    body = k("()", UNIT)
                    return "Option.bind (%s) fun %s =>\n%s" % (term, lname(recv_var), body)
                tmp = self.fresh()
                return "Option.bind (%s) fun (%s, %s) =>\n%s" % (term, tmp, lname(recv_var), k(tmp, out["plain_ret"]))
            tmp = self.fresh()
            return "Option.bind (%s) fun %s =>\n%s" % (term, tmp, k(tmp, out["plain_ret"]))
        return self.args(arg_exprs, ptypes, env, ctx, after)

    def call(self, e, env, ctx, k, expect):
        _, f, args = e
        if f[0] != "path":
            raise Unsupported("call of a computed function")
        segs = f[1]
        name = segs[-1]
        if not isinstance(name, str):
            raise Unsupported("generic call")
        if len(segs) == 1:
            # tuple-struct constructor or free function of the current module
            if name in self.c.structs or name == "Self":
                return self.ctor(name, args, env, ctx, k)
            if name == "Some" and len(args) == 1:
                ex = expect[1] if expect and expect[0] == "opt" else None
                return self.ev(args[0], env, ctx, lambda a, t: k("(some %s)" % a, ("opt", t)), expect=ex)
            if name == "Ok" and len(args) == 1:
                ex = expect[1] if expect and expect[0] == "res" else None
                return self.ev(args[0], env, ctx, lambda a, t: k("(Except.ok %s)" % a, ("res", t)), expect=ex)
            if name == "Err" and len(args) == 1:
                rt = expect if expect and expect[0] == "res" else (self.rty if self.rty[0] == "res" else None)
                if rt is None:
                    raise Unsupported("Err of unknown result type")
                return self.ev(args[0], env, ctx, lambda a, t: k("(Except.error %s)" % a, rt))
            cands = [self.rec.get("mod"), self.rec["owner"]]
            cands += sorted(o for (o, n) in self.c.fns if n == name and o not in self.c.structs and o not in self.c.enums
                            and o not in INT_W and not o.startswith("trait:"))
            for own in cands:
                if own and (own, name) in self.c.fns and self.c.fns[(own, name)][0]["fn"][2] is None:
                    return self.call_fn(own, name, None, args, env, ctx, k)
            raise Unsupported("unknown function " + name)
        own = self.tr.path_owner(segs[:-1], self.owner)
        seg_names = [s if isinstance(s, str) else s[0] for s in segs]
        if own in self.c.structs and name == own:
            return self.ctor(name, args, env, ctx, k)
        if own == "f32" and name in ("max", "min") and len(args) == 2:
            return self.args(args, [("f32",), ("f32",)], env, ctx, lambda a, t: k("(%s %s %s)" % ("max" if name == "max" else "min", a[0], a[1]), ("f32",)))
        if own == "f32" and name == "from" and len(args) == 1:
            def after_from(a, t):
                if t[0] == "int" and t[1] in ("u8", "u16", "lit"):
                    return k("((%s : Int) * 256)" % a, ("f32",))
                raise Unsupported("f32::from(%s)" % (t,))
            return self.ev(args[0], env, ctx, after_from)
        # core functions
        if seg_names[-2:] == ["cmp", "max"] or (own in INT_W and name == "max"):
            return self.args(args, None, env, ctx, lambda a, t: k("(Nat.max %s %s)" % (a[0], a[1]), t[0] if t[0] != I("lit") else t[1]))
        if seg_names[-2:] == ["cmp", "min"] or (own in INT_W and name == "min"):
            return self.args(args, None, env, ctx, lambda a, t: k("(Nat.min %s %s)" % (a[0], a[1]), t[0] if t[0] != I("lit") else t[1]))
        # From::from for the new-type containers: transparent when defined as `Type(array)`
        key, rec = self.tr.find_fn(own, name)
        if rec is None and name == "default" and not args and own in self.c.structs:
            skind, fields = self.c.structs[own]
            if skind == "tuple" and len(fields) == 1:
                ft = self.c.norm(fields[0])
                if ft[0] == "arr" and ft[1][0] == "int" and ft[2] is not None:
                    # `#[derive(Default)]` on a new-type over an integer array
                    return k("(List.replicate %d 0)" % ft[2], ("adt", own))
        if rec is None:
            raise Unsupported("unknown function %s::%s" % (own, name))
        fn = rec["fn"]
        if fn[2] is not None:
            # method called in path form: first argument is the receiver
            recv = args[0]
            rest = args[1:]
            rv = None
            try:
                rv = self.place(recv, env)
            except Unsupported:
                pass
            return self.ev(recv, env, ctx, lambda a, t: self.call_fn(own, name, a, rest, env, ctx, k, recv_var=rv))
        return self.call_fn(own, name, None, args, env, ctx, k)

    def ctor(self, name, args, env, ctx, k):
        sname = self.owner if name == "Self" else name
        kind, fields = self.c.structs[sname]
        if kind != "tuple" or len(fields) != 1 or len(args) != 1:
            raise Unsupported("constructor of %s" % sname)
        return self.ev(args[0], env, ctx, lambda a, t: k(a, ("adt", sname)), expect=self.c.norm(fields[0]))

    def mcall(self, e, env, ctx, k, want_env=False):
        _, recv, name, args = e
        k2 = (lambda a, t: k(a, t)) if True else k
        # iterator adaptors with closures
        if name in ("any", "all") and len(args) == 1 and args[0][0] == "closure":
            clo = args[0]
            if len(clo[1]) != 1:
                raise Unsupported("closure arity")

            def after_it(xs, xt):
                env2 = dict(env)
                env2["#depth"] = env2.get("#depth", 0) + 1
                p = clo[1][0]
                lp = self.bindpat(p, xt[1], env2)
                cctx = {"ret": None, "brk": None, "cont": None}
                body = self.ev(clo[2], env2, cctx, lambda a, t: "some %s" % a, expect=BOOL)
                tmp = self.fresh()
                return "Option.bind (Src.%sM %s fun %s =>\n%s) fun %s =>\n%s" % (name, xs, lp, indent(body), tmp, k2(tmp, BOOL))
            return self.iterable(recv, env, ctx, after_it)
        rv = None
        try:
            rv = self.place(recv, env)
        except Unsupported:
            pass

        def after_r(a, t):
            if t[0] == "str":
                if name == "split_whitespace" and not args:
                    return k2("(CK.tokens %s)" % a, ("iter", ("str",)))
                if name == "chars" and not args:
                    return k2(a, ("iter", ("char",)))
                if name == "len" and not args:
                    raise Unsupported("str::len (UTF-8 byte length)")
            if t[0] == "iter" and len(t) > 1 and name in ("copied", "cloned", "into_iter") and not args:
                return k2(a, t)
            if t[0] == "iter" and len(t) > 1 and name == "next" and not args:
                if rv is None:
                    raise Unsupported("next() on a temporary iterator")
                tmp = self.fresh()
                return "let (%s, %s) := Src.iterNext %s\n%s" % (tmp, lname(rv), lname(rv), k2(tmp, ("opt", t[1])))
            # built-in methods on integers
            if t[0] == "int":
                w = INT_W.get(t[1])
                if name == "count_ones" and w and not args:
                    return k2("(CK.pc %d %s)" % (w, a), I("u32"))
                if name == "leading_zeros" and w == 32 and not args:
                    return k2("(CK.lz32 %s)" % a, I("u32"))
                if name == "trailing_zeros" and w == 32 and not args:
                    return k2("(CK.tz32 %s)" % a, I("u32"))
                if name == "cmp" and len(args) == 1:
                    return self.ev(args[0], env, ctx, lambda b, t2: k2("(compare %s %s)" % (a, b), ("ordering",)), expect=t)
                if name in ("max", "min") and len(args) == 1:
                    return self.ev(args[0], env, ctx, lambda b, t2: k2("(Nat.%s %s %s)" % (name, a, b), t), expect=t)
                if name in ("clone", "to_owned") and not args:
                    return k2(a, t)
            if t == ("f32",):
                if name == "ceil" and not args:
                    return k2("(Src.fceil %s)" % a, t)
                if name == "floor" and not args:
                    return k2("(Src.ffloor %s)" % a, t)
                if name in ("max", "min") and len(args) == 1:
                    return self.ev(args[0], env, ctx, lambda b, t2: k2("(%s %s %s)" % (name, a, b), t), expect=t)
            if t[0] == "arr":
                if name == "contains" and len(args) == 1:
                    return self.ev(args[0], env, ctx, lambda b, t2: k2("(%s.contains %s)" % (a, b), BOOL), expect=t[1])
                if name == "len" and not args:
                    return k2("%s.length" % a, I("usize"))
                if name in ("iter", "into_iter") and not args:
                    return k2(a, ("iter", t[1]))
                if name in ("sort_unstable", "sort", "reverse") and not args:
                    if rv is None:
                        raise Unsupported("in-place method on a temporary")
                    f = "Src.sortAsc" if name != "reverse" else "List.reverse"
                    return "let %s := %s %s\n%s" % (lname(rv), f, lname(rv), k2("()", UNIT))
                if name in ("clone", "to_owned") and not args:
                    return k2(a, t)
            if t == BOOL and name == "clone":
                return k2(a, t)
            owner = self.c.owner_of_type(t) if t[0] in ("int", "adt", "enum") else None
            if owner is None:
                raise Unsupported("method %s on %s" % (name, t))
            key, rec = self.tr.find_fn(owner, name)
            if rec is None:
                if t[0] == "adt" and name in ("clone",):
                    return k2(a, t)
                raise Unsupported("unknown method %s on %s" % (name, owner))
            if rec["fn"][2] is None:
                raise Unsupported("associated function called as a method")
            return self.call_fn(owner, name, a, args, env, ctx, k2, recv_var=rv)
        return self.ev(recv, env, ctx, after_r)

    # ------------------------------------------------------------------ match
    def match_(self, e, env, ctx, k, expect=None, stmt_cont=None):
        _, scrut, arms = e

        def after(a, t):
            if t[0] == "opt":
                return self.match_opt(arms, a, t, env, ctx, k, expect, stmt_cont)
            if t[0] == "char":
                t = I("u32")
            if t[0] not in ("int", "enum", "bool"):
                raise Unsupported("match on %s" % (t,))
            if len(arms) > 80 and self.match_ranges(arms, a, t, env, ctx, expect) is None and self.match_table(arms, a, t, env, ctx, expect) is None:
                raise Unsupported("match with %d arms (regenerated as a complete function graph instead)" % len(arms))
            tbl = self.match_table(arms, a, t, env, ctx, expect)
            if tbl is None:
                tbl = self.match_ranges(arms, a, t, env, ctx, expect)
            if tbl is not None and not stmt_cont:
                return k(tbl[0], tbl[1])
            lines = []
            s = a
            if not re.match(r"^[A-Za-z_][A-Za-z0-9_]*$", a):
                s = self.fresh("m")
            out = []
            closed = False
            for pat, guard, body in arms:
                if guard is not None:
                    raise Unsupported("match guard")
                cond, binder = self.patcond(pat, s, t)
                env2 = dict(env)
                pre = ""
                if binder:
                    env2[binder] = t
                    pre = "let %s := %s\n" % (lname(binder), s)
                if body[0] == "block":
                    bt = self.block(body, env2, ctx, (lambda a2, t2, env3: stmt_cont(self.merge_env(env, env3))) if stmt_cont else (lambda a2, t2, env3: k(a2, fix(t2, expect))))
                elif stmt_cont:
                    bt = self.stmt_expr(body, env2, ctx, stmt_cont)
                else:
                    bt = self.ev(body, env2, ctx, lambda a2, t2: k(a2, fix(t2, expect)), expect=expect)
                out.append((cond, pre + bt))
                if cond is None:
                    closed = True
                    break
            if not closed:
                if t[0] == "enum" or t == BOOL:
                    # exhaustive by the compiler's check: the last arm is the default
                    out[-1] = (None, out[-1][1])
                else:
                    raise Unsupported("match without a catch-all arm")
            term = ""
            for cond, bt in out[:-1]:
                term += "if %s then\n%s\nelse " % (cond, indent(bt))
            term += "\n" + indent(out[-1][1]) if len(out) > 1 else out[-1][1]
            if s != a:
                term = "let %s := %s\n%s" % (s, a, term)
            return term
        return self.ev(scrut, env, ctx, after)

    def match_opt(self, arms, a, t, env, ctx, k, expect, stmt_cont):
        none_arm = some_arm = None
        for pat, guard, body in arms:
            if guard is not None:
                raise Unsupported("match guard")
            if pat[0] == "ppath" and pat[1][-1] == "None" and none_arm is None:
                none_arm = (None, body)
            elif pat[0] == "pctor" and pat[1][-1] == "Some" and len(pat[2]) == 1 and some_arm is None:
                some_arm = (pat[2][0], body)
            elif pat[0] in ("pwild", "pbind"):
                none_arm = none_arm or (None, body)
                some_arm = some_arm or (("pwild",), body)
            else:
                raise Unsupported("pattern on an Option")
        if none_arm is None or some_arm is None:
            raise Unsupported("match on an Option without both cases")

        def arm(body, env2):
            if body[0] == "block":
                return self.block(body, env2, ctx, (lambda a2, t2, env3: stmt_cont(self.merge_env(env, env3))) if stmt_cont else (lambda a2, t2, env3: k(a2, fix(t2, expect))))
            if stmt_cont:
                return self.stmt_expr(body, env2, ctx, stmt_cont)
            return self.ev(body, env2, ctx, lambda a2, t2: k(a2, fix(t2, expect)), expect=expect)
        env_s = dict(env)
        lp = self.bindpat(some_arm[0], t[1], env_s)
        return "match %s with\n| none =>\n%s\n| some %s =>\n%s" % (a, indent(arm(none_arm[1], dict(env))), lp, indent(arm(some_arm[1], env_s)))

    def match_table(self, arms, a, t, env, ctx, expect):
        """`match x { C1 => V1, C2 | C3 => V2, ..., _ => D }` with constant patterns and pure numeric results
        -> (`Src.matchTable [(C1, V1), ...] D x`, type); None if the match is not of that shape"""
        if len(arms) < 4:
            return None
        rows, dflt, rt = [], None, None
        for i, (pat, guard, body) in enumerate(arms):
            if guard is not None or body[0] in ("block", "return", "if", "match"):
                return None
            n0 = self.n
            try:
                got = []
                probe = self.ev(body, env, {"ret": None, "brk": None, "cont": None}, lambda b, tt: got.append(tt) or ("\0" + b), expect=expect)
            except (Unsupported, TypeError):
                self.n = n0
                return None
            if not probe.startswith("\0") or got[0][0] not in ("int", "enum", "char"):
                self.n = n0
                return None
            val = probe[1:]
            if rt is None or rt == I("lit"):
                rt = got[0]
            alts = pat[1] if pat[0] == "por" else [pat]
            if pat[0] == "pwild":
                if i != len(arms) - 1:
                    return None
                dflt = val
                break
            for p in alts:
                if p[0] not in ("plit", "ppath") or (p[0] == "plit" and p[1][0] not in ("num", "char")):
                    return None
                c, b = self.patcond(p, "S", t)
                m = re.match(r"^\(S == (.*)\)$", c)
                rows.append("(%s, %s)" % (m.group(1), val))
        if dflt is None:
            if t[0] != "enum":
                return None
            # exhaustive over an enum: the last arm's value serves as the default
            dflt = rows[-1].rsplit(", ", 1)[1][:-1]
        return "(Src.matchTable [%s] %s %s)" % (", ".join(rows), dflt, a), fix(rt, expect)

    def match_ranges(self, arms, a, t, env, ctx, expect):
        """`match x { lo..=hi => V, n => W, ..., _ => D }` with constant results -> `Src.matchRanges [(lo, hi, V) …] D x`"""
        if len(arms) < 6 or t[0] != "int":
            return None
        rows, dflt, rt = [], None, None
        for i, (pat, guard, body) in enumerate(arms):
            if guard is not None or body[0] in ("block", "return", "if", "match"):
                return None
            n0 = self.n
            try:
                got = []
                probe = self.ev(body, env, {"ret": None, "brk": None, "cont": None}, lambda b, tt: got.append(tt) or ("\0" + b), expect=expect)
            except (Unsupported, TypeError):
                self.n = n0
                return None
            if not probe.startswith("\0") or got[0][0] not in ("int", "enum", "char"):
                self.n = n0
                return None
            val = probe[1:]
            if rt is None or rt == I("lit"):
                rt = got[0]
            if pat[0] == "pwild":
                if i != len(arms) - 1:
                    return None
                dflt = val
                break
            for p in (pat[1] if pat[0] == "por" else [pat]):
                try:
                    if p[0] == "plit" and p[1][0] == "num" and not p[1][3]:
                        lo = hi = str(parse_int(p[1][1]))
                    elif p[0] == "prange":
                        lo, hi = self.patval(p[1]), self.patval(p[2])
                    else:
                        return None
                except Unsupported:
                    return None
                rows.append("(%s, %s, %s)" % (lo, hi, val))
        if dflt is None:
            return None
        return "(Src.matchRanges [%s] %s %s)" % (", ".join(rows), dflt, a), fix(rt, expect)

    def patcond(self, pat, s, t):
        """(Lean Bool condition or None for irrefutable, bound variable name or None)"""
        kd = pat[0]
        if kd == "pwild":
            return None, None
        if kd == "pbind":
            return None, pat[1]
        if kd == "plit":
            lit = pat[1]
            if lit[0] == "num":
                if lit[3]:
                    raise Unsupported("negative literal pattern")
                return "(%s == %d)" % (s, parse_int(lit[1])), None
            if lit[0] == "bool":
                return ("%s" % s if lit[1] else "(!%s)" % s), None
            if lit[0] == "char":
                return "(%s == %d)" % (s, char_code(lit[1])), None
            raise Unsupported("literal pattern")
        if kd == "prange":
            lo, hi = pat[1], pat[2]
            lov = self.patval(lo)
            hiv = self.patval(hi)
            return "(decide (%s ≤ %s) && decide (%s ≤ %s))" % (lov, s, s, hiv), None
        if kd == "ppath":
            segs = pat[1]
            fake = ("path", segs)
            got = []
            self.path(fake, {}, lambda a, tt: got.append(a) or "", None)
            return "(%s == %s)" % (s, got[0]), None
        if kd == "por" and len(pat[1]) >= 4 and all(p[0] in ("plit", "ppath") and not (p[0] == "plit" and p[1][0] not in ("num", "char")) for p in pat[1]):
            vals = []
            for p in pat[1]:
                c, b = self.patcond(p, s, t)
                m = re.match(r"^\(%s == (.*)\)$" % re.escape(s), c)
                vals.append(m.group(1))
            return "([%s].contains %s)" % (", ".join(vals), s), None
        if kd == "por":
            conds = []
            for p in pat[1]:
                c, b = self.patcond(p, s, t)
                if c is None:
                    return None, None
                conds.append(c)
            return "(" + " || ".join(conds) + ")", None
        raise Unsupported("pattern " + kd)

    def patval(self, lit):
        if lit[0] == "num":
            return str(parse_int(lit[1]))
        if lit[0] == "path":
            got = []
            self.path(("path", lit[1]), {}, lambda a, tt: got.append(a) or "", None)
            return got[0]
        raise Unsupported("range pattern bound")


def fix(t, expect):
    if t == I("lit") and expect is not None and expect[0] == "int":
        return expect
    return t


def as_const(atom):
    return int(atom) if re.match(r"^[0-9]+$", atom) else None


def indent(s, n=2):
    return "\n".join(" " * n + ln for ln in s.split("\n"))


PRELUDE = '''import CkcVerif.Model.Basic
import CkcVerif.Model.Bits
import CkcVerif.Model.Sort
import CkcVerif.Model.Parse
/-!
# Mechanical translation of the crate's algorithmic functions (written by tools/rs2lean.py on every run — do not edit)

`none` = the Rust code panics (bounds check, unsigned subtraction below zero) or the loop fuel ran out.
-/
set_option linter.unusedVariables false
namespace Src

inductive Ctl (ρ σ : Type) where
  | ret (r : ρ) | brk (s : σ) | next (s : σ)
inductive Out (ρ σ : Type) where
  | ret (r : ρ) | done (s : σ)

/-- `while` / `loop`: one unit of fuel per iteration -/
def whileFuel {ρ σ : Type} : Nat → σ → (σ → Option (Ctl ρ σ)) → Option (Out ρ σ)
  | 0, _, _ => none
  | n + 1, s, f =>
    match f s with
    | none => none
    | some (.ret r) => some (.ret r)
    | some (.brk s') => some (.done s')
    | some (.next s') => whileFuel n s' f

/-- `for x in xs` -/
def forList {ρ σ α : Type} : List α → σ → (σ → α → Option (Ctl ρ σ)) → Option (Out ρ σ)
  | [], s, _ => some (.done s)
  | x :: xs, s, f =>
    match f s x with
    | none => none
    | some (.ret r) => some (.ret r)
    | some (.brk s') => some (.done s')
    | some (.next s') => forList xs s' f

/-- `Iterator::any` with a closure that may panic; stops at the first `true` -/
def anyM {α : Type} : List α → (α → Option Bool) → Option Bool
  | [], _ => some false
  | x :: xs, f =>
    match f x with
    | none => none
    | some true => some true
    | some false => anyM xs f

/-- `Iterator::all` -/
def allM {α : Type} : List α → (α → Option Bool) → Option Bool
  | [], _ => some true
  | x :: xs, f =>
    match f x with
    | none => none
    | some false => some false
    | some true => allM xs f

/-- `match x { lo..=hi => V, …, _ => D }` with constant bounds and results: first matching row -/
def matchRanges : List (Nat × Nat × Nat) → Nat → Nat → Nat
  | [], d, _ => d
  | (lo, hi, v) :: rest, d, x => if lo ≤ x ∧ x ≤ hi then v else matchRanges rest d x

/-- `f32` values are modelled exactly as multiples of 1/256 (an `Int` scaled by 256).  Addition and subtraction are exact;
    a product or quotient that is not again such a multiple is outside the model (`none`); so is division by zero.  Every
    value of magnitude below 2^16 of this form is an `f32` and IEEE arithmetic is exact on exactly representable results. -/
def fmul (a b : Int) : Option Int := if (a * b) % 256 = 0 then some (a * b / 256) else none
def fdiv (a b : Int) : Option Int := if b ≠ 0 ∧ (a * 256) % b = 0 then some (a * 256 / b) else none
def fceil (a : Int) : Int := (a + 255) / 256 * 256
def ffloor (a : Int) : Int := a / 256 * 256
/-- `as iN` from `f32`: truncation toward zero, saturating -/
def f2i (bits : Nat) (a : Int) : Int :=
  let t := Int.tdiv a 256
  max (-(2 ^ (bits - 1) : Int)) (min t (2 ^ (bits - 1) - 1))

/-- `Iterator::next` on a list-backed iterator -/
def iterNext {α : Type} : List α → Option α × List α
  | [] => (none, [])
  | x :: xs => (some x, xs)

/-- `match x { C₁ => V₁, …, _ => D }` with constant patterns and constant results: first matching row -/
def matchTable (tbl : List (Nat × Nat)) (dflt : Nat) (x : Nat) : Nat := (tbl.lookup x).getD dflt

/-- `+`, `*`, `<<`, `>>` on a `w`-bit unsigned integer: `none` = "attempt to … with overflow" (overflow checks on) -/
def add (w a b : Nat) : Option Nat := if a + b < 2 ^ w then some (a + b) else none
def mul (w a b : Nat) : Option Nat := if a * b < 2 ^ w then some (a * b) else none
def shl (w a b : Nat) : Option Nat := if b < w then some ((a <<< b) % 2 ^ w) else none
def shr (w a b : Nat) : Option Nat := if b < w then some (a >>> b) else none
/-- unsigned subtraction: panics below zero (overflow checks on); the release build would wrap -/
def sub (a b : Nat) : Option Nat := if b ≤ a then some (a - b) else none
def div (a b : Nat) : Option Nat := if b = 0 then none else some (a / b)
def rem (a b : Nat) : Option Nat := if b = 0 then none else some (a % b)
/-- `&xs[i..]` -/
def sliceFrom {α : Type} (xs : List α) (i : Nat) : Option (List α) := if i ≤ xs.length then some (xs.drop i) else none
/-- `sort_unstable()` on integers (`core`; modelled, not verified): the non-decreasing rearrangement -/
def sortAsc (xs : List Nat) : List Nat := (CK.sortDesc xs).reverse

'''


def emit(tr, crate):
    lines = [PRELUDE]
    for sname in sorted(tr.used_structs):
        kind, fields = crate.structs[sname]
        lines.append("structure %s where" % sname)
        for fname, fty in fields:
            lines.append("  %s : %s" % (lname(fname), tr.lty(crate.norm(fty))))
        lines.append("deriving DecidableEq, Repr\n")
    # constants first (all that were referenced)
    for key in tr.const_order:
        val, ty = tr.const_done[key]
        own = key[0].replace("trait:", "")
        try:
            lines.append("def %s.%s : %s := %s" % (own, key[1], tr.lty(ty), tr.lval(val)))
        except Unsupported as e:
            lines.append("-- constant %s::%s not emitted: %s" % (own, key[1], e))
    lines.append("")
    for key in tr.order:
        out = tr.done[key]
        params = "".join(" (%s : %s)" % p for p in out["params"])
        if out["fuel"]:
            params = " (fuel : Nat)" + params
        src = out["file"] + (" (default method of trait %s)" % out["via_trait"] if out.get("via_trait") else "")
        lines.append("/-- `%s::%s` — %s -/" % (key[0], key[1], src))
        lines.append("def %s.%s%s : Option %s :=\n%s\n" % (key[0], key[1], params, out["ret_lty"], indent(out["lean_body"])))
    lines.append("end Src")
    return "\n".join(lines) + "\n"


def main():
    repo, out_lean, out_json = sys.argv[1:4]
    crate = Crate(repo)
    tr = Translator(crate)
    targets = []
    for (owner, name), recs in sorted(crate.fns.items()):
        if owner.startswith("trait:"):
            continue
        targets.append((owner, name))
        for i in range(2, len(recs) + 1):
            # several impls define the same name for this type (e.g. `TryFrom<&str>` and `TryFrom<BinaryCard>`)
            targets.append((owner, "%s__%d" % (name, i)))
    # trait default methods, once per implementing type
    for tname, fns in sorted(crate.traits.items()):
        for owner in crate.trait_impls.get(tname, []):
            for fname, rec in sorted(fns.items()):
                if rec["fn"][5] is not None and (owner, fname) not in crate.fns:
                    targets.append((owner, fname))
    status = {}
    for owner, name in targets:
        try:
            out = tr.translate(owner, name)
        except (Unsupported, Exception) as e:  # noqa: BLE001
            out = {"ok": False, "reason": str(e)}
            tr.done[(owner, name)] = out
        status["%s::%s" % (owner, name)] = {"translated": out["ok"], "reason": out.get("reason"), "fuel": out.get("fuel", False),
                                            "file": out.get("file"), "hash": out.get("hash"), "via_trait": out.get("via_trait")}
    # every constant of the crate, also those no translated function mentions (they are compared with the values dumped from
    # the compiled crate in Tie/Consts.lean: the two translators must agree)
    for (owner, name) in sorted(crate.consts):
        try:
            tr.const_value(owner, name)
        except (Unsupported, Exception):  # noqa: BLE001
            pass
    text = emit(tr, crate)
    skipped = ["-- not translated: %s — %s" % (k, v["reason"]) for k, v in sorted(status.items()) if not v["translated"]]
    text = text.replace("end Src\n", "\n".join(skipped) + "\nend Src\n")
    old = open(out_lean).read() if os.path.exists(out_lean) else None
    if old != text:
        os.makedirs(os.path.dirname(out_lean), exist_ok=True)
        open(out_lean, "w").write(text)
    import hashlib

    def strip_fns(items):
        out = []
        for it in items:
            if it[0] == "fn":
                out.append(("fn", it[1]))
            elif it[0] == "impl":
                out.append(it[:3] + (strip_fns(it[3]),) + it[4:])
            elif it[0] == "trait":
                out.append(it[:2] + (strip_fns(it[2]),) + it[3:])
            elif it[0] == "mod":
                out.append(it[:2] + (strip_fns(it[2]),) + it[3:])
            else:
                out.append(it)
        return out
    files = {rel: hashlib.sha1(repr(strip_fns(items)).encode()).hexdigest()[:16] for rel, items in sorted(crate.files.items())}
    json.dump({"functions": status, "files_outside_functions": files, "notes": crate.notes, "changed": old != text},
              open(out_json, "w"), indent=1, sort_keys=True)
    n_ok = sum(1 for v in status.values() if v["translated"])
    print("rs2lean: %d of %d functions translated%s" % (n_ok, len(status), "" if old != text else " (unchanged)"))


if __name__ == "__main__":
    main()
