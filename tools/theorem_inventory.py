#!/usr/bin/env python3
"""Markdown inventory of the property theorems (name + doc comment) from lean/CkcVerif/Props/*.lean."""
import glob, os, re
for f in sorted(glob.glob("/verif/lean/CkcVerif/Props/C??.lean")):
    src = open(f).read()
    pid = os.path.basename(f)[:-5]
    title = re.search(r"/-!\s*\n# (.*)", src)
    print(f"\n**{title.group(1) if title else pid}**\n")
    for m in re.finditer(r"(/--((?:.|\n)*?)-/\s*)?theorem\s+(\S+)", src):
        doc = (m.group(2) or "").strip().replace("\n", " ")
        doc = re.sub(r"\s+", " ", doc)
        print(f"* `{m.group(3)}` — {doc[:400] if doc else '(helper, audited)'}")
