#!/usr/bin/env python3
"""Fingerprints of the crate's non-test source, per file.

The hand-written part of the Lean model was read off these files.  `./check` compares the current fingerprints with
the committed ones (tools/source_pins.json): a difference is NOT a violation (a rewrite may be harmless) — it only
means the model was last reviewed against different source, so the sampled part of the tie is explored at the
thorough depth before the property is reported as held.

  source_pins.py            print the files whose non-test code differs from the pins
  source_pins.py --write    re-pin to the current tree (done by hand, after reviewing the model against the change)
"""
import hashlib, json, os, re, sys

REPO = "/repo"
PINS = os.path.join(os.path.dirname(os.path.abspath(__file__)), "source_pins.json")


def strip(src):
    """remove comments (string- and char-literal aware); return the code text"""
    out, i, n = [], 0, len(src)
    while i < n:
        c = src[i]
        if src.startswith("//", i):
            j = src.find("\n", i)
            i = n if j < 0 else j
        elif src.startswith("/*", i):
            depth, i = 1, i + 2
            while i < n and depth:
                if src.startswith("/*", i):
                    depth, i = depth + 1, i + 2
                elif src.startswith("*/", i):
                    depth, i = depth - 1, i + 2
                else:
                    i += 1
            out.append(" ")
        elif c == '"' or (c == "r" and re.match(r'r#*"', src[i:i + 8]) and not (i and (src[i - 1].isalnum() or src[i - 1] == "_"))):
            if c == "r":
                m = re.match(r'r(#*)"', src[i:])
                end = '"' + m.group(1)
                j = src.find(end, i + len(m.group(0)))
                j = n if j < 0 else j + len(end)
            else:
                j = i + 1
                while j < n and src[j] != '"':
                    j += 2 if src[j] == "\\" else 1
                j += 1
            out.append(src[i:j])
            i = j
        elif c == "'":
            m = re.match(r"'(\\u\{[0-9a-fA-F_]+\}|\\x[0-9a-fA-F]{2}|\\.|[^\\'])'", src[i:])
            if m:
                out.append(m.group(0))
                i += len(m.group(0))
            else:
                out.append(c)
                i += 1
        else:
            out.append(c)
            i += 1
    return "".join(out)


def drop_test_modules(code):
    """remove `#[cfg(test)]` items (the following item up to its matching brace or semicolon)"""
    while True:
        m = re.search(r"#\[cfg\(test\)\]", code)
        if not m:
            return code
        i = m.end()
        depth = 0
        j = i
        while j < len(code):
            ch = code[j]
            if ch == '"':
                k = j + 1
                while k < len(code) and code[k] != '"':
                    k += 2 if code[k] == "\\" else 1
                j = k + 1
                continue
            if ch == "{":
                depth += 1
            elif ch == "}":
                depth -= 1
                if depth == 0:
                    j += 1
                    break
            elif ch == ";" and depth == 0:
                j += 1
                break
            j += 1
        code = code[:m.start()] + code[j:]


def fingerprint(path):
    code = drop_test_modules(strip(open(path, encoding="utf-8", errors="replace").read()))
    # attributes that only affect lints/docs do not matter; whitespace does not matter
    code = re.sub(r"#!?\[(doc|allow|warn|deny|must_use|deprecated|inline)[^\]]*\]", " ", code)
    toks = re.findall(r"[A-Za-z_][A-Za-z0-9_]*|\d[0-9A-Za-z_\.]*|\"(?:\\.|[^\"\\])*\"|'(?:\\.|[^'\\])+'|\S", code)
    return hashlib.sha256("\x1f".join(toks).encode()).hexdigest()


STATE_RE = re.compile(r"\bstatic\s+mut\b|\bunsafe\b|\bAtomic\w*|\b(?:Ref|Unsafe|Once|Sync)?Cell\b|\bOnceLock\b|\bLazyLock\b|\bLazy\b|"
                      r"\bMutex\b|\bRwLock\b|\bthread_local\b|\blazy_static\b|\bOnce\b")


def blank_strings(code):
    return re.sub(r'"(?:\\.|[^"\\])*"', '""', code)


def global_state():
    """lines of non-test code that introduce state carried between calls (or `unsafe`, with which anything goes):
    the model treats every function of the crate as a function of its arguments"""
    hits = []
    for base, _, names in os.walk(os.path.join(REPO, "src")):
        for nme in sorted(names):
            if not nme.endswith(".rs"):
                continue
            p = os.path.join(base, nme)
            src = open(p, encoding="utf-8", errors="replace").read()
            code = blank_strings(drop_test_modules(strip(src)))
            for m in STATE_RE.finditer(code):
                ln = code.count("\n", 0, m.start())
                line = code.split("\n")[ln].strip()
                hits.append(f"{os.path.relpath(p, REPO)}: {line[:160]}")
    return sorted(set(hits))


OBSERVED_TRAITS = {"HandRanker", "HandValidator", "Permutator", "Shifty", "PokerCard", "BC64", "From", "TryFrom", "Into", "TryInto",
                   "Ord", "PartialOrd", "PartialEq", "Eq", "Default", "AsRef", "Deref", "DerefMut", "Borrow", "Index", "IndexMut",
                   "IntoIterator", "FromIterator", "Hash", "Clone", "Copy"}


def blocks(code):
    """(header, body) of every `impl …{}` / `trait …{}` block of stripped code"""
    out = []
    for m in re.finditer(r"\b(impl\b(?:[^{;\[]|\[[^\]]*\])*|(?:pub(?:\([a-z]+\))?\s+)?trait\s+\w+[^{;]*)\{", code):
        i = m.end()
        depth = 1
        j = i
        while j < len(code) and depth:
            if code[j] == "{":
                depth += 1
            elif code[j] == "}":
                depth -= 1
            j += 1
        out.append((" ".join(m.group(1).split()), code[i:j - 1]))
    return out


def api_surface():
    """per file: for every impl / trait block its header and the names of the functions it defines"""
    res = {}
    for base, _, names in os.walk(os.path.join(REPO, "src")):
        for nme in sorted(names):
            if not nme.endswith(".rs"):
                continue
            p = os.path.join(base, nme)
            code = blank_strings(drop_test_modules(strip(open(p, encoding="utf-8", errors="replace").read())))
            d = {}
            for mm in re.finditer(r"#\[derive\(([^)]*)\)\]\s*(?:#\[[^\]]*\]\s*)*(?:pub(?:\([a-z]+\))?\s+)?(?:struct|enum)\s+(\w+)", code):
                d["derive on " + mm.group(2)] = sorted(x.strip() for x in mm.group(1).split(",") if x.strip())
            code = re.sub(r"#!?\[[^\]]*\]", " ", code)
            for head, body in blocks(code):
                # only functions at the top level of the block
                depth, top, k = 0, [], 0
                for mm in re.finditer(r"[{}]|\bfn\s+([A-Za-z_0-9]+)|\bpub\s+const\s+([A-Za-z_0-9]+)\s*:", body):
                    if mm.group(0) == "{":
                        depth += 1
                    elif mm.group(0) == "}":
                        depth -= 1
                    elif depth == 0:
                        top.append(mm.group(1) if mm.group(1) else "const " + mm.group(2))
                d.setdefault(head, [])
                d[head] = sorted(set(d[head]) | set(top))
            res[os.path.relpath(p, REPO)] = d
    return res


def surface_changes():
    """changes of the entry-point surface that can make an existing call (or a call a user would naturally write) reach
    code the harness does not: a new impl of an observed trait (e.g. for `&mut T`, for an array), a method added to a trait,
    a function whose name already names an entry point elsewhere (inherent `from` beside `From::from`, …).
    Returns (list of 'file: description') or None when there are no pins."""
    try:
        pins = json.load(open(PINS))["api"]
    except (OSError, ValueError, KeyError):
        return None
    cur = api_surface()
    known_names = {f for d in pins.values() for fs in d.values() for f in fs}
    out = []
    for file, d in sorted(cur.items()):
        old = pins.get(file, {})
        for head, fns in sorted(d.items()):
            if head not in old:
                if head.startswith("derive on "):
                    continue
                m = re.match(r"impl(?:\s*<[^>]*>)?\s+(?:[a-z_:]*::)?([A-Za-z]+)(?:<[^{]*?>)?\s+for\s+(.+)$", head)
                if m and m.group(1) in OBSERVED_TRAITS:
                    out.append(f"{file}: new `{head}`")
                elif head.startswith(("trait", "pub trait")):
                    out.append(f"{file}: new `{head}`")
                else:
                    clash = [f for f in fns if f in known_names]
                    if clash:
                        out.append(f"{file}: new `{head}` defines {', '.join(clash)}, names of existing entry points")
                continue
            added = [f for f in fns if f not in old[head]]
            if head.startswith("derive on "):
                if sorted(fns) != sorted(old[head]):
                    out.append(f"{file}: `{head}` changed from {old[head]} to {fns}")
                continue
            if not added:
                continue
            consts = [f for f in added if f.startswith("const ")]
            added = [f for f in added if not f.startswith("const ")]
            if consts:
                out.append(f"{file}: `{head}` publishes new constants ({', '.join(c[6:] for c in consts)}) that the translator does not dump")
            if not added:
                continue
            if "trait " in head.split(" for ")[0] and not head.startswith("impl"):
                out.append(f"{file}: `{head}` gains {', '.join(added)}")
            elif head.startswith("impl") and " for " in head:
                out.append(f"{file}: `{head}` now also defines {', '.join(added)} (overrides provided methods of the trait)")
            else:
                clash = [f for f in added if f in known_names]
                if clash:
                    out.append(f"{file}: `{head}` now defines {', '.join(clash)}, names of existing entry points elsewhere")
    return out


def current():
    res = {}
    for base, _, names in os.walk(os.path.join(REPO, "src")):
        for nme in names:
            if nme.endswith(".rs"):
                p = os.path.join(base, nme)
                res[os.path.relpath(p, REPO)] = fingerprint(p)
    return res


def drift():
    """files whose non-test code differs from the pins (changed, added or removed)"""
    try:
        pins = json.load(open(PINS))["files"]
    except (OSError, ValueError, KeyError):
        return None
    cur = current()
    return sorted(f for f in set(pins) | set(cur) if pins.get(f) != cur.get(f))


if __name__ == "__main__":
    if "--write" in sys.argv:
        import subprocess
        head = subprocess.run(["git", "-C", REPO, "rev-parse", "--short", "HEAD"], capture_output=True, text=True).stdout.strip()
        json.dump({"pinned_at": head, "files": current(), "api": api_surface()}, open(PINS, "w"), indent=1, sort_keys=True)
        print("pinned", len(current()), "files at", head)
    else:
        print(drift())
        print(global_state())
        print(surface_changes())
