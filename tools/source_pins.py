#!/usr/bin/env python3
"""Fingerprints of the crate's non-test source, per file.

The hand-written part of the Lean model was read off these files.  `./check` compares the current fingerprints with
the committed ones (tools/source_pins.json): a difference is NOT a violation (a rewrite may be harmless) — it only
means the model was last reviewed against different source, so the sampled part of the tie is explored at the
thorough depth before the property is reported as held.

  source_pins.py            print the files whose non-test code differs from the pins
  source_pins.py --write    re-pin to the current tree (done by hand, after reviewing the model against the change)
"""
import hashlib, json, os, re, sys

REPO = "/repo"
PINS = os.path.join(os.path.dirname(os.path.abspath(__file__)), "source_pins.json")


def strip(src):
    """remove comments (string- and char-literal aware); return the code text"""
    out, i, n = [], 0, len(src)
    while i < n:
        c = src[i]
        if src.startswith("//", i):
            j = src.find("\n", i)
            i = n if j < 0 else j
        elif src.startswith("/*", i):
            depth, i = 1, i + 2
            while i < n and depth:
                if src.startswith("/*", i):
                    depth, i = depth + 1, i + 2
                elif src.startswith("*/", i):
                    depth, i = depth - 1, i + 2
                else:
                    i += 1
            out.append(" ")
        elif c == '"' or (c == "r" and re.match(r'r#*"', src[i:i + 8]) and not (i and (src[i - 1].isalnum() or src[i - 1] == "_"))):
            if c == "r":
                m = re.match(r'r(#*)"', src[i:])
                end = '"' + m.group(1)
                j = src.find(end, i + len(m.group(0)))
                j = n if j < 0 else j + len(end)
            else:
                j = i + 1
                while j < n and src[j] != '"':
                    j += 2 if src[j] == "\\" else 1
                j += 1
            out.append(src[i:j])
            i = j
        elif c == "'":
            m = re.match(r"'(\\u\{[0-9a-fA-F_]+\}|\\x[0-9a-fA-F]{2}|\\.|[^\\'])'", src[i:])
            if m:
                out.append(m.group(0))
                i += len(m.group(0))
            else:
                out.append(c)
                i += 1
        else:
            out.append(c)
            i += 1
    return "".join(out)


def drop_test_modules(code):
    """remove `#[cfg(test)]` items (the following item up to its matching brace or semicolon)"""
    while True:
        m = re.search(r"#\[cfg\(test\)\]", code)
        if not m:
            return code
        i = m.end()
        depth = 0
        j = i
        while j < len(code):
            ch = code[j]
            if ch == '"':
                k = j + 1
                while k < len(code) and code[k] != '"':
                    k += 2 if code[k] == "\\" else 1
                j = k + 1
                continue
            if ch == "{":
                depth += 1
            elif ch == "}":
                depth -= 1
                if depth == 0:
                    j += 1
                    break
            elif ch == ";" and depth == 0:
                j += 1
                break
            j += 1
        code = code[:m.start()] + code[j:]


def fingerprint(path):
    code = drop_test_modules(strip(open(path, encoding="utf-8", errors="replace").read()))
    # attributes that only affect lints/docs do not matter; whitespace does not matter
    code = re.sub(r"#!?\[(doc|allow|warn|deny|must_use|deprecated|inline)[^\]]*\]", " ", code)
    toks = re.findall(r"[A-Za-z_][A-Za-z0-9_]*|\d[0-9A-Za-z_\.]*|\"(?:\\.|[^\"\\])*\"|'(?:\\.|[^'\\])+'|\S", code)
    return hashlib.sha256("\x1f".join(toks).encode()).hexdigest()


STATE_RE = re.compile(r"\bstatic\s+mut\b|\bunsafe\b|\bAtomic\w*|\b(?:Ref|Unsafe|Once|Sync)?Cell\b|\bOnceLock\b|\bLazyLock\b|\bLazy\b|"
                      r"\bMutex\b|\bRwLock\b|\bthread_local\b|\blazy_static\b|\bOnce\b")


def blank_strings(code):
    return re.sub(r'"(?:\\.|[^"\\])*"', '""', code)


def global_state():
    """lines of non-test code that introduce state carried between calls (or `unsafe`, with which anything goes):
    the model treats every function of the crate as a function of its arguments"""
    hits = []
    for base, _, names in os.walk(os.path.join(REPO, "src")):
        for nme in sorted(names):
            if not nme.endswith(".rs"):
                continue
            p = os.path.join(base, nme)
            src = open(p, encoding="utf-8", errors="replace").read()
            code = blank_strings(drop_test_modules(strip(src)))
            for m in STATE_RE.finditer(code):
                ln = code.count("\n", 0, m.start())
                line = code.split("\n")[ln].strip()
                hits.append(f"{os.path.relpath(p, REPO)}: {line[:160]}")
    return sorted(set(hits))


def current():
    res = {}
    for base, _, names in os.walk(os.path.join(REPO, "src")):
        for nme in names:
            if nme.endswith(".rs"):
                p = os.path.join(base, nme)
                res[os.path.relpath(p, REPO)] = fingerprint(p)
    return res


def drift():
    """files whose non-test code differs from the pins (changed, added or removed)"""
    try:
        pins = json.load(open(PINS))["files"]
    except (OSError, ValueError, KeyError):
        return None
    cur = current()
    return sorted(f for f in set(pins) | set(cur) if pins.get(f) != cur.get(f))


if __name__ == "__main__":
    if "--write" in sys.argv:
        import subprocess
        head = subprocess.run(["git", "-C", REPO, "rev-parse", "--short", "HEAD"], capture_output=True, text=True).stdout.strip()
        json.dump({"pinned_at": head, "files": current()}, open(PINS, "w"), indent=1, sort_keys=True)
        print("pinned", len(current()), "files at", head)
    else:
        print(drift())
        print(global_state())
