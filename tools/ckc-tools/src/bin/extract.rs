//! Translator, part 1: dump every constant, table and complete finite function graph of the
//! *compiled current tree* of ckc-rs to JSON.  `gen_lean.py` turns the dump into Lean source.
//!
//! Usage: extract <out.json>
#![allow(deprecated)]

use ckc_rs::cards::binary_card::{BinaryCard, BC64};
use ckc_rs::cards::five::Five;
use ckc_rs::cards::four::Four;
use ckc_rs::cards::seven::Seven;
use ckc_rs::cards::six::Six;
use ckc_rs::cards::two::Two;
use ckc_rs::deck::{Deck, DECK_SIZE, POKER_DECK};
use ckc_rs::hand_rank::{HandRank, HandRankClass, HandRankName, NO_HAND_RANK_VALUE};
use ckc_rs::verif_hooks::{FLUSHES, PRODUCTS, UNIQUE_5, VALUES};
use ckc_rs::{CKCNumber, CardNumber, CardRank, CardSuit, PokerCard};
use ckc_tools::{named_cards, par_ranges, threads, Json};
use strum::IntoEnumIterator;

fn kv(k: &str, v: String) -> (String, String) {
    (k.to_string(), v)
}

fn pairs<A: std::fmt::Display, B: std::fmt::Display>(v: &[(A, B)]) -> String {
    Json::arr(v.iter().map(|(a, b)| format!("[{a},{b}]")))
}

fn two_list(v: &[Two]) -> String {
    Json::arr(v.iter().map(|t| Json::nums(t.to_arr())))
}

fn chen2(w: u32) -> i64 {
    // Chen points are multiples of 0.5 by construction; record them doubled, and record
    // exactness separately (see "chen_exact").
    (w.get_chen_points() * 2.0) as i64
}

fn main() {
    let out = std::env::args().nth(1).expect("usage: extract <out.json>");
    let t0 = std::time::Instant::now();
    let mut f: Vec<(String, String)> = Vec::new();

    // ---- constants -------------------------------------------------------------------------
    let consts: Vec<(&str, u64)> = vec![
        ("RANK_FLAG_FILTER", CardNumber::RANK_FLAG_FILTER as u64),
        ("RANK_FLAG_SHIFT", CardNumber::RANK_FLAG_SHIFT as u64),
        ("RANK_PRIME_FILTER", CardNumber::RANK_PRIME_FILTER as u64),
        ("SUIT_FILTER", CardNumber::SUIT_FILTER as u64),
        ("SUIT_SHORT_MASK", CardNumber::SUIT_SHORT_MASK as u64),
        ("SUIT_SHIFT", CardNumber::SUIT_SHIFT as u64),
        ("PAIR", CardNumber::PAIR as u64),
        ("TRIPS", CardNumber::TRIPS as u64),
        ("QUADS", CardNumber::QUADS as u64),
        ("MULTIPLES_FILTER", CardNumber::MULTIPLES_FILTER as u64),
        ("BLANK", CardNumber::BLANK as u64),
        ("DECK_SIZE", DECK_SIZE as u64),
        ("DECK_LEN", Deck::len() as u64),
        ("FIVE_POSSIBLE_COMBINATIONS", Five::POSSIBLE_COMBINATIONS as u64),
        ("EVALUATE_POSSIBLE_COMBINATIONS", ckc_rs::evaluate::POSSIBLE_COMBINATIONS as u64),
        ("STRAIGHT_PADDING", Five::STRAIGHT_PADDING as u64),
        ("WHEEL_OR_BITS", Five::WHEEL_OR_BITS as u64),
        ("NO_HAND_RANK_VALUE", NO_HAND_RANK_VALUE as u64),
        ("BC_ALL", <BinaryCard as BC64>::ALL),
        ("BC_OVERFLOW", <BinaryCard as BC64>::OVERFLOW),
        ("BC_BLANK", <BinaryCard as BC64>::BLANK),
        ("NAME_INVALID", HandRankName::Invalid as u64),
        ("CLASS_INVALID", HandRankClass::Invalid as u64),
        ("RANK_BLANK", CardRank::BLANK as u64),
        ("SUIT_BLANK", CardSuit::BLANK as u64),
    ];
    f.push(kv(
        "consts",
        Json::obj(&consts.iter().map(|(k, v)| (k.to_string(), v.to_string())).collect::<Vec<_>>()),
    ));

    let named = named_cards();
    f.push(kv("card_names", Json::arr(named.iter().map(|(n, _, _)| Json::esc(n)))));
    f.push(kv("card_consts", Json::nums(named.iter().map(|(_, w, _)| *w))));
    f.push(kv("bc_consts", Json::nums(named.iter().map(|(_, _, b)| *b))));
    f.push(kv("deck", Json::nums(POKER_DECK.arr())));
    f.push(kv("bit_deck", Json::nums(<BinaryCard as BC64>::DECK)));
    let groups: [u64; 13] = [
        <BinaryCard as BC64>::ACES,
        <BinaryCard as BC64>::KINGS,
        <BinaryCard as BC64>::QUEENS,
        <BinaryCard as BC64>::JACKS,
        <BinaryCard as BC64>::TENS,
        <BinaryCard as BC64>::NINES,
        <BinaryCard as BC64>::EIGHTS,
        <BinaryCard as BC64>::SEVENS,
        <BinaryCard as BC64>::SIXES,
        <BinaryCard as BC64>::FIVES,
        <BinaryCard as BC64>::FOURS,
        <BinaryCard as BC64>::TREYS,
        <BinaryCard as BC64>::DEUCES,
    ];
    f.push(kv("rank_groups", Json::nums(groups)));

    // ---- slot tables and presets -------------------------------------------------------------
    f.push(kv("perms6", Json::arr(Six::FIVE_CARD_PERMUTATIONS.iter().map(|r| Json::nums(*r)))));
    f.push(kv("perms7", Json::arr(Seven::FIVE_CARD_PERMUTATIONS.iter().map(|r| Json::nums(*r)))));
    f.push(kv("omaha", Json::arr(Four::OMAHA_PERMUTATIONS.iter().map(|r| Json::nums(*r)))));
    f.push(kv(
        "presets",
        Json::obj(&[
            kv("AA", two_list(&Two::AA)),
            kv("AK", two_list(&Two::AK)),
            kv("AKs", two_list(&Two::AKs)),
            kv("AKo", two_list(&Two::AKo)),
            kv("AQs", two_list(&Two::AQs)),
            kv("AQo", two_list(&Two::AQo)),
        ]),
    ));

    // ---- the four lookup tables ----------------------------------------------------------------
    f.push(kv(
        "tables",
        Json::obj(&[
            kv("flushes", Json::nums(FLUSHES)),
            kv("unique5", Json::nums(UNIQUE_5)),
            kv("products", Json::nums(PRODUCTS)),
            kv("values", Json::nums(VALUES)),
        ]),
    ));

    // ---- sweeps over all 2^32 words ----------------------------------------------------------
    let n32: u64 = 1 << 32;
    let parts = threads() * 4;
    // filter: every word that is not mapped to blank, with its image
    let filter_pts: Vec<(u32, u32)> = par_ranges(n32, parts, |lo, hi| {
        let mut v = Vec::new();
        for w in lo..hi {
            let w = w as u32;
            let r = CardNumber::filter(w);
            if r != 0 {
                v.push((w, r));
            }
            // the trait default and the inherent function must be the same function
            let r2 = <CKCNumber as PokerCard>::filter(w);
            if r2 != r {
                v.push((w, u32::MAX));
            }
        }
        v
    })
    .concat();
    f.push(kv("filter_points", pairs(&filter_pts)));
    let ckc_pts: Vec<(u32, u64)> = par_ranges(n32, parts, |lo, hi| {
        let mut v = Vec::new();
        for w in lo..hi {
            let b = <BinaryCard as BC64>::from_ckc(w as u32);
            if b != 0 {
                v.push((w as u32, b));
            }
        }
        v
    })
    .concat();
    f.push(kv("from_ckc_points", pairs(&ckc_pts)));
    // is_blank: the words for which it is true
    let blank_pts: Vec<u32> = par_ranges(n32, parts, |lo, hi| {
        let mut v = Vec::new();
        for w in lo..hi {
            if (w as u32).is_blank() {
                v.push(w as u32);
            }
        }
        v
    })
    .concat();
    f.push(kv("is_blank_points", Json::nums(blank_pts)));

    // Accessors: they are documented as functions of the rank-flag field (bits 16..28) or of the
    // suit-flag field (bits 12..15).  Record every word at which that factorisation FAILS (the
    // sparse graph of "f(w) != f(w & mask)"), and the graph on the field representatives.
    let rff = CardNumber::RANK_FLAG_FILTER;
    let sf = CardNumber::SUIT_FILTER;
    let viol: Vec<(u32, u32)> = par_ranges(n32, parts, |lo, hi| {
        let mut v: Vec<(u32, u32)> = Vec::new();
        for w in lo..hi {
            let w = w as u32;
            let r = w & rff;
            let s = w & sf;
            let mut bad = 0u32;
            if w.get_card_rank() != r.get_card_rank() { bad |= 1; }
            if w.get_rank_char() != r.get_rank_char() { bad |= 2; }
            if w.get_chen_points().to_bits() != r.get_chen_points().to_bits() { bad |= 4; }
            if w.get_card_suit() != s.get_card_suit() { bad |= 8; }
            if w.get_suit_char() != s.get_suit_char() { bad |= 16; }
            if w.get_suit_letter() != s.get_suit_letter() { bad |= 32; }
            if w.next_suit() != s.next_suit() { bad |= 64; }
            // the plain field readers against the documented mask/shift formulas
            if w.get_rank_flag() != w & rff { bad |= 128; }
            if w.get_rank_bit() != (w & rff) >> CardNumber::RANK_FLAG_SHIFT { bad |= 256; }
            if w.get_rank_prime() != w & CardNumber::RANK_PRIME_FILTER { bad |= 512; }
            if w.get_suit_flag() != w & sf { bad |= 1024; }
            if w.get_suit_bit() != (w & sf) >> CardNumber::SUIT_SHIFT { bad |= 2048; }
            if w.as_u32() != w { bad |= 4096; }
            if bad != 0 && v.len() < 64 {
                v.push((w, bad));
            }
        }
        v
    })
    .concat();
    f.push(kv("accessor_factorisation_violations", pairs(&viol)));

    // rank-field graph: the 8192 values of bits 16..28 (the mask may have changed: enumerate the
    // sub-masks of RANK_FLAG_FILTER >> 16 within 13 bits and also record the mask itself)
    let mut rank_of = Vec::new();
    let mut rank_char = Vec::new();
    let mut chen = Vec::new();
    let mut chen_exact = true;
    for m in 0u32..8192 {
        let w = m << 16;
        rank_of.push(w.get_card_rank() as u8);
        rank_char.push(w.get_rank_char() as u32);
        let p = w.get_chen_points();
        if (p * 2.0).fract() != 0.0 || !(0.0..=64.0).contains(&p) {
            chen_exact = false;
        }
        chen.push(chen2(w));
    }
    f.push(kv("rank_field_rank", Json::nums(rank_of)));
    f.push(kv("rank_field_char", Json::nums(rank_char)));
    f.push(kv("rank_field_chen2", Json::nums(chen)));
    f.push(kv("chen_exact", chen_exact.to_string()));
    let mut suit_of = Vec::new();
    let mut suit_char = Vec::new();
    let mut suit_letter = Vec::new();
    let mut next_suit = Vec::new();
    for s in 0u32..16 {
        let w = s << 12;
        suit_of.push(w.get_card_suit() as u8);
        suit_char.push(w.get_suit_char() as u32);
        suit_letter.push(w.get_suit_letter() as u32);
        next_suit.push(w.next_suit() as u8);
    }
    f.push(kv("suit_field_suit", Json::nums(suit_of)));
    f.push(kv("suit_field_char", Json::nums(suit_char)));
    f.push(kv("suit_field_letter", Json::nums(suit_letter)));
    f.push(kv("suit_field_next", Json::nums(next_suit)));

    // ---- enums ---------------------------------------------------------------------------------
    f.push(kv("card_ranks", Json::arr(CardRank::iter().map(|r| format!("[{},{}]", r as u8, Json::esc(&format!("{r:?}")))))));
    f.push(kv("card_suits", Json::arr(CardSuit::iter().map(|s| format!("[{},{}]", s as u8, Json::esc(&format!("{s:?}")))))));
    // create on every enumeration pair, plus what the pair's own methods say
    let mut create = Vec::new();
    for r in CardRank::iter() {
        for s in CardSuit::iter() {
            create.push(format!("[{},{},{}]", r as u8, s as u8, <CKCNumber as PokerCard>::create(r, s)));
        }
    }
    f.push(kv("create", Json::arr(create)));
    f.push(kv(
        "suit_signature",
        Json::arr(CardSuit::iter().map(|s| format!("[{},{}]", s as u8, s.binary_signature()))),
    ));

    // from_binary_card on 0 and on every single bit
    let mut bcw = vec![format!("[{},{}]", 0u64, <CKCNumber as PokerCard>::from_binary_card(0))];
    for i in 0..64 {
        bcw.push(format!("[{},{}]", 1u64 << i, <CKCNumber as PokerCard>::from_binary_card(1u64 << i)));
    }
    f.push(kv("from_bc_points", Json::arr(bcw)));

    // ---- hand rank graphs over all 65,536 values ---------------------------------------------------
    let names: Vec<(u64, String)> = HandRankName::iter().map(|n| (n as u64, format!("{n:?}"))).collect();
    let classes: Vec<(u64, String)> = HandRankClass::iter().map(|c| (c as u64, format!("{c:?}"))).collect();
    f.push(kv("name_variants", Json::arr(names.iter().map(|(d, n)| format!("[{d},{}]", Json::esc(n))))));
    f.push(kv("class_variants", Json::arr(classes.iter().map(|(d, n)| format!("[{d},{}]", Json::esc(n))))));
    let mut name_runs: Vec<(u32, u64)> = Vec::new();
    let mut class_runs: Vec<(u32, u64)> = Vec::new();
    let mut from_ok = true;
    for v in 0u32..65536 {
        let hrv = v as u16;
        let n = HandRank::determine_name(&hrv) as u64;
        let c = HandRank::determine_class(&hrv) as u64;
        if name_runs.last().map(|x| x.1) != Some(n) {
            name_runs.push((v, n));
        }
        if class_runs.last().map(|x| x.1) != Some(c) {
            class_runs.push((v, c));
        }
        let hr = HandRank::from(hrv);
        if hr.value != hrv || hr.name as u64 != n || hr.class as u64 != c {
            from_ok = false;
        }
    }
    f.push(kv("name_runs", pairs(&name_runs)));
    f.push(kv("class_runs", pairs(&class_runs)));
    f.push(kv("from_is_determine", from_ok.to_string()));
    // derived orders, every pair: 0 = Less, 1 = Equal, 2 = Greater (row-major, row = left operand)
    let nv: Vec<HandRankName> = HandRankName::iter().collect();
    let cv: Vec<HandRankClass> = HandRankClass::iter().collect();
    let code = |o: std::cmp::Ordering| match o {
        std::cmp::Ordering::Less => 0u8,
        std::cmp::Ordering::Equal => 1,
        std::cmp::Ordering::Greater => 2,
    };
    let mut nm = Vec::new();
    for a in &nv {
        for b in &nv {
            let c = code(a.cmp(b));
            // PartialOrd / PartialEq must agree with Ord (4 = disagreement marker)
            let ok = a.partial_cmp(b) == Some(a.cmp(b)) && ((a == b) == (c == 1));
            nm.push(if ok { c } else { 4 });
        }
    }
    let mut cm = Vec::new();
    for a in &cv {
        for b in &cv {
            let c = code(a.cmp(b));
            let ok = a.partial_cmp(b) == Some(a.cmp(b)) && ((a == b) == (c == 1));
            cm.push(if ok { c } else { 4 });
        }
    }
    f.push(kv("name_ord", Json::nums(nm)));
    f.push(kv("class_ord", Json::nums(cm)));

    // ---- character graphs over every Unicode scalar value -------------------------------------------
    let mut rank_chars = Vec::new();
    let mut suit_chars = Vec::new();
    let mut ws = Vec::new();
    for cp in 0u32..=0x10FFFF {
        if let Some(c) = char::from_u32(cp) {
            let r = CardRank::from_char(c);
            if r != CardRank::BLANK {
                rank_chars.push((cp, r as u8));
            }
            let s = CardSuit::from_char(c);
            if s != CardSuit::BLANK {
                suit_chars.push((cp, s as u8));
            }
            if c.is_whitespace() {
                ws.push(cp);
            }
        }
    }
    f.push(kv("rank_chars", pairs(&rank_chars)));
    f.push(kv("suit_chars", pairs(&suit_chars)));
    f.push(kv("whitespace", Json::nums(ws)));

    f.push(kv("extract_wall_ms", t0.elapsed().as_millis().to_string()));
    std::fs::write(&out, Json::obj(&f)).expect("write dump");
    eprintln!("extract: wrote {out} in {:?}", t0.elapsed());
}
