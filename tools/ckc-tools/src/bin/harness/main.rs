//! Correspondence and implementation-vs-property harness.
//!
//!   harness cases <prop> <tier> <seed> <dir>   write <dir>/cases.txt (requests for the Lean driver),
//!                                              <dir>/impl.txt (the crate's answers, same line order)
//!                                              and <dir>/cases.json (distribution)
//!   harness sweep <prop> <tier> <seed> <dir>   run the implementation against the property's own
//!                                              right-hand side (no model); write <dir>/sweep.json
//!   harness answer                             read requests on stdin, print the crate's answers
//!
//! Every call into the crate goes through `catch_unwind`; a panic is the answer `panic`.
#![allow(deprecated)]
#![allow(clippy::needless_range_loop)]

use ckc_tools::*;
use std::fmt::Write as _;
use std::io::{BufRead, BufWriter, Write};
use std::panic::{catch_unwind, AssertUnwindSafe};

mod props;

/// message and location of the most recent panic (set by the panic hook; used when a whole sweep aborts)
pub static LAST_PANIC: std::sync::Mutex<String> = std::sync::Mutex::new(String::new());

pub struct Cases {
    pub cases: BufWriter<std::fs::File>,
    pub imp: BufWriter<std::fs::File>,
    pub n: u64,
    pub dist: std::collections::BTreeMap<String, u64>,
    pub samples: Vec<String>,
}
impl Cases {
    pub fn emit(&mut self, kind: &str, req: &str) {
        let ans = props::answer(req);
        writeln!(self.cases, "{req}").unwrap();
        writeln!(self.imp, "{ans}").unwrap();
        self.n += 1;
        let c = self.dist.entry(kind.to_string()).or_insert(0);
        *c += 1;
        if *c <= 2 && self.samples.len() < 24 {
            let short = |x: &str| -> String {
                if x.len() > 160 { format!("{} ... ({} chars)", &x[..x.char_indices().nth(160).map(|p| p.0).unwrap_or(x.len())], x.len()) } else { x.to_string() }
            };
            self.samples.push(format!("{} => {}", short(req), short(&ans)));
        }
    }
}

/// Result of an implementation-vs-property sweep.
#[derive(Default)]
pub struct Sweep {
    pub evaluations: u64,
    pub nontrivial: u64,
    pub exhaustive: bool,
    pub rule: String,
    pub failures: Vec<String>, // JSON objects
    pub failure_count: u64,
    pub samples: Vec<String>,  // JSON values
    pub dist: Vec<(String, u64)>,
    pub notes: Vec<String>,
}
impl Sweep {
    pub fn fail(&mut self, what: &str, input: &str, expected: &str, actual: &str) {
        self.failure_count += 1;
        if self.failures.len() < 16 {
            self.failures.push(Json::obj(&[
                ("what".into(), Json::esc(what)),
                ("input".into(), Json::esc(input)),
                ("expected".into(), Json::esc(expected)),
                ("actual".into(), Json::esc(actual)),
            ]));
        }
    }
    pub fn sample(&mut self, s: String) {
        if self.samples.len() < 8 {
            self.samples.push(Json::esc(&s));
        }
    }
    pub fn merge(&mut self, o: Sweep) {
        self.evaluations += o.evaluations;
        self.nontrivial += o.nontrivial;
        self.failure_count += o.failure_count;
        for f in o.failures {
            if self.failures.len() < 16 {
                self.failures.push(f);
            }
        }
        for s in o.samples {
            if self.samples.len() < 8 {
                self.samples.push(s);
            }
        }
        for (k, v) in o.dist {
            if let Some(e) = self.dist.iter_mut().find(|e| e.0 == k) {
                e.1 += v;
            } else {
                self.dist.push((k, v));
            }
        }
        self.notes.extend(o.notes);
    }
    pub fn count(&mut self, k: &str, n: u64) {
        if let Some(e) = self.dist.iter_mut().find(|e| e.0 == k) {
            e.1 += n;
        } else {
            self.dist.push((k.to_string(), n));
        }
    }
    pub fn to_json(&self) -> String {
        Json::obj(&[
            ("evaluations".into(), self.evaluations.to_string()),
            ("distinct_nontrivial".into(), self.nontrivial.to_string()),
            ("exhaustive".into(), self.exhaustive.to_string()),
            ("rule".into(), Json::esc(&self.rule)),
            ("failure_count".into(), self.failure_count.to_string()),
            ("failures".into(), Json::arr(self.failures.iter().cloned())),
            ("samples".into(), Json::arr(self.samples.iter().cloned())),
            (
                "distribution".into(),
                Json::obj(&self.dist.iter().map(|(k, v)| (k.clone(), v.to_string())).collect::<Vec<_>>()),
            ),
            ("notes".into(), Json::arr(self.notes.iter().map(|n| Json::esc(n)))),
        ])
    }
}

pub fn guarded<T, F: FnOnce() -> T>(f: F) -> Option<T> {
    catch_unwind(AssertUnwindSafe(f)).ok()
}

pub fn fmt_opt<T: std::fmt::Display>(x: Option<T>) -> String {
    match x {
        Some(v) => v.to_string(),
        None => "panic".to_string(),
    }
}

pub fn join<T: std::fmt::Display, I: IntoIterator<Item = T>>(it: I) -> String {
    let mut s = String::new();
    for (i, x) in it.into_iter().enumerate() {
        if i > 0 {
            s.push(' ');
        }
        write!(s, "{x}").unwrap();
    }
    s
}

/// A logger that accepts every level: `log::debug!(..)` and friends evaluate their arguments only when a
/// logger is installed at that level, so code hidden in a log argument runs here as it would in an
/// application that enables logging.
struct AllLevels;
impl log::Log for AllLevels {
    fn enabled(&self, _: &log::Metadata) -> bool {
        true
    }
    fn log(&self, record: &log::Record) {
        let _ = format!("{}", record.args());
    }
    fn flush(&self) {}
}
static LOGGER: AllLevels = AllLevels;

fn main() {
    let _ = log::set_logger(&LOGGER);
    log::set_max_level(log::LevelFilter::Trace);
    std::panic::set_hook(Box::new(|info| {
        if let Ok(mut m) = LAST_PANIC.try_lock() {
            *m = format!("{info}").chars().take(300).collect();
        }
    }));
    let args: Vec<String> = std::env::args().collect();
    let mode = args.get(1).map(String::as_str).unwrap_or("");
    match mode {
        "answer" => {
            let stdin = std::io::stdin();
            let out = std::io::stdout();
            let mut out = BufWriter::new(out.lock());
            for line in stdin.lock().lines() {
                let line = line.unwrap();
                writeln!(out, "{}", props::answer(line.trim())).unwrap();
            }
        }
        "cases" | "sweep" => {
            let prop = &args[2];
            let tier = &args[3];
            let seed: u64 = args[4].parse().expect("seed");
            let dir = &args[5];
            std::fs::create_dir_all(dir).unwrap();
            let thorough = tier == "thorough";
            if mode == "cases" {
                let mut c = Cases {
                    cases: BufWriter::new(std::fs::File::create(format!("{dir}/cases.txt")).unwrap()),
                    imp: BufWriter::new(std::fs::File::create(format!("{dir}/impl.txt")).unwrap()),
                    n: 0,
                    dist: Default::default(),
                    samples: Vec::new(),
                };
                props::cases(prop, thorough, seed, &mut c);
                c.cases.flush().unwrap();
                c.imp.flush().unwrap();
                let j = Json::obj(&[
                    ("cases".into(), c.n.to_string()),
                    (
                        "distribution".into(),
                        Json::obj(&c.dist.iter().map(|(k, v)| (k.clone(), v.to_string())).collect::<Vec<_>>()),
                    ),
                    ("samples".into(), Json::arr(c.samples.iter().map(|s| Json::esc(s)))),
                ]);
                std::fs::write(format!("{dir}/cases.json"), j).unwrap();
                std::process::exit(0);
            } else {
                let s = if tier == "history" { props::history(prop, seed) } else { props::sweep(prop, thorough, seed) };
                std::fs::write(format!("{dir}/sweep.json"), s.to_json()).unwrap();
                // a helper thread may still be stuck in a non-terminating loop: leave without joining it
                std::process::exit(0);
            }
        }
        _ => {
            eprintln!("usage: harness cases|sweep <prop> <tier> <seed> <dir> | harness answer");
            std::process::exit(2);
        }
    }
}
