//! Per-property request answering, case generation and implementation-vs-property sweeps.
use crate::{fmt_opt, guarded, join, Cases, Sweep};
use ckc_rs::cards::binary_card::{BinaryCard, BC64};
use ckc_rs::cards::five::Five;
use ckc_rs::cards::four::Four;
use ckc_rs::cards::seven::Seven;
use ckc_rs::cards::six::Six;
use ckc_rs::cards::three::Three;
use ckc_rs::cards::two::Two;
use ckc_rs::cards::{HandRanker, HandValidator, Permutator};
use ckc_rs::deck::Deck;
use ckc_rs::hand_rank::HandRank;
use ckc_rs::{CKCNumber, CardNumber, CardRank, CardSuit, HandError, PokerCard, Shifty};
use ckc_tools::*;
use strum::IntoEnumIterator;

fn rank_of_disc(d: u64) -> Option<CardRank> {
    CardRank::iter().find(|r| *r as u64 == d)
}
fn suit_of_disc(d: u64) -> Option<CardSuit> {
    CardSuit::iter().find(|s| *s as u64 == d)
}

fn chen2_exact(p: f32) -> String {
    let d = p * 2.0;
    if d.fract() == 0.0 && d.abs() < 1000.0 { format!("{}", d as i64) } else { format!("inexact({p})") }
}


/// A hand container of any size, dispatching to the crate's six types.
#[derive(Clone, Copy)]
pub enum H {
    T2(Two),
    T3(Three),
    T4(Four),
    T5(Five),
    T6(Six),
    T7(Seven),
}
macro_rules! each {
    ($self:expr, $h:ident => $e:expr) => {
        match $self {
            H::T2($h) => $e,
            H::T3($h) => $e,
            H::T4($h) => $e,
            H::T5($h) => $e,
            H::T6($h) => $e,
            H::T7($h) => $e,
        }
    };
}
impl H {
    pub fn mk(ws: &[u32]) -> Option<H> {
        Some(match ws.len() {
            2 => H::T2(Two::from([ws[0], ws[1]])),
            3 => H::T3(Three::from([ws[0], ws[1], ws[2]])),
            4 => H::T4(Four::from([ws[0], ws[1], ws[2], ws[3]])),
            5 => H::T5(Five::from([ws[0], ws[1], ws[2], ws[3], ws[4]])),
            6 => H::T6(Six::from([ws[0], ws[1], ws[2], ws[3], ws[4], ws[5]])),
            7 => H::T7(Seven::from([ws[0], ws[1], ws[2], ws[3], ws[4], ws[5], ws[6]])),
            _ => return None,
        })
    }
    pub fn vec(&self) -> Vec<u32> {
        each!(self, h => h.to_arr().to_vec())
    }
    pub fn are_unique(&self) -> bool {
        each!(self, h => h.are_unique())
    }
    pub fn contain_blank(&self) -> bool {
        each!(self, h => h.contain_blank())
    }
    pub fn is_corrupt(&self) -> bool {
        each!(self, h => h.is_corrupt())
    }
    pub fn is_valid(&self) -> bool {
        each!(self, h => h.is_valid())
    }
    pub fn sorted(&self) -> Vec<u32> {
        each!(self, h => h.sort().to_arr().to_vec())
    }
    pub fn sorted_in_place(&self) -> Vec<u32> {
        match *self {
            H::T2(mut h) => { h.sort_in_place(); h.to_arr().to_vec() }
            H::T3(mut h) => { h.sort_in_place(); h.to_arr().to_vec() }
            H::T4(mut h) => { h.sort_in_place(); h.to_arr().to_vec() }
            H::T5(mut h) => { h.sort_in_place(); h.to_arr().to_vec() }
            H::T6(mut h) => { h.sort_in_place(); h.to_arr().to_vec() }
            H::T7(mut h) => { h.sort_in_place(); h.to_arr().to_vec() }
        }
    }
    pub fn shifted(&self) -> Vec<u32> {
        each!(self, h => h.shift_suit().to_arr().to_vec())
    }
    pub fn iter_vec(&self) -> Vec<u32> {
        each!(self, h => h.iter().copied().collect())
    }
    pub fn bc(&self) -> u64 {
        match *self {
            H::T2(h) => <BinaryCard as BC64>::from_two(h),
            H::T3(h) => <BinaryCard as BC64>::from_three(h),
            H::T4(h) => <BinaryCard as BC64>::from_four(h),
            H::T5(h) => <BinaryCard as BC64>::from_five(h),
            H::T6(h) => <BinaryCard as BC64>::from_six(h),
            H::T7(h) => <BinaryCard as BC64>::from_seven(h),
        }
    }
    /// slot 0 read through the trait, fully qualified (an inherent method of the same name would shadow
    /// the trait method in method-call syntax)
    pub fn first_via_trait(&self) -> u32 {
        match *self {
            H::T2(h) => <Two as HandValidator>::first(&h),
            H::T3(h) => <Three as HandValidator>::first(&h),
            H::T4(h) => <Four as HandValidator>::first(&h),
            H::T5(h) => <Five as HandValidator>::first(&h),
            H::T6(h) => <Six as HandValidator>::first(&h),
            H::T7(h) => <Seven as HandValidator>::first(&h),
        }
    }
    /// generic code sees only the trait
    pub fn first_generic(&self) -> u32 {
        fn f<V: HandValidator>(v: &V) -> u32 { v.first() }
        each!(self, h => f(h))
    }
    /// named accessors first(), second(), ...
    pub fn named(&self) -> Vec<u32> {
        match *self {
            H::T2(h) => vec![h.first(), h.second()],
            H::T3(h) => vec![h.first(), h.second(), h.third()],
            H::T4(h) => vec![h.first(), h.second(), h.third(), h.forth()],
            H::T5(h) => vec![h.first(), h.second(), h.third(), h.forth(), h.fifth()],
            H::T6(h) => vec![h.first(), h.second(), h.third(), h.forth(), h.fifth(), h.sixth()],
            H::T7(h) => vec![h.first(), h.second(), h.third(), h.forth(), h.fifth(), h.sixth(), h.seventh()],
        }
    }
    /// the setter whose NAME is the (k+1)-th ordinal
    pub fn set_named(&mut self, k: u64, x: u32) -> bool {
        macro_rules! setters {
            ($h:ident, $($i:literal => $m:ident),*) => { match k { $( $i => { $h.$m(x); true } )* _ => false } };
        }
        match self {
            H::T2(h) => setters!(h, 0 => set_first, 1 => set_second),
            H::T3(h) => setters!(h, 0 => set_first, 1 => set_second, 2 => set_third),
            H::T4(h) => setters!(h, 0 => set_first, 1 => set_second, 2 => set_third, 3 => set_forth),
            H::T5(h) => setters!(h, 0 => set_first, 1 => set_second, 2 => set_third, 3 => set_forth, 4 => set_fifth),
            H::T6(h) => setters!(h, 0 => set_first, 1 => set_second, 2 => set_third, 3 => set_forth, 4 => set_fifth, 5 => set_sixth),
            H::T7(h) => setters!(h, 0 => set_first, 1 => set_second, 2 => set_third, 3 => set_forth, 4 => set_fifth, 5 => set_sixth, 6 => set_seventh),
        }
    }
}

fn b(x: bool) -> String {
    (x as u8).to_string()
}
fn rank_str(r: HandRank) -> String {
    format!("{} {} {}", r.value, r.name as u64, r.class as u64)
}
fn ord_code(o: std::cmp::Ordering) -> u8 {
    match o {
        std::cmp::Ordering::Less => 0,
        std::cmp::Ordering::Equal => 1,
        std::cmp::Ordering::Greater => 2,
    }
}
fn u32s(args: &[u64]) -> Option<Vec<u32>> {
    args.iter().map(|x| u32::try_from(*x).ok()).collect()
}
fn text_of(cps: &[u64]) -> Option<String> {
    cps.iter().map(|c| u32::try_from(*c).ok().and_then(char::from_u32)).collect()
}
fn leak(s: String) -> &'static str {
    Box::leak(s.into_boxed_str())
}
fn value_hand<R: HandRanker>(h: &R) -> String {
    fmt_opt(guarded(|| {
        let (v, f) = h.hand_rank_value_and_hand();
        format!("{v} {}", join(f.to_arr()))
    }))
}

/// `TryFrom<&'static str>` of the container of size n, plus (n = 5) `parse::five_from_index`
fn parse_hand(n: u64, text: &str) -> String {
    let st: &'static str = leak(text.to_string());
    fn show<const N: usize>(r: Result<[u32; N], HandError>) -> String {
        match r {
            Ok(a) => join(a),
            Err(HandError::InvalidIndex) => "none".into(),
            Err(e) => format!("err({e:?})"),
        }
    }
    match n {
        2 => show(Two::try_from(st).map(|h| h.to_arr())),
        3 => show(Three::try_from(st).map(|h| h.to_arr())),
        4 => show(Four::try_from(st).map(|h| h.to_arr())),
        5 => {
            let a = show(Five::try_from(st).map(|h| h.to_arr()));
            let b = match ckc_rs::parse::five_from_index(text) {
                Some(a) => join(a),
                None => "none".into(),
            };
            if a == b { a } else { format!("Five::try_from={a};five_from_index={b}") }
        }
        6 => show(Six::try_from(st).map(|h| h.to_arr())),
        7 => show(Seven::try_from(st).map(|h| h.to_arr())),
        _ => "bad-request".into(),
    }
}

/// The crate's answer to one driver request; a panic anywhere inside the crate is the answer `panic`.
pub fn answer(req: &str) -> String {
    guarded(|| answer_inner(req)).unwrap_or_else(|| "panic".to_string())
}

fn answer_inner(req: &str) -> String {
    let mut it = req.split_whitespace();
    let cmd = match it.next() {
        Some(c) => c,
        None => return "bad-request".into(),
    };
    let args: Option<Vec<u64>> = it.map(|t| t.parse::<u64>().ok()).collect();
    let args = match args {
        Some(a) => a,
        None => return "bad-request".into(),
    };
    match (cmd, args.as_slice()) {
        ("acc", [w]) if *w < (1 << 32) => {
            let w = *w as u32;
            fmt_opt(guarded(|| {
                join([
                    (w.get_card_rank() as u8).to_string(),
                    (w.get_card_suit() as u8).to_string(),
                    w.get_rank_prime().to_string(),
                    w.get_rank_bit().to_string(),
                    w.get_rank_flag().to_string(),
                    w.get_suit_bit().to_string(),
                    w.get_suit_flag().to_string(),
                    (w.get_rank_char() as u32).to_string(),
                    (w.get_suit_char() as u32).to_string(),
                    (w.get_suit_letter() as u32).to_string(),
                    chen2_exact(w.get_chen_points()),
                    (w.next_suit() as u8).to_string(),
                    (w.is_blank() as u8).to_string(),
                    CardNumber::filter(w).to_string(),
                    w.shift_suit().to_string(),
                    w.flag_as_pair().to_string(),
                    w.flag_as_trips().to_string(),
                    w.flag_as_quads().to_string(),
                    w.strip_multiples_flags().to_string(),
                    <BinaryCard as BC64>::from_ckc(w).to_string(),
                ])
            }))
        }
        ("create", [r, s]) => match (rank_of_disc(*r), suit_of_disc(*s)) {
            (Some(r), Some(s)) => fmt_opt(guarded(|| <CKCNumber as PokerCard>::create(r, s))),
            _ => "bad-request".into(),
        },
        ("deck", [i]) => fmt_opt(guarded(|| Deck::get(*i as usize))),
        ("frombc", [x]) => fmt_opt(guarded(|| <CKCNumber as PokerCard>::from_binary_card(*x))),
        ("find", [k]) => fmt_opt(guarded(|| Five::find_in_products(*k as usize))),
        ("enum5", [a, p]) if *a < 52 && *p < 120 => enum5(*a as usize, *p as usize),
        ("enum5b", [a]) if *a < 53 => enum5b(*a as usize),
        ("enum6", [a]) if *a < 52 => enum6(*a as usize),
        ("ev5", ws) if ws.len() == 5 => {
            let Some(ws) = u32s(ws) else { return "bad-request".into() };
            let arr = [ws[0], ws[1], ws[2], ws[3], ws[4]];
            let h = Five::from(arr);
            join([
                value_hand(&h),
                fmt_opt(guarded(|| h.hand_rank_value())),
                fmt_opt(guarded(|| h.hand_rank_value_validated())),
                fmt_opt(guarded(|| ckc_rs::evaluate::five_cards(arr))),
                fmt_opt(guarded(|| join([
                    b(h.is_flush()),
                    b(h.is_straight()),
                    b(h.is_straight_flush()),
                    b(h.is_wheel()),
                    b(ckc_rs::evaluate::is_flush(arr)),
                    ckc_rs::evaluate::or_rank_bits(arr).to_string(),
                    h.and_bits().to_string(),
                    h.or_bits().to_string(),
                    h.or_rank_bits().to_string(),
                    h.multiply_primes().to_string(),
                ]))),
                fmt_opt(guarded(|| rank_str(h.hand_rank()))),
                fmt_opt(guarded(|| rank_str(h.hand_rank_validated()))),
            ])
        }
        ("ev6", ws) if ws.len() == 6 => {
            let Some(ws) = u32s(ws) else { return "bad-request".into() };
            let h = Six::from([ws[0], ws[1], ws[2], ws[3], ws[4], ws[5]]);
            join([
                value_hand(&h),
                fmt_opt(guarded(|| h.hand_rank_value())),
                fmt_opt(guarded(|| h.hand_rank_value_validated())),
                fmt_opt(guarded(|| rank_str(h.hand_rank()))),
            ])
        }
        ("ev7", ws) if ws.len() == 7 => {
            let Some(ws) = u32s(ws) else { return "bad-request".into() };
            let h = Seven::from([ws[0], ws[1], ws[2], ws[3], ws[4], ws[5], ws[6]]);
            join([
                value_hand(&h),
                fmt_opt(guarded(|| h.hand_rank_value())),
                fmt_opt(guarded(|| h.hand_rank_value_validated())),
                fmt_opt(guarded(|| rank_str(h.hand_rank()))),
            ])
        }
        ("evh", ws) if (5..=7).contains(&ws.len()) => {
            let Some(w) = u32s(ws) else { return "bad-request".into() };
            match H::mk(&w).unwrap() {
                H::T5(f) => value_hand(&f),
                H::T6(f) => value_hand(&f),
                H::T7(f) => value_hand(&f),
                _ => unreachable!(),
            }
        }
        ("ckc", [w]) if *w < (1 << 32) => <BinaryCard as BC64>::from_ckc(*w as u32).to_string(),
        ("evv", ws) if (5..=7).contains(&ws.len()) => {
            let Some(w) = u32s(ws) else { return "bad-request".into() };
            let h = H::mk(&w).unwrap();
            let valid = guarded(|| h.is_valid());
            let (vv, fc, plain, hrv) = match h {
                H::T5(f) => (guarded(|| f.hand_rank_value_validated()), Some(guarded(|| ckc_rs::evaluate::five_cards(f.to_arr()))), guarded(|| f.hand_rank_value()), guarded(|| rank_str(f.hand_rank_validated()))),
                H::T6(f) => (guarded(|| f.hand_rank_value_validated()), None, guarded(|| f.hand_rank_value()), guarded(|| rank_str(f.hand_rank_validated()))),
                H::T7(f) => (guarded(|| f.hand_rank_value_validated()), None, guarded(|| f.hand_rank_value()), guarded(|| rank_str(f.hand_rank_validated()))),
                _ => unreachable!(),
            };
            join([
                fmt_opt(valid.map(|x| x as u8)),
                fmt_opt(vv),
                fmt_opt(hrv),
                match fc { Some(x) => fmt_opt(x), None => "-".into() },
                if valid == Some(true) { fmt_opt(plain) } else { "-".into() },
            ])
        }
        ("evt", ws) if (5..=7).contains(&ws.len()) => {
            let Some(w) = u32s(ws) else { return "bad-request".into() };
            fn view<R: HandRanker>(h: &R, fc: Option<Option<u16>>) -> String {
                join([
                    fmt_opt(guarded(|| h.hand_rank_value_and_hand().0)),
                    fmt_opt(guarded(|| h.hand_rank_value())),
                    fmt_opt(guarded(|| h.hand_rank_value_validated())),
                    match fc { Some(x) => fmt_opt(x), None => "-".into() },
                    fmt_opt(guarded(|| rank_str(h.hand_rank()))),
                    fmt_opt(guarded(|| rank_str(h.hand_rank_validated()))),
                ])
            }
            match H::mk(&w).unwrap() {
                H::T5(f) => view(&f, Some(guarded(|| ckc_rs::evaluate::five_cards(f.to_arr())))),
                H::T6(f) => view(&f, None),
                H::T7(f) => view(&f, None),
                _ => unreachable!(),
            }
        }
        ("val", ws) => match u32s(ws).and_then(|w| H::mk(&w)) {
            Some(h) => fmt_opt(guarded(|| join([b(h.are_unique()), b(h.contain_blank()), b(h.is_corrupt()), b(h.is_valid())]))),
            None => "bad-request".into(),
        },
        ("sort", ws) => match u32s(ws).and_then(|w| H::mk(&w)) {
            Some(h) => fmt_opt(guarded(|| format!("{} {}", join(h.sorted()), join(h.sorted_in_place())))),
            None => "bad-request".into(),
        },
        ("shift", ws) => match u32s(ws).and_then(|w| H::mk(&w)) {
            Some(h) => fmt_opt(guarded(|| join(h.shifted()))),
            None => "bad-request".into(),
        },
        ("rank", [v]) if *v < 65536 => {
            let r = HandRank::from(*v as u16);
            format!("{} {} {}", rank_str(r), b(r.is_invalid()), b(r.is_a_valid_hand_rank()))
        }
        ("rankdefault", []) => rank_str(HandRank::default()),
        ("cmp", [x, y]) if *x < 65536 && *y < 65536 => {
            let p = HandRank::from(*x as u16);
            let q = HandRank::from(*y as u16);
            join([
                ord_code(p.cmp(&q)).to_string(),
                p.partial_cmp(&q).map(ord_code).map(|c| c.to_string()).unwrap_or("none".into()),
                b(p < q),
                b(p <= q),
                b(p > q),
                b(p >= q),
                b(p == q),
                Ord::max(p, q).value.to_string(),
                Ord::min(p, q).value.to_string(),
                core::cmp::max(p, q).value.to_string(),
                core::cmp::min(p, q).value.to_string(),
            ])
        }
        ("bc", ws) => match u32s(ws).and_then(|w| H::mk(&w)) {
            Some(h) => h.bc().to_string(),
            None => "bad-request".into(),
        },
        ("bcops", [x, y]) => join([
            x.fold_in(*y).to_string(),
            b(x.has(*y)),
            x.number_of_cards().to_string(),
            b(x.is_single_card()),
            b(BC64::is_valid(x)),
        ]),
        ("peel", [x, k]) if *k <= 200 => {
            let mut s = *x;
            let mut out = Vec::new();
            for _ in 0..*k {
                out.push(s.peel());
            }
            out.push(s);
            join(out)
        }
        ("two", [x]) => match Two::try_from(*x) {
            Ok(t) => format!("0 {} {} {}", t.first(), t.second(), <BinaryCard as BC64>::from_two(t)),
            Err(HandError::NotEnoughCards) => "1".into(),
            Err(HandError::TooManyCards) => "2".into(),
            Err(HandError::InvalidBinaryFormat) => "3".into(),
            Err(e) => format!("err({e:?})"),
        },
        ("chen", [x, y]) if *x < (1 << 32) && *y < (1 << 32) => {
            let t = Two::new(*x as u32, *y as u32);
            join([
                fmt_opt(guarded(|| t.chen_formula())),
                fmt_opt(guarded(|| t.get_gap())),
                fmt_opt(guarded(|| b(t.is_connector()))),
                b(t.is_pocket_pair()),
                b(t.is_suited()),
                fmt_opt(guarded(|| b(t.is_suited_connector()))),
                t.high_card().to_string(),
            ])
        }
        ("parse", [n, cps @ ..]) => match text_of(cps) {
            Some(t) => fmt_opt(guarded(|| parse_hand(*n, &t))),
            None => "bad-request".into(),
        },
        ("idx", cps) => match text_of(cps) {
            Some(t) => fmt_opt(guarded(|| {
                let (r, s) = ckc_rs::parse::get_rank_and_suit(&t);
                format!("{} {} {}", r as u8, s as u8, <CKCNumber as PokerCard>::from_index(&t))
            })),
            None => "bad-request".into(),
        },
        ("bcidx", cps) => match text_of(cps) {
            Some(t) => fmt_opt(guarded(|| <BinaryCard as BC64>::from_index(&t))),
            None => "bad-request".into(),
        },
        ("hist", [n, rest @ ..]) if (2..=7).contains(n) && rest.len() >= *n as usize && (rest.len() - *n as usize) % 2 == 0 => {
            let n = *n as usize;
            let Some(init) = u32s(&rest[..n]) else { return "bad-request".into() };
            let Some(mut h) = H::mk(&init) else { return "bad-request".into() };
            let mut out: Vec<u32> = h.vec();
            for op in rest[n..].chunks(2) {
                let Ok(x) = u32::try_from(op[1]) else { return "bad-request".into() };
                // an out-of-range slot number has no setter: the model's `List.set` leaves the list unchanged
                let _ = h.set_named(op[0], x);
                // the state is read three ways and they must agree
                let a = h.vec();
                if a != h.named() || a != h.iter_vec() || a[0] != h.first_via_trait() || a[0] != h.first_generic() {
                    return format!("readers-disagree to_arr={:?} named={:?} iter={:?} trait-first={} generic-first={}", a, h.named(), h.iter_vec(), h.first_via_trait(), h.first_generic());
                }
                out.extend(a);
            }
            join(out)
        }
        ("ctor", ws) if (2..=7).contains(&ws.len()) => {
            let Some(w) = u32s(ws) else { return "bad-request".into() };
            // every public constructor of the size, each read back with to_arr; then the Default value
            let mut out: Vec<u32> = Vec::new();
            match w.len() {
                2 => {
                    out.extend(Two::from([w[0], w[1]]).to_arr());
                    out.extend(Two::from(&[w[0], w[1]]).to_arr());
                    out.extend(Two::new(w[0], w[1]).to_arr());
                    out.extend(Two::default().to_arr());
                }
                3 => {
                    out.extend(Three::from([w[0], w[1], w[2]]).to_arr());
                    out.extend(Three([w[0], w[1], w[2]]).to_arr());
                    out.extend(Three([w[0], w[1], w[2]]).0);
                    out.extend(Three::default().to_arr());
                }
                4 => {
                    out.extend(Four::from([w[0], w[1], w[2], w[3]]).to_arr());
                    out.extend(Four::default().to_arr());
                }
                5 => {
                    out.extend(Five::from([w[0], w[1], w[2], w[3], w[4]]).to_arr());
                    out.extend(Five::new(w[0], w[1], w[2], w[3], w[4]).to_arr());
                    out.extend(Five::default().to_arr());
                }
                6 => {
                    out.extend(Six::from([w[0], w[1], w[2], w[3], w[4], w[5]]).to_arr());
                    out.extend(Six::from_1_and_2_and_3(w[0], Two::new(w[1], w[2]), Three::from([w[3], w[4], w[5]])).to_arr());
                    out.extend(Six::default().to_arr());
                }
                _ => {
                    out.extend(Seven::from([w[0], w[1], w[2], w[3], w[4], w[5], w[6]]).to_arr());
                    out.extend(Seven::new(Two::from(&[w[0], w[1]]), Five::new(w[2], w[3], w[4], w[5], w[6])).to_arr());
                    out.extend(Seven::default().to_arr());
                }
            }
            join(out)
        }
        ("six123", ws) if ws.len() == 6 => {
            let Some(w) = u32s(ws) else { return "bad-request".into() };
            join(Six::from_1_and_2_and_3(w[0], Two::new(w[1], w[2]), Three::from([w[3], w[4], w[5]])).to_arr())
        }
        ("sevennew", ws) if ws.len() == 7 => {
            let Some(w) = u32s(ws) else { return "bad-request".into() };
            join(Seven::new(Two::from(&[w[0], w[1]]), Five::new(w[2], w[3], w[4], w[5], w[6])).to_arr())
        }
        ("pick", [n, rest @ ..]) if (*n == 6 || *n == 7) && rest.len() == *n as usize + 5 => {
            let n = *n as usize;
            let Some(w) = u32s(&rest[..n]) else { return "bad-request".into() };
            let row: Vec<u8> = rest[n..].iter().map(|x| (*x).min(255) as u8).collect();
            let perm = [row[0], row[1], row[2], row[3], row[4]];
            fmt_opt(guarded(|| {
                if n == 6 {
                    join(Six::from([w[0], w[1], w[2], w[3], w[4], w[5]]).five_from_permutation(perm).to_arr())
                } else {
                    join(Seven::from([w[0], w[1], w[2], w[3], w[4], w[5], w[6]]).five_from_permutation(perm).to_arr())
                }
            }))
        }
        _ => "bad-request".into(),
    }
}

/// the `p`-th permutation (0..119) of five positions, factorial number system (same as the driver's)
pub fn perm5(p: usize) -> [usize; 5] {
    let mut pool = vec![0usize, 1, 2, 3, 4];
    let mut out = [0usize; 5];
    let mut q = p;
    for (n, k) in [5usize, 4, 3, 2, 1].iter().enumerate() {
        let i = q % k;
        q /= k;
        out[n] = pool.remove(i);
    }
    out
}

/// bulk answer: every five-card hand whose lowest deck index is `a`, slots permuted by `perm5(p)`
fn enum5(a: usize, p: usize) -> String {
    let deck = layout_deck();
    let pm = perm5(p);
    let mut out = String::new();
    for b in a + 1..52 {
        for c in b + 1..52 {
            for d in c + 1..52 {
                for e in d + 1..52 {
                    let base = [deck[a], deck[b], deck[c], deck[d], deck[e]];
                    let arr = [base[pm[0]], base[pm[1]], base[pm[2]], base[pm[3]], base[pm[4]]];
                    let h = Five::from(arr);
                    let code = match guarded(|| h.hand_rank_value()) {
                        None => 999999u32,
                        Some(v) => {
                            let ok = guarded(|| h.hand_rank_value_validated()) == Some(v)
                                && guarded(|| ckc_rs::evaluate::five_cards(arr)) == Some(v);
                            match guarded(|| (h.is_flush(), h.is_straight(), h.is_wheel())) {
                                Some((f, st, w)) => v as u32 * 16 + f as u32 + 2 * st as u32 + 4 * w as u32 + 8 * ok as u32,
                                None => 999998, // a predicate panicked
                            }
                        }
                    };
                    out.push_str(&code.to_string());
                    out.push(' ');
                }
            }
        }
    }
    out.trim_end().to_string()
}

pub fn deck_blank() -> [u32; 53] {
    let mut d = [0u32; 53];
    d[..52].copy_from_slice(&layout_deck());
    d
}

/// bulk answer: five-slot multisets over {52 cards, blank} with lowest symbol index `a`
fn enum5b(a: usize) -> String {
    let sym = deck_blank();
    let mut out = String::new();
    for b in a..53 {
        for c in b..53 {
            for d in c..53 {
                for e in d..53 {
                    let arr = [sym[a], sym[b], sym[c], sym[d], sym[e]];
                    let h = Five::from(arr);
                    let code = match guarded(|| h.hand_rank_value()) {
                        None => 999999u32,
                        Some(v) => {
                            v as u32 * 4
                                + 2 * guarded(|| h.hand_rank_value_validated()).is_some() as u32
                                + guarded(|| ckc_rs::evaluate::five_cards(arr)).is_some() as u32
                        }
                    };
                    out.push_str(&code.to_string());
                    out.push(' ');
                }
            }
        }
    }
    out.trim_end().to_string()
}

fn hand_sum(h: [u32; 5]) -> u64 {
    (h[0] as u64 + 3 * h[1] as u64 + 5 * h[2] as u64 + 7 * h[3] as u64 + 11 * h[4] as u64) % 1000003
}

/// bulk answer: every six-card hand with lowest deck index `a`: value and checksum of the reported hand
fn enum6(a: usize) -> String {
    let deck = layout_deck();
    let mut out = String::new();
    for b in a + 1..52 { for c in b + 1..52 { for d in c + 1..52 { for e in d + 1..52 { for f in e + 1..52 {
        let h = Six::from([deck[a], deck[b], deck[c], deck[d], deck[e], deck[f]]);
        match guarded(|| h.hand_rank_value_and_hand()) {
            Some((v, hand)) => { out.push_str(&format!("{v} {} ", hand_sum(hand.to_arr()))); }
            None => out.push_str("panic "),
        }
    } } } } }
    out.trim_end().to_string()
}

/// six/seven-card case stream shared by C02, C03, C09 (value AND reported hand are compared)
fn cases_sixseven(c: &mut Cases, rng: &mut Rng, thorough: bool) {
    let deck = layout_deck();
    let word = |r: usize, su: usize| deck[(3 - su) * 13 + (12 - r)];
    // for every row of both published tables: a hand whose unique best five (a straight flush) sits
    // exactly in that row's slots, every top rank, seeded suit, low off-suit fillers
    for n in [6usize, 7] {
        for row in index_combos(n, 5) {
            for top in 4..13usize {
                let su = rng.below(4) as usize;
                let other = (su + 1 + rng.below(3) as usize) % 4;
                let mut sf: Vec<u32> = (0..5).map(|k| word(top - k, su)).collect();
                if top % 2 == 0 { rng.shuffle(&mut sf); }
                // fillers: ranks far from the straight, different suit, never making a better hand
                let fill_ranks: Vec<usize> = (0..13).filter(|r| *r + 1 < top.saturating_sub(4) || *r > top + 1).collect();
                if fill_ranks.len() < n - 5 { continue; }
                let mut ws = vec![0u32; n];
                let mut k = 0;
                let mut fk = 0;
                for (slot, w) in ws.iter_mut().enumerate() {
                    if row.contains(&slot) { *w = sf[k]; k += 1; } else { *w = word(fill_ranks[fk], other); fk += 1; }
                }
                c.emit(&format!("ev{n}/best-five-in-row"), &format!("ev{n} {}", join(&ws)));
            }
        }
        for _ in 0..(if thorough { 600_000 } else { 60_000 }) {
            let mut idx: Vec<usize> = (0..52).collect();
            rng.shuffle(&mut idx);
            c.emit(&format!("ev{n}/seeded-distinct-cards-seeded-order"), &format!("ev{n} {}", join(idx[..n].iter().map(|i| deck[*i]))));
        }
    }
    if thorough {
        for a in 0..47 {
            c.emit("enum6/all-six-card-hands-with-lowest-card-a", &format!("enum6 {a}"));
        }
    }
}

/// the near-miss alphabet of property C04: 52 cards, blank, single-bit corruptions of three cards,
/// flagged versions of two cards, 0xFFFFFFFF and small integers
pub fn c04_alphabet() -> Vec<u32> {
    let deck = layout_deck();
    let mut v: Vec<u32> = deck.to_vec();
    v.push(0);
    for &w in &[deck[0], deck[17], deck[51]] {
        for b in 0..32 {
            v.push(w ^ (1 << b));
        }
    }
    for &w in &[deck[5], deck[40]] {
        for m in 1u32..8 {
            v.push(w | (m << 29));
        }
    }
    v.extend([u32::MAX, 1, 2, 23, u32::MAX - 1]);
    v
}

/// words that are not cards but look like one: every marked card (52 x 7), one-bit neighbours of three cards,
/// a seeded sample of hybrids (fields of two different cards), and a few constants
pub fn not_card_words(rng: &mut Rng, hybrids: usize) -> Vec<u32> {
    let deck = layout_deck();
    let mut v: Vec<u32> = Vec::new();
    for &w in &deck {
        for m in 1u32..8 {
            v.push(w | (m << 29));
        }
    }
    for &w in &[deck[0], deck[17], deck[51]] {
        for b in 0..32 {
            let x = w ^ (1 << b);
            if !deck.contains(&x) { v.push(x); }
        }
    }
    let hy = hybrid_words();
    for _ in 0..hybrids {
        v.push(hy[rng.below(hy.len() as u64) as usize]);
    }
    v.extend([u32::MAX, 1, 2, 23, u32::MAX - 1, 0x8000_0000, 0x1000_0000]);
    v
}

/// words whose fields are each taken from a real card but do not belong together (rank bit of one card with
/// the rank number / prime / suit of another): every field test passes, the word is not a card
pub fn hybrid_words() -> Vec<u32> {
    let deck = layout_deck();
    let mut v = Vec::new();
    for &a in &deck {
        for &b in &deck {
            if a == b { continue; }
            for mask in [0xFFFF_0000u32, 0xFFFF_F000, 0xFFFF_FF00, 0xFFFF_0FFF, 0xFFFF_F0FF, 0xFFFF_FFC0] {
                let w = (a & mask) | (b & !mask);
                if !deck.contains(&w) { v.push(w); }
            }
        }
    }
    v.sort_unstable();
    v.dedup();
    v
}

/// the hands of the C04 stream (sizes 2..7): planted duplicates at every slot pair, a bad word at every
/// slot, arrangements over the alphabet, arbitrary words
pub fn c04_hands(rng: &mut Rng, thorough: bool) -> Vec<(String, Vec<u32>)> {
    let deck = layout_deck();
    let alpha = c04_alphabet();
    let near: Vec<u32> = alpha[52..].to_vec();
    let mut out: Vec<(String, Vec<u32>)> = Vec::new();
    for n in 2..=7usize {
        for rep in 0..3 {
            let mut idx: Vec<usize> = (0..52).collect();
            rng.shuffle(&mut idx);
            let base: Vec<u32> = idx[..n].iter().map(|i| deck[*i]).collect();
            out.push(("valid".into(), base.clone()));
            for i in 0..n {
                for j in 0..n {
                    if i != j {
                        let mut h = base.clone();
                        h[j] = h[i];
                        out.push(("duplicate-at-slot-pair".into(), h));
                    }
                }
            }
            for i in 0..n {
                for (k, &bad) in near.iter().enumerate() {
                    if rep == 0 || k % 3 == rep % 3 {
                        let mut h = base.clone();
                        h[i] = bad;
                        out.push(("near-miss-at-slot".into(), h));
                    }
                }
            }
            // a duplicated near-miss, and near-miss + duplicate together
            let mut h = base.clone();
            h[0] = near[rep];
            h[n - 1] = near[rep];
            out.push(("duplicated-near-miss".into(), h));
        }
        for _ in 0..(if thorough { 100_000 } else { 6_000 }) {
            let h: Vec<u32> = (0..n).map(|_| if rng.below(4) == 0 { alpha[52 + rng.below((alpha.len() - 52) as u64) as usize] } else { alpha[rng.below(52) as usize] }).collect();
            out.push(("alphabet-arrangement".into(), h));
        }
        for _ in 0..(if thorough { 30_000 } else { 2_000 }) {
            let h: Vec<u32> = (0..n).map(|_| match rng.below(3) { 0 => rng.next() as u32, 1 => alpha[rng.below(52) as usize], _ => (rng.next() as u32) & 0x1FFF_FF3F }).collect();
            out.push(("arbitrary-words".into(), h));
        }
    }
    // cross-field hybrids at the first, a middle and the last slot of a valid hand of every size
    let hyb = hybrid_words();
    for (k, &w) in hyb.iter().enumerate() {
        if !thorough && k % 7 != 0 { continue; }
        let n = 2 + k % 6;
        let mut idx: Vec<usize> = (0..52).collect();
        rng.shuffle(&mut idx);
        let mut h: Vec<u32> = idx[..n].iter().map(|i| deck[*i]).collect();
        h[[0, n / 2, n - 1][k % 3]] = w;
        out.push(("cross-field-hybrid".into(), h));
    }
    // EVERY arrangement (with repetition) of a mini-deck of two ranks x four suits for n = 2..5 (and of one
    // rank x four suits + a king for n = 6): duplicates with same-rank, same-suit and unrelated cards between them
    let mini: Vec<u32> = (0..8).map(|k| deck[(k % 4) * 13 + k / 4]).collect(); // AS AH AD AC KS KH KD KC
    for n in 2..=5usize {
        let total = 8usize.pow(n as u32);
        for t in 0..total {
            let h: Vec<u32> = (0..n).map(|k| mini[(t / 8usize.pow(k as u32)) % 8]).collect();
            out.push(("mini-deck-arrangement".into(), h));
        }
    }
    let mini5: Vec<u32> = vec![deck[0], deck[13], deck[26], deck[39], deck[1]];
    for t in 0..5usize.pow(6) {
        let h: Vec<u32> = (0..6).map(|k| mini5[(t / 5usize.pow(k as u32)) % 5]).collect();
        out.push(("mini-deck-arrangement".into(), h));
    }
    if thorough {
        for t in 0..5usize.pow(7) {
            let h: Vec<u32> = (0..7).map(|k| mini5[(t / 5usize.pow(k as u32)) % 5]).collect();
            out.push(("mini-deck-arrangement".into(), h));
        }
    }
    if thorough {
        // every arrangement of the alphabet for n = 2, and of a reduced alphabet for n = 3, 4
        for &a in &alpha { for &b in &alpha { out.push(("all-arrangements-n2".into(), vec![a, b])); } }
        let small: Vec<u32> = vec![deck[0], deck[1], deck[51], 0, deck[0] ^ 1, deck[1] | (1 << 29), u32::MAX, 1];
        for &a in &small { for &b in &small { for &c in &small {
            out.push(("all-arrangements-n3".into(), vec![a, b, c]));
            for &d in &small { out.push(("all-arrangements-n4".into(), vec![a, b, c, d])); }
        } } }
    }
    out
}

/// hands for the sorting property: all arrangements (n <= 4) / multisets over a small alphabet, seeded words
pub fn c11_hands(rng: &mut Rng, thorough: bool) -> Vec<Vec<u32>> {
    let deck = layout_deck();
    let alpha = [deck[0], deck[13], deck[51], 0, deck[5] | (1 << 31), u32::MAX, 1];
    let mut out = Vec::new();
    fn go(n: usize, cur: &mut Vec<u32>, alpha: &[u32], start: usize, ordered: bool, out: &mut Vec<Vec<u32>>) {
        if cur.len() == n { out.push(cur.clone()); return; }
        for k in (if ordered { 0 } else { start })..alpha.len() {
            cur.push(alpha[k]);
            go(n, cur, alpha, k, ordered, out);
            cur.pop();
        }
    }
    for n in 2..=7usize {
        go(n, &mut Vec::new(), &alpha, 0, n <= 4, &mut out);
        // every multiset in a seeded arrangement as well
        if n > 4 {
            let mut ms = Vec::new();
            go(n, &mut Vec::new(), &alpha, 0, false, &mut ms);
            for mut h in ms { rng.shuffle(&mut h); out.push(h); }
        }
        for _ in 0..(if thorough { 100_000 } else { 8_000 }) {
            let h: Vec<u32> = (0..n).map(|_| match rng.below(3) { 0 => rng.next() as u32, 1 => deck[rng.below(52) as usize], _ => rng.below(4) as u32 }).collect();
            out.push(h);
        }
        // real-card hands with a shape (straights incl. the wheel, flushes, pairs), seeded suits and orders
        for lo in 0..10usize {
            for _ in 0..8 {
                let ranks: Vec<usize> = if lo == 9 { vec![12, 0, 1, 2, 3, 4, 5] } else { (lo..lo + 7).map(|r| r % 13).collect() };
                let flush = rng.below(3) == 0;
                let su0 = rng.below(4) as usize;
                let mut h: Vec<u32> = ranks[..n.min(7)].iter().map(|r| { let su = if flush { su0 } else { rng.below(4) as usize }; deck[(3 - su) * 13 + (12 - r)] }).collect();
                rng.shuffle(&mut h);
                out.push(h);
            }
        }
        for _ in 0..(if thorough { 20_000 } else { 2_000 }) {
            let mut idx: Vec<usize> = (0..52).collect();
            rng.shuffle(&mut idx);
            out.push(idx[..n].iter().map(|i| deck[*i]).collect());
        }
        // card-shaped near-duplicates: two or three cards and words that differ from them only in a narrow field
        // (prime bits, rank-number nibble, one suit bit, one rank bit) — any key that drops a field makes them tie
        for _ in 0..(if thorough { 60_000 } else { 6_000 }) {
            let base: Vec<u32> = (0..1 + rng.below(3)).map(|_| deck[rng.below(52) as usize]).collect();
            let h: Vec<u32> = (0..n).map(|_| {
                let c = base[rng.below(base.len() as u64) as usize];
                match rng.below(8) {
                    0 | 1 => c,
                    2 => c ^ (1 << rng.below(6)),
                    3 => c ^ (1 + rng.below(63) as u32),
                    4 => c ^ (1 << (8 + rng.below(4))),
                    5 => c ^ (1 << (12 + rng.below(4))),
                    6 => c ^ (1 << (16 + rng.below(13))),
                    _ => c ^ (1 << rng.below(32)),
                }
            }).collect();
            out.push(h);
        }
    }
    out
}

/// deck indices that alias an in-range index when a part of the computation is done in a narrower integer or a quotient /
/// remainder is truncated: k + m * 2^j, k + 13 * 2^j * m, k + 52 * 2^j * m, for k < 52 and a few beyond
/// the same words written into an existing hand slot by slot
pub fn five_via_setters(base: Five, w: [u32; 5]) -> Five {
    let mut m = base;
    m.set_first(w[0]);
    m.set_second(w[1]);
    m.set_third(w[2]);
    m.set_forth(w[3]);
    m.set_fifth(w[4]);
    m
}

/// numbers the crate's own source mentions: an index, key or word that *equals* one of them is where a special case,
/// an assertion about "obviously wrong" arguments or a mixed-up unit would sit (a card word used as an index, a table
/// length used as a key ...)
pub fn crate_constants() -> Vec<u64> {
    let mut v: Vec<u64> = Vec::new();
    for (_, w, _) in named_cards() {
        v.extend([w as u64, w as u64 - 1, w as u64 + 1, (w >> 16) as u64, (w & 0xFFFF) as u64, (w & 0x3F) as u64]);
    }
    v.extend([
        CardNumber::RANK_FLAG_FILTER as u64, CardNumber::SUIT_FILTER as u64, CardNumber::RANK_PRIME_FILTER as u64,
        CardNumber::PAIR as u64, CardNumber::TRIPS as u64, CardNumber::QUADS as u64, CardNumber::MULTIPLES_FILTER as u64,
        Five::POSSIBLE_COMBINATIONS as u64, Five::WHEEL_OR_BITS as u64, Five::STRAIGHT_PADDING as u64,
        4887, 4888, 4889, 7461, 7462, 7463, 7936, 7937, 7938, 41 * 41 * 41 * 41 * 41, 41 * 41 * 41 * 41 * 37, 48, 47, 49,
    ]);
    for i in 0..52u32 {
        v.push(1u64 << i);
    }
    v.sort_unstable();
    v.dedup();
    v
}

pub fn aliasing_indices() -> Vec<u64> {
    let mut v = crate_constants();
    for k in (0u64..56).chain([63, 64, 255, 256]) {
        for j in [8u32, 16, 31, 32, 33, 48, 63] {
            for m in [1u64, 2, 3] {
                for base in [1u64, 13, 52, 4] {
                    v.push(k.wrapping_add(base.wrapping_mul(m).wrapping_mul(1u64 << j)));
                }
            }
        }
    }
    v
}

/// structured and seeded 64-bit sets: empty, full, singletons, rank groups, each overflow bit, boundaries
pub fn bit_sets(rng: &mut Rng, seeded: usize) -> Vec<u64> {
    let all: u64 = (1u64 << 52) - 1;
    let mut v = vec![0u64, all, u64::MAX, !all, 1, 1 << 51, 1 << 52, (1 << 52) | 1, all ^ 1, all ^ (1 << 51)];
    for i in 0..64 {
        v.push(1 << i);
        v.push(all & !(1u64 << (i % 52)));
        v.push((1u64 << i).wrapping_sub(1));
    }
    for r in 0..13 {
        v.push((1u64 << r) | (1u64 << (13 + r)) | (1u64 << (26 + r)) | (1u64 << (39 + r)));
    }
    // every contiguous run of bits, alone and with one extra bit (lane-wise popcounts, nibble carries, suit lanes that
    // run into the twelve non-card bits)
    for lo in 0..64u32 {
        for len in 1..=64 - lo {
            let run = if len == 64 { u64::MAX } else { ((1u64 << len) - 1) << lo };
            v.push(run);
            if len >= 8 {
                let extra = 1u64 << rng.below(64);
                v.push(run | extra);
                v.push(run & !extra);
            }
        }
    }
    for i in 52..64 {
        v.push((1u64 << i) | 0b1011);
    }
    for _ in 0..seeded {
        v.push(match rng.below(5) {
            0 => rng.next() & all,
            1 => rng.next() & rng.next() & all,
            2 => rng.next() & rng.next() & rng.next() & all,
            3 => (rng.next() & rng.next() & all) | (1u64 << (52 + rng.below(12))),
            _ => rng.next(),
        });
    }
    v
}

/// texts with 50..140 card tokens (many repeats, some garbage), ending in a card that did not occur before
pub fn long_card_texts(rng: &mut Rng, n: usize) -> Vec<String> {
    let ranks: Vec<char> = "AKQJT98765432".chars().collect();
    let suits: Vec<char> = "SHDC".chars().collect();
    let mut out = vec![format!("{}KS", "AS ".repeat(52)), format!("{}2c", "AS KS ".repeat(40))];
    for _ in 0..n {
        let len = 50 + rng.below(90) as usize;
        let pool = 1 + rng.below(30) as usize; // how many distinct cards the body draws from
        let mut t = String::new();
        for _ in 0..len {
            let k = rng.below(pool as u64) as usize;
            if rng.below(12) == 0 { t.push_str("xx "); }
            t.push(ranks[k % 13]);
            t.push(suits[(k / 13) % 4]);
            t.push(' ');
        }
        let last = 51 - rng.below(10) as usize; // a card outside the pool (pool <= 30)
        t.push(ranks[last % 13]);
        t.push(suits[(last / 13) % 4]);
        out.push(t);
    }
    out
}

fn cps(text: &str) -> String {
    join(text.chars().map(|c| c as u32))
}

/// strings for the parsing property
pub fn c12_tokens_alphabet() -> Vec<char> {
    let mut v: Vec<char> = "AKQJT098765432akqjtSHDCshdc♠♥♦♣♤♡♢♧".chars().collect();
    v.extend([' ', '\t', '\u{a0}', '\u{3000}', 'é', '€', '😀', '\0', '1', 'x', '_']);
    v
}
pub fn c12_strings(rng: &mut Rng, thorough: bool) -> Vec<(String, String)> {
    let alpha = c12_tokens_alphabet();
    let mut out: Vec<(String, String)> = vec![("empty".into(), String::new())];
    for &a in &alpha {
        out.push(("one-char".into(), a.to_string()));
        for &b in &alpha {
            for tail in ["", "x", "10", "♠♠"] {
                out.push(("two-leading-chars+tail".into(), format!("{a}{b}{tail}")));
            }
        }
    }
    let seps = [" ", "  ", "\t", "\n", "\u{a0}", " \u{2003}", "\u{3000}", "\r\n", "\u{85}"];
    let ranks: Vec<char> = "AKQJT98765432akqjt0".chars().collect();
    let suits: Vec<char> = "SHDCshdc♠♥♦♣♤♡♢♧".chars().collect();
    for ntok in 0..=9usize {
        for _ in 0..(if thorough { 400 } else { 60 }) {
            let mut t = String::new();
            if rng.below(3) == 0 { t.push_str(seps[rng.below(seps.len() as u64) as usize]); }
            for k in 0..ntok {
                match rng.below(8) {
                    0 => t.push('x'),
                    1 => { t.push(ranks[rng.below(ranks.len() as u64) as usize]); }
                    _ => {
                        t.push(ranks[rng.below(ranks.len() as u64) as usize]);
                        t.push(suits[rng.below(suits.len() as u64) as usize]);
                        if rng.below(5) == 0 { t.push_str("!?"); }
                    }
                }
                if k + 1 < ntok || rng.below(3) == 0 { t.push_str(seps[rng.below(seps.len() as u64) as usize]); }
            }
            out.push((format!("hand-string-{ntok}-tokens"), t));
        }
    }
    // long tokens, card tokens run together with or without punctuation, and very short hand texts
    for body in ["AS", "9♣", "td", "K♥"] {
        for tail in ["-of-spades", "♣♣♣", "xxxxxxxxxxxxxxxxxxxxxxxxxxxxxxxxxxxxxxxx", "\u{fe0f}", "ASASASASAS", "😀😀😀😀"] {
            out.push(("long-token".into(), format!("{body}{tail}")));
            out.push(("long-token".into(), format!("{body}{tail} KS QS JS TS 9S 8S")));
        }
    }
    let cards = ["As", "Ks", "Qs", "Js", "Ts", "9s", "8s"];
    for n in 1..=7usize {
        for sep in ["", ",", ";", "-", "/", "|", "+", "_", ".", ":", "&"] {
            out.push(("cards-run-together".into(), cards[..n].join(sep)));
            out.push(("cards-run-together".into(), format!("[{}]", cards[..n].join(" "))));
            out.push(("cards-run-together".into(), format!("{} {}", cards[..n].join(sep), cards[..n].join(sep))));
        }
    }
    for n in 0..=8usize {
        for tok in ["A", "K", "9", "s", "x"] {
            out.push(("short-hand-text".into(), vec![tok; n].join(" ")));
            let mut v = vec!["AS"; n];
            if n > 2 { v[2] = tok; }
            out.push(("short-hand-text".into(), v.join(" ")));
        }
    }
    // texts whose offsets cross a power-of-two boundary (an offset, a length or a count kept in a narrow integer)
    let hand = "AS KD QH JC TS 9S 8S";
    for len in [255usize, 256, 257, 65_534, 65_535, 65_536, 65_537, 70_000] {
        out.push(("huge-text/leading-blanks".into(), format!("{}{hand}", " ".repeat(len))));
        out.push(("huge-text/long-first-token".into(), format!("AS{} {hand}", "x".repeat(len))));
        out.push(("huge-text/long-junk-token-in-the-middle".into(), format!("AS KD {} QH JC TS 9S 8S", "z".repeat(len))));
        out.push(("huge-text/blanks-between-tokens".into(), format!("AS{}KD QH JC TS 9S 8S", "\t".repeat(len))));
    }
    out.push(("huge-text/wide-blanks".into(), format!("{}{hand}", "\u{3000}".repeat(22_000))));
    out.push(("huge-text/many-tokens".into(), format!("{}AS KD", "2c ".repeat(66_000))));
    for _ in 0..(if thorough { 60_000 } else { 6_000 }) {
        let len = rng.below(14);
        let mut t = String::new();
        for _ in 0..len {
            let c = match rng.below(6) {
                0 => alpha[rng.below(alpha.len() as u64) as usize],
                1 => [' ', '\t', '\u{a0}', '\u{1680}', '\u{2028}', '\u{205f}', '\u{200b}'][rng.below(7) as usize],
                2 => char::from_u32(rng.below(0x80) as u32).unwrap_or('?'),
                3 => char::from_u32(0x2600 + rng.below(0x100) as u32).unwrap_or('?'),
                _ => loop { if let Some(c) = char::from_u32(rng.below(0x110000) as u32) { break c; } },
            };
            t.push(c);
        }
        out.push(("seeded-unicode".into(), t));
    }
    out
}

/// keys for the product search: small keys, every table key and its neighbours, powers of two, seeded
fn find_keys(rng: &mut Rng, seeded: usize) -> Vec<u64> {
    let mut keys: Vec<u64> = (0..4100).collect();
    // the table keys and their neighbours (the hook re-exports the private table; a build without the hook — used only to
    // search for a failing input when the guard is misused — goes without them)
    #[cfg(contractbridge_ckc_rs_verif)]
    for p in ckc_rs::verif_hooks::PRODUCTS {
        keys.extend([p as u64 - 1, p as u64, p as u64 + 1]);
        // the same key with bits above the 32-bit product: a narrowing conversion inside the search would alias it to a table key
        for m in [1u64, 2, 7, 1 << 31] {
            keys.push((m << 32).wrapping_add(p as u64));
        }
        keys.push((1u64 << 16 << 16 << 16).wrapping_add(p as u64));
    }
    keys.extend(crate_constants());
    for k in 0..64 {
        let p = 1u64 << k;
        keys.extend([p.wrapping_sub(1), p, p.wrapping_add(1)]);
    }
    keys.push(u64::MAX);
    for _ in 0..seeded {
        keys.push(match rng.below(3) {
            0 => rng.below(104_553_158 + 1000),
            1 => rng.below(1 << 32),
            _ => rng.next(),
        });
    }
    keys
}

/// words worth looking at: the 52 cards, blank, every multiples-flag combination on them,
/// single-bit corruptions, field-boundary patterns
pub fn structured_words() -> Vec<u32> {
    let mut v = vec![0u32, 1, 2, 23, u32::MAX, 0x1FFF0000, 0xF000, 0x3F, 0xF00];
    let deck = layout_deck();
    for w in deck {
        v.push(w);
        for m in 1u32..8 {
            v.push(w | (m << 29));
        }
    }
    for &w in &[deck[0], deck[17], deck[51]] {
        for b in 0..32 {
            v.push(w ^ (1 << b));
        }
    }
    v
}

fn writeln_case(c: &mut Cases, req: &str, ans: &str) {
    use std::io::Write;
    writeln!(c.cases, "{req}").unwrap();
    writeln!(c.imp, "{ans}").unwrap();
    c.n += 1;
    *c.dist.entry("termination-probe".to_string()).or_insert(0) += 1;
    c.samples.push(format!("{req} => {ans}"));
}

/// Termination probe for the only loop in the crate whose exit is data dependent (`find_in_products`):
/// run the key set on a helper thread and wait a bounded time.  Returns the key that was being searched
/// when the time ran out.
pub fn find_hangs() -> Option<u64> {
    use std::sync::atomic::{AtomicU64, Ordering};
    use std::sync::Arc;
    let cur = Arc::new(AtomicU64::new(u64::MAX));
    let done = Arc::new(AtomicU64::new(0));
    let (c2, d2) = (cur.clone(), done.clone());
    std::thread::spawn(move || {
        let mut rng = Rng::new(77);
        for k in find_keys(&mut rng, 50_000) {
            c2.store(k, Ordering::SeqCst);
            let _ = guarded(|| Five::find_in_products(k as usize));
        }
        d2.store(1, Ordering::SeqCst);
    });
    for _ in 0..300 {
        if done.load(std::sync::atomic::Ordering::SeqCst) == 1 {
            return None;
        }
        std::thread::sleep(std::time::Duration::from_millis(100));
    }
    Some(cur.load(std::sync::atomic::Ordering::SeqCst))
}

pub fn cases(prop: &str, thorough: bool, seed: u64, c: &mut Cases) {
    let mut rng = Rng::new(seed ^ 0xC0DE);
    // requests on which model and implementation once disagreed (on some tree) run first
    if let Ok(text) = std::fs::read_to_string(format!("corpus/{prop}.txt")) {
        for line in text.lines().filter(|l| !l.trim().is_empty() && !l.starts_with('#')).take(2000) {
            c.emit("corpus (past disagreements)", line.trim());
        }
    }
    if matches!(prop, "C01" | "C02" | "C03" | "C05" | "C09" | "C13") {
        if let Some(k) = find_hangs() {
            // every ranking entry point goes through this loop: report it instead of hanging too
            writeln_case(c, &format!("find {k}"), "does-not-return");
            return;
        }
    }
    match prop {
        "C10" => {
            for w in structured_words() {
                c.emit("acc/structured", &format!("acc {w}"));
            }
            // every rank-field value with a few suit fields, every suit field with a few rank fields
            for m in 0u32..8192 {
                for s in [0u32, 1, 8, 5] {
                    c.emit("acc/rank-field", &format!("acc {}", (m << 16) | (s << 12) | (m & 0xFFF)));
                }
            }
            for s in 0u32..16 {
                for m in [0u32, 1, 4096, 3, 8191] {
                    c.emit("acc/suit-field", &format!("acc {}", (m << 16) | (s << 12)));
                }
            }
            let n = if thorough { 400_000 } else { 40_000 };
            for _ in 0..n {
                c.emit("acc/seeded", &format!("acc {}", rng.next() as u32));
            }
            for r in CardRank::iter() {
                for s in CardSuit::iter() {
                    c.emit("create", &format!("create {} {}", r as u8, s as u8));
                }
            }
        }
        "C01" => {
            let perms: Vec<usize> = if thorough {
                (0..120).collect()
            } else {
                vec![0, 1 + rng.below(119) as usize, 1 + rng.below(119) as usize]
            };
            for p in perms {
                for a in 0..48 {
                    c.emit("enum5/all-hands-with-lowest-card-a", &format!("enum5 {a} {p}"));
                }
            }
            let deck = layout_deck();
            for _ in 0..(if thorough { 200_000 } else { 20_000 }) {
                let mut idx: Vec<usize> = (0..52).collect();
                rng.shuffle(&mut idx);
                c.emit("ev5/seeded-hand-seeded-order", &format!("ev5 {}", join(idx[..5].iter().map(|i| deck[*i]))));
            }
            let keys = find_keys(&mut rng, if thorough { 1_000_000 } else { 100_000 });
            for k in keys {
                c.emit("find", &format!("find {k}"));
            }
        }
        "C03" => {
            cases_sixseven(c, &mut rng, thorough);
            let sym = deck_blank();
            for k in 0..(if thorough { 60_000 } else { 6_000 }) {
                // five slots: distinct real cards in a seeded order, or card-or-blank with repeats
                let ws: Vec<u32> = if k % 2 == 0 {
                    let mut idx: Vec<usize> = (0..52).collect();
                    rng.shuffle(&mut idx);
                    idx[..5].iter().map(|i| sym[*i]).collect()
                } else {
                    (0..5).map(|_| if rng.below(4) == 0 { 0 } else { sym[rng.below(53) as usize] }).collect()
                };
                c.emit("evh5/five-slot input is reported unchanged", &format!("evh {}", join(&ws)));
            }
        }
        "C02" | "C09" => cases_sixseven(c, &mut rng, thorough),
        "C12" => {
            for (kind, t) in c12_strings(&mut rng, thorough) {
                c.emit(&format!("idx/{kind}"), &format!("idx {}", cps(&t)));
                if kind.starts_with("hand-string") || kind == "seeded-unicode" || kind == "empty" || kind == "long-token" || kind == "cards-run-together" || kind == "short-hand-text" {
                    for n in 2..=7 {
                        c.emit(&format!("parse{n}/{kind}"), &format!("parse {n} {}", cps(&t)));
                    }
                    c.emit(&format!("bcidx/{kind}"), &format!("bcidx {}", cps(&t)));
                }
            }
            for w in layout_deck() {
                c.emit("acc/52-cards (rank and suit characters)", &format!("acc {w}"));
            }
        }
        "C19" => {
            for n in 2..=7u64 {
                // every slot as the written slot, from a known state
                for k in 0..n {
                    let init: Vec<u32> = (0..n).map(|i| 1000 + i as u32).collect();
                    c.emit(&format!("hist{n}/every-slot"), &format!("hist {n} {} {k} 4242", join(&init)));
                }
                for round in 0..(if thorough { 20_000 } else { 2_000 }) {
                    // half of the histories draw their words from a tiny alphabet, so that equal words in
                    // different slots, rewrites of the same word and writes of a neighbour's word all occur
                    let small = round % 2 == 0;
                    let word = |rng: &mut Rng| -> u32 {
                        if small { [0u32, 1, 2, 268471337, 69634, u32::MAX, 268471337 | (1 << 29), 69634 | (3 << 30), 134253349 | (1 << 31)][rng.below(9) as usize] } else { rng.next() as u32 }
                    };
                    let init: Vec<u32> = (0..n).map(|_| word(&mut rng)).collect();
                    let len = 1 + rng.below(40);
                    let mut ops = Vec::new();
                    for _ in 0..len {
                        ops.push(rng.below(n).to_string());
                        ops.push(word(&mut rng).to_string());
                    }
                    c.emit(if small { "hist/seeded-history-small-alphabet" } else { "hist/seeded-history" }, &format!("hist {n} {} {}", join(&init), ops.join(" ")));
                }
                // the same word written to every slot in turn, from distinct and from equal initial words
                for init in [(0..n).map(|i| 500 + i as u32).collect::<Vec<u32>>(), vec![7u32; n as usize]] {
                    let ops: Vec<String> = (0..n).flat_map(|k| [k.to_string(), "7".to_string()]).collect();
                    c.emit("hist/same-word-to-every-slot", &format!("hist {n} {} {}", join(&init), ops.join(" ")));
                    let ops: Vec<String> = (0..n).rev().flat_map(|k| [k.to_string(), "0".to_string()]).collect();
                    c.emit("hist/same-word-to-every-slot", &format!("hist {n} {} {}", join(&init), ops.join(" ")));
                }
            }
            for n in 2..=7usize {
                for k in 0..60 {
                    let deck = layout_deck();
                    let w: Vec<u32> = (0..n).map(|i| if k == 0 { 100 + i as u32 } else if k % 3 == 0 { [0u32, 1, u32::MAX][rng.below(3) as usize] } else if k % 3 == 1 { deck[rng.below(52) as usize] | ((rng.below(8) as u32) << 29) } else { rng.next() as u32 }).collect();
                    c.emit(&format!("ctor{n}/every-constructor-and-default"), &format!("ctor {}", join(&w)));
                }
            }
            for _ in 0..200 {
                let w: Vec<u32> = (0..7).map(|_| rng.next() as u32).collect();
                c.emit("six123", &format!("six123 {}", join(&w[..6])));
                c.emit("sevennew", &format!("sevennew {}", join(&w)));
            }
            for n in [6u64, 7] {
                let ws: Vec<u32> = (0..n).map(|i| 7000 + i as u32).collect();
                let mut row = [0u64; 5];
                loop {
                    c.emit(&format!("pick{n}/every-in-range-index-tuple"), &format!("pick {n} {} {}", join(&ws), join(row)));
                    let mut k = 4;
                    loop {
                        row[k] += 1;
                        if row[k] < n { break; }
                        row[k] = 0;
                        if k == 0 { break; }
                        k -= 1;
                    }
                    if row.iter().all(|x| *x == 0) { break; }
                }
                for bad in [n, n + 1, 255] {
                    for pos in 0..5 {
                        let mut r = [0u64, 1, 2, 3, 4];
                        r[pos] = bad;
                        c.emit(&format!("pick{n}/out-of-range-index"), &format!("pick {n} {} {}", join(&ws), join(r)));
                    }
                }
            }
        }
        "C15" => {
            let sym = deck_blank();
            for n in 2..=7usize {
                for _ in 0..(if thorough { 40_000 } else { 4_000 }) {
                    let ws: Vec<u32> = (0..n).map(|_| if rng.below(5) == 0 { sym[rng.below(n as u64) as usize] } else { sym[rng.below(53) as usize] }).collect();
                    c.emit(&format!("bc{n}/card-or-blank-with-repeats"), &format!("bc {}", join(&ws)));
                }
                let ws: Vec<u32> = (0..n).map(|_| rng.next() as u32).collect();
                c.emit(&format!("bc{n}/arbitrary-words"), &format!("bc {}", join(&ws)));
                // a word that is not a card (marked card, one-bit neighbour, hybrid) in every slot in turn
                let bad = not_card_words(&mut rng, if thorough { 2_000 } else { 200 });
                for (k, &b) in bad.iter().enumerate() {
                    let mut ws: Vec<u32> = (0..n).map(|_| sym[rng.below(52) as usize]).collect();
                    ws[k % n] = b;
                    c.emit(&format!("bc{n}/not-a-card-in-one-slot"), &format!("bc {}", join(&ws)));
                }
            }
            let sets = bit_sets(&mut rng, if thorough { 60_000 } else { 6_000 });
            for &x in sets.iter().take(200) {
                c.emit("bcops/blank-and-self arguments", &format!("bcops {x} 0"));
                c.emit("bcops/blank-and-self arguments", &format!("bcops {x} {x}"));
            }
            for (k, &x) in sets.iter().enumerate() {
                let y = match k % 4 { 0 => sets[(k * 7 + 3) % sets.len()], 1 => x & rng.next(), 2 => 1u64 << rng.below(64), _ => x | (1u64 << rng.below(64)) };
                c.emit("bcops/fold_in has count single valid", &format!("bcops {x} {y}"));
                let k = (x & ((1u64 << 52) - 1)).count_ones() + 2;
                c.emit("peel/to-exhaustion-plus-two", &format!("peel {x} {k}"));
            }
            let ranks = ['A', 'K', 'Q', 'J', 'T', '9', '8', '7', '6', '5', '4', '3', '2', 'a', 't', '0', 'x'];
            let suits = ['S', 'H', 'D', 'C', 's', '♠', '♥', '♦', '♣', '♤', 'z'];
            let seps = [" ", "  ", "\t", "\u{a0}", "\n", " \u{3000} "];
            for _ in 0..(if thorough { 30_000 } else { 3_000 }) {
                let n = rng.below(8);
                let mut t = String::new();
                for _ in 0..n {
                    t.push(ranks[rng.below(ranks.len() as u64) as usize]);
                    t.push(suits[rng.below(suits.len() as u64) as usize]);
                    if rng.below(6) == 0 { t.push('!'); }
                    t.push_str(seps[rng.below(seps.len() as u64) as usize]);
                }
                c.emit("bcidx/text", &format!("bcidx {}", cps(&t)));
            }
            // long texts: more tokens than there are cards, with repeats, a new card at the very end
            for t in long_card_texts(&mut rng, if thorough { 400 } else { 60 }) {
                c.emit("bcidx/long-text", &format!("bcidx {}", cps(&t)));
            }
        }
        "C16" => {
            c.emit("two/zero", "two 0");
            for i in 0..64 {
                c.emit("two/one-bit", &format!("two {}", 1u64 << i));
                for j in 0..64 {
                    if i != j {
                        c.emit("two/two-bits (both orders of generation)", &format!("two {}", (1u64 << i) | (1u64 << j)));
                    }
                }
            }
            for pop in 0..=64u32 {
                for _ in 0..(if thorough { 400 } else { 40 }) {
                    let mut bits: Vec<u32> = (0..64).collect();
                    rng.shuffle(&mut bits);
                    let x = bits[..pop as usize].iter().fold(0u64, |a, b| a | (1u64 << b));
                    c.emit("two/seeded-by-population-count", &format!("two {x}"));
                }
            }
            for x in bit_sets(&mut rng, 2_000) {
                c.emit("two/structured+seeded", &format!("two {x}"));
            }
        }
        "C17" => {
            let sym = deck_blank();
            for a in sym {
                for b in sym {
                    // the property's domain: ordered pairs of distinct real cards (blanks and equal cards are not compared)
                    if a != 0 && b != 0 && a != b {
                        c.emit("chen/distinct-cards", &format!("chen {a} {b}"));
                    }
                }
            }
            for w in sym {
                c.emit("acc/53-words (chen points)", &format!("acc {w}"));
            }
        }
        "C11" => {
            for h in c11_hands(&mut rng, thorough) {
                c.emit(&format!("sort{}", h.len()), &format!("sort {}", join(&h)));
            }
        }
        "C08" => {
            let sym = deck_blank();
            for w in sym {
                c.emit("acc/53-words (shift_suit, next_suit, rank)", &format!("acc {w}"));
            }
            for n in 2..=7usize {
                for _ in 0..(if thorough { 50_000 } else { 5_000 }) {
                    let ws: Vec<u32> = (0..n).map(|_| sym[rng.below(53) as usize]).collect();
                    c.emit(&format!("shift{n}/card-or-blank"), &format!("shift {}", join(&ws)));
                }
            }
        }
        "C04" => {
            for (kind, h) in c04_hands(&mut rng, thorough) {
                c.emit(&format!("val{}/{kind}", h.len()), &format!("val {}", join(&h)));
                if h.len() >= 5 {
                    c.emit(&format!("evv{}/{kind}", h.len()), &format!("evv {}", join(&h)));
                }
            }
        }
        "C05" => {
            for a in 0..53 {
                c.emit("enum5b/all five-slot multisets over cards+blank with lowest symbol a", &format!("enum5b {a}"));
            }
            let sym = deck_blank();
            // five slots in seeded orders with many blanks and repeats (full detail)
            for _ in 0..(if thorough { 100_000 } else { 10_000 }) {
                let ws: Vec<u32> = (0..5).map(|_| if rng.below(3) == 0 { 0 } else { sym[rng.below(53) as usize] }).collect();
                c.emit("evt5/card-or-blank", &format!("evt {}", join(ws)));
            }
            for n in [6usize, 7] {
                // structured: all blank, k cards then blanks, one duplicated card, blanks at every slot
                let mut hands: Vec<Vec<u32>> = vec![vec![0; n]];
                for k in 1..=n {
                    let mut h = vec![0u32; n];
                    for (i, slot) in h.iter_mut().enumerate().take(k) { *slot = sym[i * 7 % 52]; }
                    hands.push(h);
                }
                for slot in 0..n {
                    let mut h: Vec<u32> = (0..n).map(|i| sym[i]).collect();
                    h[slot] = 0;
                    hands.push(h.clone());
                    h[slot] = h[(slot + 1) % n];
                    hands.push(h);
                }
                for h in hands {
                    c.emit(&format!("evt{n}/structured"), &format!("evt {}", join(h)));
                }
                for _ in 0..(if thorough { 200_000 } else { 20_000 }) {
                    let blanks = rng.below(4);
                    let ws: Vec<u32> = (0..n).map(|_| if rng.below(n as u64) < blanks { 0 } else { sym[rng.below(52) as usize] }).collect();
                    c.emit(&format!("evt{n}/seeded card-or-blank with repeats"), &format!("evt {}", join(ws)));
                }
            }
            for k in find_keys(&mut rng, if thorough { 300_000 } else { 30_000 }) {
                c.emit("find", &format!("find {k}"));
            }
        }
        "C06" => {
            for v in 0..65536u32 {
                c.emit("rank/every-u16-value", &format!("rank {v}"));
            }
            c.emit("rankdefault", "rankdefault");
            let deck = layout_deck();
            for _ in 0..(if thorough { 100_000 } else { 10_000 }) {
                let mut idx: Vec<usize> = (0..52).collect();
                rng.shuffle(&mut idx);
                c.emit("ev5/seeded-hand (rank of the hand)", &format!("ev5 {}", join(idx[..5].iter().map(|i| deck[*i]))));
            }
        }
        "C07" => {
            let mut vals: Vec<u32> = vec![0, 1, 2, 7461, 7462, 7463, 7464, 32767, 32768, 65534, 65535];
            for b in [1u32, 11, 167, 323, 1600, 1610, 2468, 3326, 6186] {
                vals.extend([b - 1, b, b + 1]);
            }
            vals.sort_unstable();
            vals.dedup();
            for &a in &vals {
                for &b in &vals {
                    c.emit("cmp/boundary-pairs", &format!("cmp {a} {b}"));
                }
            }
            for _ in 0..(if thorough { 300_000 } else { 30_000 }) {
                let pick = |r: &mut Rng| -> u32 {
                    match r.below(4) { 0 => r.below(7464) as u32, 1 => 7400 + r.below(200) as u32, 2 => r.below(65536) as u32, _ => r.below(20) as u32 }
                };
                let (a, b) = (pick(&mut rng), pick(&mut rng));
                c.emit("cmp/seeded-pairs", &format!("cmp {a} {b}"));
            }
        }
        "C13" => {
            let perms: Vec<usize> = if thorough { (0..120).step_by(7).collect() } else { vec![0, 1 + rng.below(119) as usize] };
            for p in perms {
                for a in 0..48 {
                    c.emit("enum5/all-hands-with-lowest-card-a (flags: flush, straight, wheel)", &format!("enum5 {a} {p}"));
                }
            }
            let deck = layout_deck();
            // straights, wheels and near-straights (the span-5 hands the unrepaired predicate got wrong), seeded suits and orders
            for lo in 0..9usize {
                for variant in 0..6 {
                    let mut ranks: Vec<usize> = (lo..lo + 5).collect();
                    match variant {
                        1 => ranks[1] = ranks[0],
                        2 => ranks[3] = ranks[4],
                        3 => ranks[2] = ranks[1],
                        4 => { ranks[1] = ranks[0]; ranks[2] = ranks[0]; }
                        5 => { ranks[1] = ranks[0]; ranks[3] = ranks[4]; }
                        _ => {}
                    }
                    for _ in 0..6 {
                        let mut used = std::collections::BTreeSet::new();
                        let mut ws = Vec::new();
                        for r in &ranks {
                            loop {
                                let su = rng.below(4) as usize;
                                if used.insert((r, su)) {
                                    ws.push(deck[(3 - su) * 13 + (12 - r)]);
                                    break;
                                }
                            }
                        }
                        rng.shuffle(&mut ws);
                        c.emit("ev5/span-five-ranks", &format!("ev5 {}", join(ws)));
                    }
                }
            }
            for _ in 0..(if thorough { 100_000 } else { 10_000 }) {
                let mut idx: Vec<usize> = (0..52).collect();
                rng.shuffle(&mut idx);
                c.emit("ev5/seeded-hand-seeded-order", &format!("ev5 {}", join(idx[..5].iter().map(|i| deck[*i]))));
            }
        }
        "C14" => {
            for w in structured_words() {
                c.emit("ckc/structured", &format!("ckc {w}"));
            }
            for _ in 0..(if thorough { 200_000 } else { 20_000 }) {
                c.emit("ckc/seeded", &format!("ckc {}", rng.next() as u32));
            }
            c.emit("frombc/zero", "frombc 0");
            for i in 0..64 {
                c.emit("frombc/single-bit", &format!("frombc {}", 1u64 << i));
                for j in 0..i {
                    c.emit("frombc/two-bits", &format!("frombc {}", (1u64 << i) | (1u64 << j)));
                }
                c.emit("frombc/2^k-1", &format!("frombc {}", (1u64 << i).wrapping_sub(1)));
                c.emit("frombc/2^k+1", &format!("frombc {}", (1u64 << i).wrapping_add(1)));
            }
            for i in 0..52 {
                for j in 52..64 {
                    c.emit("frombc/card|overflow", &format!("frombc {}", (1u64 << i) | (1u64 << j)));
                }
            }
            c.emit("frombc/max", &format!("frombc {}", u64::MAX));
            for _ in 0..(if thorough { 1_000_000 } else { 60_000 }) {
                // mostly sparse values: 1..3 random bits, sometimes dense
                let x = match rng.below(4) {
                    0 => 1u64 << rng.below(64),
                    1 => (1u64 << rng.below(64)) | (1u64 << rng.below(64)),
                    2 => rng.next() & rng.next() & rng.next(),
                    _ => rng.next(),
                };
                c.emit("frombc/seeded", &format!("frombc {x}"));
            }
        }
        "C20" => {
            let deck = layout_deck();
            for w in deck {
                for m in 0u32..8 {
                    let x = w | (m << 29);
                    c.emit("acc/marked-card", &format!("acc {x}"));
                }
            }
            // marks applied to already marked cards (idempotence of every mark on every combination)
            let _ = &mut rng;
        }
        "C18" => {
            for i in 0u64..=60 {
                c.emit("deck/small", &format!("deck {i}"));
            }
            for k in 0..64u32 {
                let p = 1u64 << k;
                for i in [p.wrapping_sub(1), p, p.wrapping_add(1)] {
                    c.emit("deck/power-of-two", &format!("deck {i}"));
                }
            }
            c.emit("deck/max", &format!("deck {}", u64::MAX));
            for i in aliasing_indices() {
                c.emit("deck/aliasing (k + m * base * 2^j)", &format!("deck {i}"));
            }
            let n = if thorough { 200_000 } else { 20_000 };
            for _ in 0..n {
                let i = if rng.below(2) == 0 { rng.below(120) } else { rng.next() };
                c.emit("deck/seeded", &format!("deck {i}"));
            }
        }
        _ => panic!("no cases for {prop}"),
    }
}

pub fn sweep(prop: &str, thorough: bool, seed: u64) -> Sweep {
    match std::panic::catch_unwind(|| sweep_inner(prop, thorough, seed)) {
        Ok(s) => s,
        Err(_) => {
            // a call that the sweep does not guard individually panicked inside the crate
            let mut s = Sweep::default();
            s.evaluations = 1;
            s.nontrivial = 2;
            s.rule = "the sweep was aborted by a panic raised inside the crate".into();
            let msg = crate::LAST_PANIC.lock().map(|m| m.clone()).unwrap_or_default();
            s.fail("a call into the crate panicked where the property requires a normal return", &msg, "returns", "panic");
            s.sample(msg);
            s
        }
    }
}

fn sweep_inner(prop: &str, thorough: bool, seed: u64) -> Sweep {
    let _ = (thorough, seed);
    if matches!(prop, "C01" | "C02" | "C03" | "C05" | "C08" | "C09" | "C13" | "C04" | "C06") {
        if let Some(k) = find_hangs() {
            let mut s = Sweep::default();
            s.evaluations = 1;
            s.nontrivial = 2;
            s.rule = "termination probe of the product search (bounded wait on a helper thread)".into();
            s.fail("Five::find_in_products does not return (the ranking entry points that reach it cannot return either)", &k.to_string(), "returns an index", "still running after 30 s");
            s.sample(format!("find_in_products({k}) did not return"));
            return s;
        }
    }
    match prop {
        "C10" => sweep_c10(),
        "C18" => sweep_c18(seed, thorough),
        "C14" => sweep_c14(seed, thorough),
        "C01" => sweep_c01(seed, thorough),
        "C13" => sweep_c13(seed, thorough),
        "C05" => sweep_c05(seed, thorough),
        "C06" => {
            let mut s = sweep_c06();
            let t = sweep_sixseven("C06", seed, thorough);
            let rule = format!("{} | six- and seven-card hands (all six-card hands, shaped hands in every slot order, seeded hands): hand_rank() and hand_rank_validated() against the value, category and class of the best five cards", s.rule);
            s.merge(t);
            s.rule = rule;
            s
        }
        "C12" => sweep_c12(seed, thorough),
        "C19" => sweep_c19(seed, thorough),
        "C15" => sweep_c15(seed, thorough),
        "C16" => sweep_c16(seed, thorough),
        "C17" => sweep_c17(),
        "C11" => sweep_c11(seed, thorough),
        "C08" => sweep_c08(seed, thorough),
        "C04" => sweep_c04(seed, thorough),
        "C02" | "C03" | "C09" => sweep_sixseven(prop, seed, thorough),
        "C07" => sweep_c07(seed, thorough),
        "C20" => sweep_c20(),
        _ => panic!("no sweep for {prop}"),
    }
}

const RANK_CHARS: [char; 13] = ['2', '3', '4', '5', '6', '7', '8', '9', 'T', 'J', 'Q', 'K', 'A'];
const SUIT_GLYPHS: [char; 4] = ['♣', '♦', '♥', '♠'];
const SUIT_LETTERS: [char; 4] = ['C', 'D', 'H', 'S'];

/// debug rendering of a text with long runs of one character written as `<U+0020 x 65536>` (exact, but short)
pub fn show_text(t: &str) -> String {
    let cs: Vec<char> = t.chars().collect();
    let mut out = String::from("\"");
    let mut i = 0;
    while i < cs.len() {
        let mut j = i;
        while j < cs.len() && cs[j] == cs[i] { j += 1; }
        if j - i >= 24 {
            out.push_str(&format!("<U+{:04X} x {}>", cs[i] as u32, j - i));
        } else {
            for c in &cs[i..j] { out.extend(c.escape_debug()); }
        }
        i = j;
    }
    out.push('"');
    out
}

/// C10, implementation against the documented layout (no model involved).
fn sweep_c10() -> Sweep {
    let mut s = Sweep { exhaustive: true, ..Default::default() };
    s.rule = "52 named constants, deck entries, 70 constructor pairs and all accessors against the documented layout; \
              filter over all 2^32 words against membership in the 52 layout words; a case is non-trivial when the word is \
              one of the 52 cards or within one bit of one"
        .into();
    let named = named_cards();
    let deck = layout_deck();
    for (i, (name, w, _)) in named.iter().enumerate() {
        s.evaluations += 1;
        s.nontrivial += 1;
        if *w != deck[i] {
            s.fail("named constant differs from layout word", name, &deck[i].to_string(), &w.to_string());
        }
        if Deck::get(i) != deck[i] {
            s.fail("deck entry differs from layout word", &i.to_string(), &deck[i].to_string(), &Deck::get(i).to_string());
        }
    }
    for rank in 0u32..13 {
        for suit in 0u32..4 {
            let w = layout_word(rank, suit);
            s.evaluations += 1;
            s.nontrivial += 1;
            let r = CardRank::iter().find(|r| *r as u32 == rank + 2).unwrap();
            let su = CardSuit::iter().find(|x| *x as u32 == suit + 1).unwrap();
            let got = (
                <CKCNumber as PokerCard>::create(r, su),
                w.get_card_rank() as u32,
                w.get_card_suit() as u32,
                w.get_rank_prime(),
                w.get_rank_bit(),
                w.get_suit_bit(),
                w.get_rank_char(),
                w.get_suit_char(),
                w.get_suit_letter(),
                w.is_blank(),
            );
            let want = (
                w,
                rank + 2,
                suit + 1,
                PRIMES[rank as usize],
                1 << rank,
                1 << suit,
                RANK_CHARS[rank as usize],
                SUIT_GLYPHS[suit as usize],
                SUIT_LETTERS[suit as usize],
                false,
            );
            if got != want {
                s.fail("constructor/accessor differs from layout", &format!("rank {rank} suit {suit} word {w}"), &format!("{want:?}"), &format!("{got:?}"));
            }
            if s.samples.len() < 3 {
                s.sample(format!("rank {rank} suit {suit} word {w}: {got:?}"));
            }
        }
    }
    for r in CardRank::iter() {
        for su in CardSuit::iter() {
            if r == CardRank::BLANK || su == CardSuit::BLANK {
                s.evaluations += 1;
                let w = <CKCNumber as PokerCard>::create(r, su);
                if w != 0 {
                    s.fail("create with a blank member is not blank", &format!("{r:?} {su:?}"), "0", &w.to_string());
                }
            }
        }
    }
    // filter over all 2^32 words
    let mut sorted = deck;
    sorted.sort_unstable();
    let parts = threads() * 4;
    let bad: Vec<Vec<(u32, u32)>> = par_ranges(1 << 32, parts, |lo, hi| {
        let mut v = Vec::new();
        for w in lo..hi {
            let w = w as u32;
            let want = if sorted.binary_search(&w).is_ok() { w } else { 0 };
            let got = CardNumber::filter(w);
            if got != want && v.len() < 4 {
                v.push((w, got));
            }
        }
        v
    });
    s.evaluations += 1 << 32;
    s.nontrivial += 52 * 33;
    s.count("filter/all-2^32-words", 1 << 32);
    for (w, got) in bad.concat() {
        let want = if sorted.binary_search(&w).is_ok() { w } else { 0 };
        s.fail("filter differs from 'identity on the 52 cards, blank elsewhere'", &w.to_string(), &want.to_string(), &got.to_string());
    }
    s.sample(format!("filter({}) = {}", deck[0], CardNumber::filter(deck[0])));
    s.sample(format!("filter({}) = {}", deck[0] ^ 1, CardNumber::filter(deck[0] ^ 1)));
    s
}

/// all k-subsets of 0..n as increasing index vectors, lexicographic
pub fn index_combos(n: usize, k: usize) -> Vec<Vec<usize>> {
    fn go(start: usize, n: usize, k: usize, cur: &mut Vec<usize>, out: &mut Vec<Vec<usize>>) {
        if cur.len() == k {
            out.push(cur.clone());
            return;
        }
        for i in start..n {
            cur.push(i);
            go(i + 1, n, k, cur, out);
            cur.pop();
        }
    }
    let mut out = Vec::new();
    go(0, n, k, &mut Vec::new(), &mut out);
    out
}

/// C18, implementation against the description of each table.
fn sweep_c18(seed: u64, thorough: bool) -> Sweep {
    let mut s = Sweep { exhaustive: true, ..Default::default() };
    s.rule = "every entry of the deck, the six preset tables and the three slot-index tables against an independently \
              enumerated list of the combinations it should hold; Deck::get on every index class; non-trivial = table entry or in-range index"
        .into();
    let deck = layout_deck();
    let arr = ckc_rs::deck::POKER_DECK.arr();
    for i in 0..52 {
        s.evaluations += 1;
        s.nontrivial += 1;
        if arr[i] != deck[i] {
            s.fail("deck entry", &i.to_string(), &deck[i].to_string(), &arr[i].to_string());
        }
    }
    if Deck::len() != 52 {
        s.fail("deck length", "Deck::len()", "52", &Deck::len().to_string());
    }
    // Deck::get
    let mut idx: Vec<usize> = (0..200).collect();
    for k in 0..64 {
        let p = 1usize << k;
        idx.extend([p.wrapping_sub(1), p, p.wrapping_add(1)]);
    }
    idx.push(usize::MAX);
    idx.extend(aliasing_indices().into_iter().map(|i| i as usize));
    let mut rng = Rng::new(seed ^ 0x18);
    for _ in 0..(if thorough { 1_000_000 } else { 100_000 }) {
        idx.push(rng.next() as usize);
    }
    for i in idx {
        s.evaluations += 1;
        let want = if i < 52 { deck[i] } else { 0 };
        match guarded(|| Deck::get(i)) {
            Some(g) if g == want => {}
            Some(g) => s.fail("Deck::get", &i.to_string(), &want.to_string(), &g.to_string()),
            None => s.fail("Deck::get panics", &i.to_string(), &want.to_string(), "panic"),
        }
    }
    s.sample(format!("Deck::get(51) = {}, Deck::get(52) = {}, Deck::get(usize::MAX) = {}", Deck::get(51), Deck::get(52), Deck::get(usize::MAX)));
    // presets
    let w = layout_word;
    let suits = [3u32, 2, 1, 0];
    let mut aa = Vec::new();
    for c in index_combos(4, 2) {
        aa.push([w(12, suits[c[0]]), w(12, suits[c[1]])]);
    }
    let big = |k: u32| -> (Vec<[u32; 2]>, Vec<[u32; 2]>) {
        let mut su = Vec::new();
        let mut off = Vec::new();
        for a in suits {
            su.push([w(12, a), w(k, a)]);
            for b in suits {
                if a != b {
                    off.push([w(12, a), w(k, b)]);
                }
            }
        }
        (su, off)
    };
    let (aks, ako) = big(11);
    let (aqs, aqo) = big(10);
    let ak: Vec<[u32; 2]> = aks.iter().chain(ako.iter()).copied().collect();
    let tabs: Vec<(&str, Vec<[u32; 2]>, Vec<[u32; 2]>)> = vec![
        ("AA", Two::AA.iter().map(|t| t.to_arr()).collect(), aa),
        ("AK", Two::AK.iter().map(|t| t.to_arr()).collect(), ak),
        ("AKs", Two::AKs.iter().map(|t| t.to_arr()).collect(), aks),
        ("AKo", Two::AKo.iter().map(|t| t.to_arr()).collect(), ako),
        ("AQs", Two::AQs.iter().map(|t| t.to_arr()).collect(), aqs),
        ("AQo", Two::AQo.iter().map(|t| t.to_arr()).collect(), aqo),
    ];
    for (name, got, want) in tabs {
        s.evaluations += want.len() as u64;
        s.nontrivial += want.len() as u64;
        if got != want {
            // name the first differing / missing / duplicated entry
            let pos = got.iter().zip(want.iter()).position(|(a, b)| a != b).unwrap_or(got.len().min(want.len()));
            s.fail(
                &format!("preset table {name} differs from its description"),
                &format!("{name}[{pos}]"),
                &format!("{:?}", want.get(pos)),
                &format!("{:?}", got.get(pos)),
            );
        }
        s.sample(format!("{name}: {} entries, first {:?}", got.len(), got.first()));
    }
    let tables: Vec<(&str, Vec<Vec<usize>>, Vec<Vec<usize>>)> = vec![
        ("OMAHA_PERMUTATIONS", Four::OMAHA_PERMUTATIONS.iter().map(|r| r.iter().map(|x| *x as usize).collect()).collect(), index_combos(4, 2)),
        ("Six::FIVE_CARD_PERMUTATIONS", Six::FIVE_CARD_PERMUTATIONS.iter().map(|r| r.iter().map(|x| *x as usize).collect()).collect(), index_combos(6, 5)),
        ("Seven::FIVE_CARD_PERMUTATIONS", Seven::FIVE_CARD_PERMUTATIONS.iter().map(|r| r.iter().map(|x| *x as usize).collect()).collect(), index_combos(7, 5)),
    ];
    for (name, got, want) in tables {
        s.evaluations += want.len() as u64;
        s.nontrivial += want.len() as u64;
        if got != want {
            let pos = got.iter().zip(want.iter()).position(|(a, b)| a != b).unwrap_or(got.len().min(want.len()));
            s.fail(&format!("slot table {name}"), &format!("{name}[{pos}]"), &format!("{:?}", want.get(pos)), &format!("{:?}", got.get(pos)));
        }
    }
    s
}

/// C14, implementation against "bit 51 - deck index, inverse on the 52, blank / empty elsewhere".
fn sweep_c14(seed: u64, thorough: bool) -> Sweep {
    let mut s = Sweep::default();
    s.rule = "from_ckc over all 2^32 words and from_binary_card over 0, all single bits, all two-bit values, card|overflow mixes and \
              seeded 64-bit values against the deck-order bit assignment; non-trivial = one of the 52 cards / card bits or within one bit of one"
        .into();
    let deck = layout_deck();
    let mut sorted: Vec<(u32, u64)> = deck.iter().enumerate().map(|(i, w)| (*w, 1u64 << (51 - i))).collect();
    sorted.sort_unstable();
    let parts = threads() * 4;
    let bad: Vec<(u32, u64)> = par_ranges(1 << 32, parts, |lo, hi| {
        let mut v = Vec::new();
        for w in lo..hi {
            let w = w as u32;
            let want = match sorted.binary_search_by_key(&w, |p| p.0) {
                Ok(k) => sorted[k].1,
                Err(_) => 0,
            };
            let got = <BinaryCard as BC64>::from_ckc(w);
            if got != want && v.len() < 4 {
                v.push((w, got));
            }
        }
        v
    })
    .concat();
    s.evaluations += 1 << 32;
    s.count("from_ckc/all-2^32-words", 1 << 32);
    s.nontrivial += 52 * 33;
    for (w, got) in bad {
        let want = sorted.iter().find(|p| p.0 == w).map(|p| p.1).unwrap_or(0);
        s.fail("from_ckc", &w.to_string(), &want.to_string(), &got.to_string());
    }
    let want_bc = |x: u64| -> u32 {
        if x.count_ones() == 1 && x.trailing_zeros() < 52 { deck[51 - x.trailing_zeros() as usize] } else { 0 }
    };
    let mut check = |s: &mut Sweep, x: u64, kind: &str| {
        s.evaluations += 1;
        s.count(kind, 1);
        match guarded(|| <CKCNumber as PokerCard>::from_binary_card(x)) {
            Some(got) if got == want_bc(x) => {}
            Some(got) => s.fail("from_binary_card", &x.to_string(), &want_bc(x).to_string(), &got.to_string()),
            None => s.fail("from_binary_card panics", &x.to_string(), &want_bc(x).to_string(), "panic"),
        }
    };
    check(&mut s, 0, "from_bc/zero");
    for i in 0..64 {
        check(&mut s, 1 << i, "from_bc/single-bit");
        s.nontrivial += 1;
        for j in 0..i {
            check(&mut s, (1 << i) | (1 << j), "from_bc/two-bits");
        }
    }
    for i in 0..52 {
        let w = deck[51 - i];
        let b = <BinaryCard as BC64>::from_ckc(w);
        s.evaluations += 1;
        if <CKCNumber as PokerCard>::from_binary_card(b) != w || b != 1 << i {
            s.fail("round trip word -> bit -> word", &w.to_string(), &w.to_string(), &<CKCNumber as PokerCard>::from_binary_card(b).to_string());
        }
    }
    // structured sets: every contiguous run of bits (alone, plus and minus one bit), rank groups, boundaries
    {
        let mut rng = Rng::new(seed ^ 0xB175);
        for x in bit_sets(&mut rng, 0) {
            check(&mut s, x, "from_bc/structured-set");
        }
    }
    let n: u64 = if thorough { 1_000_000_000 } else { 20_000_000 };
    let bad: Vec<(u64, u32)> = par_ranges(n, parts, |lo, hi| {
        let mut rng = Rng::new(seed ^ lo.wrapping_mul(0x9E37));
        let mut v = Vec::new();
        for k in lo..hi {
            let x = match k % 4 {
                0 => (1u64 << rng.below(64)) | (1u64 << rng.below(64)),
                1 => rng.next() & rng.next() & rng.next(),
                2 => (1u64 << rng.below(52)) | (rng.next() & rng.next() & rng.next() & rng.next()),
                _ => rng.next(),
            };
            let want = if x.count_ones() == 1 && x.trailing_zeros() < 52 { deck[51 - x.trailing_zeros() as usize] } else { 0 };
            let got = guarded(|| <CKCNumber as PokerCard>::from_binary_card(x)).unwrap_or(u32::MAX);
            if got != want && v.len() < 4 {
                v.push((x, got));
            }
        }
        v
    })
    .concat();
    s.evaluations += n;
    s.count("from_bc/seeded-64-bit", n);
    for (x, got) in bad {
        s.fail("from_binary_card", &x.to_string(), &want_bc(x).to_string(), &(if got == u32::MAX { "panic".to_string() } else { got.to_string() }));
    }
    s.sample(format!("from_ckc({}) = {}", deck[0], <BinaryCard as BC64>::from_ckc(deck[0])));
    s.sample(format!("from_binary_card(1) = {}", <CKCNumber as PokerCard>::from_binary_card(1)));
    s.sample(format!("from_binary_card(3) = {}", <CKCNumber as PokerCard>::from_binary_card(3)));
    s.notes.push("the 2^64 domain of from_binary_card is sampled, not swept".into());
    s
}

/// C20: 52 cards x 8 mark combinations x 52 unmarked cards.
fn sweep_c20() -> Sweep {
    let mut s = Sweep { exhaustive: true, ..Default::default() };
    s.rule = "all 52 cards x 8 combinations of marks: fields, idempotence, strip; x all 52 x 8 second words for the order clauses; every case is non-trivial".into();
    let deck = layout_deck();
    let mark = |m: u32, w: u32| -> u32 {
        let mut x = w;
        if m & 1 != 0 { x = x.flag_as_pair(); }
        if m & 2 != 0 { x = x.flag_as_trips(); }
        if m & 4 != 0 { x = x.flag_as_quads(); }
        x
    };
    // the same operations through a `&mut u32` receiver (what `for c in hand.iter_mut() { *c = c.flag_as_pair() }` does) and a `&u32` one
    for &w in &deck {
        for m in 0u32..8 {
            let x = mark(m, w);
            // every reader of the card: a mark must not change what any of them returns
            s.evaluations += 1;
            let readers = |c: u32| (c.get_card_rank(), c.get_card_suit(), c.get_rank_prime(), c.get_rank_bit(), c.get_rank_flag(), c.get_suit_bit(), c.get_suit_flag(),
                c.get_rank_char(), c.get_suit_char(), c.get_suit_letter(), c.get_chen_points().to_bits(), c.next_suit());
            match (guarded(|| readers(x)), guarded(|| readers(w))) {
                (Some(a), Some(b)) if a == b => {}
                (a, b) => s.fail("a reader returns something else for the marked card than for the card (rank, suit, prime, rank bit/flag, suit bit/flag, three characters, chen points, next suit)", &format!("{w} marks {m}"), &format!("{b:?}"), &format!("{a:?}")),
            }
            let mut y = x;
            let via_mut = { let c: &mut u32 = &mut y; (c.flag_as_pair(), c.flag_as_trips(), c.flag_as_quads(), c.strip_multiples_flags(), c.get_card_rank(), c.get_card_suit(), c.get_rank_prime()) };
            let via_ref = { let c: &u32 = &x; (c.flag_as_pair(), c.flag_as_trips(), c.flag_as_quads(), c.strip_multiples_flags(), c.get_card_rank(), c.get_card_suit(), c.get_rank_prime()) };
            let direct = (x.flag_as_pair(), x.flag_as_trips(), x.flag_as_quads(), x.strip_multiples_flags(), x.get_card_rank(), x.get_card_suit(), x.get_rank_prime());
            s.evaluations += 1;
            if via_mut != direct || via_ref != direct {
                s.fail("marking / stripping / reading through a &mut or & receiver differs from the same call on the value", &format!("{w} marks {m}"), &format!("{direct:?}"), &format!("&mut {via_mut:?} & {via_ref:?}"));
            }
        }
    }
    // marks applied in every order to every card (an order-dependent assertion shows here), under catch_unwind
    for &w in &deck {
        for seq in [[0u8, 1, 2], [0, 2, 1], [1, 0, 2], [1, 2, 0], [2, 0, 1], [2, 1, 0]] {
            for len in 1..=3 {
                s.evaluations += 1;
                let got = guarded(|| {
                    let mut x = w;
                    for k in &seq[..len] {
                        x = match k { 0 => x.flag_as_pair(), 1 => x.flag_as_trips(), _ => x.flag_as_quads() };
                        x = match k { 0 => x.flag_as_pair(), 1 => x.flag_as_trips(), _ => x.flag_as_quads() };
                    }
                    (x, x.strip_multiples_flags())
                });
                let want_bits = seq[..len].iter().fold(0u32, |a, k| a | (1 << (29 + *k as u32)));
                if got != Some((w | want_bits, w)) {
                    s.fail("marking in some order (each mark applied twice) does not give the card with those marks / panics", &format!("{w} marks in order {:?}", &seq[..len]), &format!("{:?}", (w | want_bits, w)), &format!("{got:?}"));
                }
            }
        }
    }
    for &w in &deck {
        for m in 0u32..8 {
            let Some(x) = guarded(|| mark(m, w)) else { s.fail("marking panics", &format!("{w} marks {m}"), "returns", "panic"); continue; };
            s.evaluations += 1;
            s.nontrivial += 1;
            let same_fields = x.get_card_rank() == w.get_card_rank()
                && x.get_card_suit() == w.get_card_suit()
                && x.get_rank_prime() == w.get_rank_prime()
                && x.get_rank_char() == w.get_rank_char()
                && x.get_suit_char() == w.get_suit_char()
                && x.get_suit_letter() == w.get_suit_letter();
            if x != (w | (m << 29)) {
                s.fail("marking changes bits other than 29..31", &format!("{w} marks {m}"), &(w | (m << 29)).to_string(), &x.to_string());
            }
            if !same_fields {
                s.fail("a field reads differently on the marked word", &format!("{w} marks {m}"), "same rank/suit/prime/chars", &x.to_string());
            }
            if mark(m, x) != x {
                s.fail("marking is not idempotent", &format!("{w} marks {m}"), &x.to_string(), &mark(m, x).to_string());
            }
            if x.strip_multiples_flags() != w {
                s.fail("strip does not return the card", &format!("{w} marks {m}"), &w.to_string(), &x.strip_multiples_flags().to_string());
            }
            for &v in &deck {
                for m2 in 0u32..8 {
                    let y = mark(m2, v);
                    s.evaluations += 1;
                    let ok = (m == 0 || x > v)
                        && (!(m & 4 != 0 && m2 & 4 == 0) || x > y)
                        && (!(m & 2 != 0 && m & 4 == 0 && m2 < 2) || x > y);
                    if !ok {
                        s.fail("marks do not dominate numeric order", &format!("{w} marks {m} vs {v} marks {m2}"), "greater", &format!("{x} vs {y}"));
                    }
                }
            }
        }
    }
    s.sample(format!("mark(5, {}) = {}", deck[0], mark(5, deck[0])));
    s.sample(format!("strip({}) = {}", mark(7, deck[51]), mark(7, deck[51]).strip_multiples_flags()));
    s
}

/// C01: all 2,598,960 hands x slot orders x entry points against the spec-derived ordinal.
fn sweep_c01(seed: u64, thorough: bool) -> Sweep {
    let oracle = Oracle5::load();
    let deck = layout_deck();
    let mut rng = Rng::new(seed ^ 0xC01);
    let perms: Vec<usize> = if thorough { (0..120).collect() } else { vec![0, 1 + rng.below(119) as usize, 1 + rng.below(119) as usize] };
    let all_orders: Vec<usize> = if thorough { Vec::new() } else { (0..120).collect() };
    let parts: Vec<(Sweep, Vec<bool>)> = par_ranges(48, 48, |lo, hi| {
        let mut s = Sweep::default();
        let mut prev = Five::default();
        let mut seen = vec![false; 7463];
        for a in lo as usize..hi as usize {
            for b in a + 1..52 {
                for c in b + 1..52 {
                    for d in c + 1..52 {
                        for e in d + 1..52 {
                            let idx = [a, b, c, d, e];
                            let (want, _) = oracle.of_indices(&idx);
                            // quick tier: every 16th hand is taken through all 120 slot orders
                            let every = !all_orders.is_empty() && (a * 7 + b * 5 + c * 3 + d + e) % 16 == 0;
                            for &p in if every { &all_orders } else { &perms } {
                                let pm = perm5(p);
                                let arr = [deck[idx[pm[0]]], deck[idx[pm[1]]], deck[idx[pm[2]]], deck[idx[pm[3]]], deck[idx[pm[4]]]];
                                let h = Five::from(arr);
                                let got = guarded(|| {
                                    let (v, hand) = h.hand_rank_value_and_hand();
                                    (v, h.hand_rank_value(), h.hand_rank_value_validated(), ckc_rs::evaluate::five_cards(arr), h.hand_rank().value, hand.to_arr() == arr)
                                });
                                s.evaluations += 1;
                                let mut good = got == Some((want, want, want, want, want, true));
                                if p == perms[0] || every {
                                    // the same words written slot by slot over the hand ranked just before
                                    let via = five_via_setters(prev, arr);
                                    prev = via;
                                    s.evaluations += 1;
                                    let g2 = guarded(|| (via.hand_rank_value(), via.hand_rank_value_validated(), via.hand_rank().value, via.to_arr() == arr));
                                    if g2 != Some((want, want, want, true)) {
                                        good = false;
                                        s.fail("five-card value of a hand built with the setters differs from the strength ordinal (value, validated, hand_rank.value, slots as written)", &join(arr), &want.to_string(), &format!("{g2:?}"));
                                    }
                                }
                                if got != Some((want, want, want, want, want, true)) {
                                    s.fail(
                                        "five-card value differs from the strength ordinal (and_hand, value, validated, five_cards, hand_rank.value, hand unchanged)",
                                        &join(arr),
                                        &want.to_string(),
                                        &format!("{got:?}"),
                                    );
                                } else if (want as usize) < seen.len() {
                                    seen[want as usize] = true;
                                }
                            }
                        }
                    }
                }
            }
        }
        (s, seen)
    });
    let mut s = Sweep { exhaustive: true, ..Default::default() };
    let mut seen = vec![false; 7463];
    for (part, sn) in parts {
        s.merge(part);
        for (i, b) in sn.iter().enumerate() {
            seen[i] |= b;
        }
    }
    let produced = (1..=7462).filter(|v| seen[*v]).count();
    if produced != 7462 && s.failure_count == 0 {
        let missing = (1..=7462).find(|v| !seen[*v]).unwrap();
        s.fail("a value in 1..=7462 is produced by no hand", &missing.to_string(), "some hand", "none");
    }
    s.nontrivial = s.evaluations;
    s.count("hands", 2_598_960);
    s.count("slot-orders-per-hand", perms.len() as u64);
    s.count("distinct-values-produced", produced as u64);
    s.count("oracle-classes", oracle.classes as u64);
    s.rule = format!(
        "all 2,598,960 five-card hands x {} slot orders ({}; in the quick tier every 16th hand goes through all 120 orders), five entry points each, against the ordinal of the hand's class in the \
         order by Spec.strength (oracle written by the Lean specification, no table involved); every (hand, order) is distinct and non-trivial",
        perms.len(),
        if thorough { "all 120" } else { "canonical + 2 seeded" }
    );
    s.sample(format!("royal flush {} -> {}", join(&deck[0..5]), Five::from([deck[0], deck[1], deck[2], deck[3], deck[4]]).hand_rank_value()));
    s.sample(format!("7-5-4-3-2 -> {}", Five::from([deck[46], deck[35], deck[23], deck[11], deck[12]]).hand_rank_value()));
    s
}

/// C13: predicates against the layout-derived truth, all hands x slot orders.
fn sweep_c13(seed: u64, thorough: bool) -> Sweep {
    let deck = layout_deck();
    let mut rng = Rng::new(seed ^ 0xC13);
    let perms: Vec<usize> = if thorough { (0..120).collect() } else { vec![0, 1 + rng.below(119) as usize, 1 + rng.below(119) as usize] };
    let all_orders: Vec<usize> = if thorough { Vec::new() } else { (0..120).collect() };
    let parts: Vec<Sweep> = par_ranges(48, 48, |lo, hi| {
        let mut s = Sweep::default();
        let mut prev = Five::default();
        for a in lo as usize..hi as usize {
            for b in a + 1..52 {
                for c in b + 1..52 {
                    for d in c + 1..52 {
                        for e in d + 1..52 {
                            let idx = [a, b, c, d, e];
                            let mut mask = 0u32;
                            let mut flush = true;
                            for k in 0..5 {
                                mask |= 1 << (12 - idx[k] % 13);
                                flush &= idx[k] / 13 == idx[0] / 13;
                            }
                            let wheel = mask == 0b1_0000_0000_1111;
                            let straight = wheel || (0..9).any(|lo| mask == 0b11111 << lo);
                            if straight { s.nontrivial += perms.len() as u64; }
                            if flush { s.nontrivial += perms.len() as u64; }
                            let every = !all_orders.is_empty() && (a * 7 + b * 5 + c * 3 + d + e) % 16 == 0;
                            for &p in if every { &all_orders } else { &perms } {
                                let pm = perm5(p);
                                let arr = [deck[idx[pm[0]]], deck[idx[pm[1]]], deck[idx[pm[2]]], deck[idx[pm[3]]], deck[idx[pm[4]]]];
                                // the same five words, built directly and by overwriting the slots of the hand examined just
                                // before (anything a container derives from its slots at construction must follow the setters)
                                let via = five_via_setters(prev, arr);
                                prev = via;
                                for (how, h) in [("", Five::from(arr)), (" (built with the setters from the previous hand)", via)] {
                                s.evaluations += 1;
                                let Some(got) = guarded(|| (h.is_flush(), h.is_straight(), h.is_straight_flush(), h.is_wheel(), ckc_rs::evaluate::is_flush(arr), ckc_rs::evaluate::or_rank_bits(arr) as u32)) else {
                                    s.fail(&format!("a predicate panics on five distinct real cards{how}"), &join(arr), "returns", "panic");
                                    continue;
                                };
                                if h.to_arr() != arr || h.or_rank_bits() != (ckc_rs::evaluate::or_rank_bits(arr) as u32) {
                                    s.fail(&format!("slots / OR of the rank bits differ from the words put in{how}"), &join(arr), &join(arr), &format!("{} or_rank_bits {}", join(h.to_arr()), h.or_rank_bits()));
                                }
                                let want = (flush, straight, straight && flush, wheel, flush, mask);
                                if got != want {
                                    s.fail("predicate differs from the cards (flush, straight, straight_flush, wheel, evaluate::is_flush, evaluate::or_rank_bits)", &join(arr), &format!("{want:?}"), &format!("{got:?}"));
                                }
                                // agreement with the category obtained by ranking the same hand
                                use ckc_rs::hand_rank::HandRankName as N;
                                if let Some(name) = guarded(|| h.hand_rank().name) {
                                    let cat_straight = matches!(name, N::Straight | N::StraightFlush);
                                    let cat_flush = matches!(name, N::Flush | N::StraightFlush);
                                    if cat_straight != got.1 || cat_flush != got.0 || (name == N::StraightFlush) != got.2 {
                                        s.fail("predicate disagrees with the category of the hand's rank", &join(arr), &format!("{name:?}"), &format!("{got:?}"));
                                    }
                                } else {
                                    s.fail("hand_rank panics", &join(arr), "a rank", "panic");
                                }
                                }
                            }
                        }
                    }
                }
            }
        }
        s
    });
    let mut s = Sweep { exhaustive: true, ..Default::default() };
    for p in parts {
        s.merge(p);
    }
    s.count("hands", 2_598_960);
    s.count("slot-orders-per-hand", perms.len() as u64);
    s.rule = format!("all 2,598,960 five-card hands x {} slot orders: four predicates and two deprecated free functions against suits/rank sets read from the layout, and against the category of hand_rank(); non-trivial = the hand is a straight or a flush", perms.len());
    let h = Five::from([deck[8], deck[9], deck[23], deck[38], deck[51]]);
    s.sample(format!("6S 5S 4H 2D 2C: is_straight = {:?}", guarded(|| h.is_straight())));
    let w = Five::from([deck[0], deck[9], deck[23], deck[37], deck[51]]);
    s.sample(format!("AS 5S 4H 3D 2C: is_straight = {:?}, is_wheel = {:?}", guarded(|| w.is_straight()), guarded(|| w.is_wheel())));
    s
}

/// C05: no entry point panics on card-or-blank hands; a blank five is value 0 / Invalid.
fn sweep_c05(seed: u64, thorough: bool) -> Sweep {
    use ckc_rs::hand_rank::{HandRankClass, HandRankName};
    let sym = deck_blank();
    let mut total = Sweep { exhaustive: true, ..Default::default() };
    // five slots: all multisets, canonical order and one seeded order each (all orders of the multiset in thorough
    // are covered by sweeping ordered arrays below)
    let five = |arr: [u32; 5], s: &mut Sweep| {
        s.evaluations += 1;
        let h = Five::from(arr);
        let r = guarded(|| {
            let (v, _) = h.hand_rank_value_and_hand();
            let hr = h.hand_rank();
            (v, h.hand_rank_value(), h.hand_rank_value_validated(), ckc_rs::evaluate::five_cards(arr), hr.value, hr.name, hr.class, h.hand_rank_validated().value)
        });
        let blank = arr.contains(&0);
        if blank { s.nontrivial += 1; }
        match r {
            None => s.fail("a five-slot ranking entry point panics on a card-or-blank hand", &join(arr), "returns", "panic"),
            Some((v, v2, vv, fc, hv, name, class, hvv)) => {
                if blank && !(v == 0 && v2 == 0 && vv == 0 && fc == 0 && hv == 0 && hvv == 0 && name == HandRankName::Invalid && class == HandRankClass::Invalid) {
                    s.fail("a five-slot hand holding a blank is given a real rank", &join(arr), "value 0, Invalid", &format!("{:?}", (v, v2, vv, fc, hv, name, class)));
                }
            }
        }
    };
    let parts: Vec<Sweep> = par_ranges(53, 53, |lo, hi| {
        let mut s = Sweep::default();
        let mut rng = Rng::new(seed ^ (lo << 8) ^ 0xC05);
        for a in lo as usize..hi as usize {
            for b in a..53 {
                for c in b..53 {
                    for d in c..53 {
                        for e in d..53 {
                            let mut arr = [sym[a], sym[b], sym[c], sym[d], sym[e]];
                            five(arr, &mut s);
                            rng.shuffle(&mut arr);
                            five(arr, &mut s);
                        }
                    }
                }
            }
        }
        s
    });
    for p in parts { total.merge(p); }
    total.count("five-slot multisets over {52 cards, blank}", 4_187_106);
    if thorough {
        // every ordered five-slot array: 53^5
        let parts: Vec<Sweep> = par_ranges(53 * 53, 53 * 53, |lo, hi| {
            let mut s = Sweep::default();
            for ab in lo as usize..hi as usize {
                for c in 0..53 {
                    for d in 0..53 {
                        for e in 0..53 {
                            five([sym[ab / 53], sym[ab % 53], sym[c], sym[d], sym[e]], &mut s);
                        }
                    }
                }
            }
            s
        });
        for p in parts { total.merge(p); }
        total.count("ordered five-slot arrays (53^5)", 418_195_493);
    }
    // six slots: all multisets
    let six = |ws: [u32; 6], s: &mut Sweep| {
        s.evaluations += 1;
        let h = Six::from(ws);
        if guarded(|| (h.hand_rank_value_and_hand(), h.hand_rank_value(), h.hand_rank_value_validated(), h.hand_rank())).is_none() {
            s.fail("a six-slot ranking entry point panics on a card-or-blank hand", &join(ws), "returns", "panic");
        }
    };
    let parts: Vec<Sweep> = par_ranges(53, 53, |lo, hi| {
        let mut s = Sweep::default();
        for a in lo as usize..hi as usize {
            for b in a..53 { for c in b..53 { for d in c..53 { for e in d..53 { for f in e..53 {
                six([sym[a], sym[b], sym[c], sym[d], sym[e], sym[f]], &mut s);
            } } } } }
        }
        s
    });
    for p in parts { total.merge(p); }
    total.count("six-slot multisets over {52 cards, blank}", 40_475_358);
    let seven = |ws: [u32; 7], s: &mut Sweep| {
        s.evaluations += 1;
        let h = Seven::from(ws);
        if guarded(|| (h.hand_rank_value_and_hand(), h.hand_rank_value(), h.hand_rank_value_validated(), h.hand_rank())).is_none() {
            s.fail("a seven-slot ranking entry point panics on a card-or-blank hand", &join(ws), "returns", "panic");
        }
    };
    if thorough {
        let parts: Vec<Sweep> = par_ranges(53, 53, |lo, hi| {
            let mut s = Sweep::default();
            for a in lo as usize..hi as usize {
                for b in a..53 { for c in b..53 { for d in c..53 { for e in d..53 { for f in e..53 { for g in f..53 {
                    seven([sym[a], sym[b], sym[c], sym[d], sym[e], sym[f], sym[g]], &mut s);
                } } } } } }
            }
            s
        });
        for p in parts { total.merge(p); }
        total.count("seven-slot multisets over {52 cards, blank}", 341_149_446);
    } else {
        total.exhaustive = false;
        let n = 2_000_000u64;
        let parts: Vec<Sweep> = par_ranges(n, threads(), |lo, hi| {
            let mut s = Sweep::default();
            let mut rng = Rng::new(seed ^ lo ^ 0x7C05);
            for _ in lo..hi {
                let blanks = rng.below(5);
                let mut ws = [0u32; 7];
                for w in ws.iter_mut() {
                    *w = if rng.below(7) < blanks { 0 } else { sym[rng.below(52) as usize] };
                }
                seven(ws, &mut s);
            }
            s
        });
        for p in parts { total.merge(p); }
        total.count("seven-slot seeded card-or-blank hands", n);
    }
    // defaults
    for (name, ok) in [
        ("Five::default", guarded(|| Five::default().hand_rank()).map(|r| r.is_invalid())),
        ("Six::default", guarded(|| Six::default().hand_rank()).map(|r| r.is_invalid())),
        ("Seven::default", guarded(|| Seven::default().hand_rank()).map(|r| r.is_invalid())),
    ] {
        total.evaluations += 1;
        if ok != Some(true) {
            total.fail("ranking a default (all blank) hand", name, "Invalid rank", &format!("{ok:?}"));
        }
    }
    // the public product search
    let mut rng = Rng::new(seed ^ 0xF1D);
    let keys = find_keys(&mut rng, if thorough { 2_000_000 } else { 200_000 });
    for k in keys {
        total.evaluations += 1;
        match guarded(|| Five::find_in_products(k as usize)) {
            Some(j) if j < 4888 => {}
            other => total.fail("find_in_products does not return an in-range index", &k.to_string(), "index < 4888", &format!("{other:?}")),
        }
    }
    if thorough {
        let n = 1u64 << 27;
        let bad: Vec<u64> = par_ranges(n, threads() * 4, |lo, hi| {
            let mut v = Vec::new();
            for k in lo..hi {
                match guarded(|| Five::find_in_products(k as usize)) {
                    Some(j) if j < 4888 => {}
                    _ => if v.len() < 2 { v.push(k) },
                }
            }
            v
        }).concat();
        total.evaluations += n;
        total.count("find_in_products keys 0..2^27", n);
        for k in bad {
            total.fail("find_in_products does not return an in-range index", &k.to_string(), "index < 4888", "panic or out of range");
        }
    }
    total.rule = "every five-slot multiset over {52 cards, blank} in canonical and one seeded order (all 53^5 ordered arrays in thorough), every six-slot multiset, seven-slot hands (seeded; all multisets in thorough), the three defaults, and the product search on structured + seeded keys, all under catch_unwind; non-trivial = the hand holds a blank".into();
    total.sample(format!("AS KS QS JS BLANK -> {:?}", guarded(|| Five::from([sym[0], sym[1], sym[2], sym[3], 0]).hand_rank())));
    total.sample(format!("Seven::default() -> {:?}", guarded(|| Seven::default().hand_rank_value())));
    total.sample(format!("find_in_products(0) = {:?}, (47) = {:?}", guarded(|| Five::find_in_products(0)), guarded(|| Five::find_in_products(47))));
    total
}

/// C06: every 16-bit value and every five-card hand against the names written by the Lean specification.
fn sweep_c06() -> Sweep {
    let oracle = Oracle5::load();
    let mut s = Sweep { exhaustive: true, ..Default::default() };
    let mut last_class: Option<String> = None;
    let mut seen_classes: Vec<String> = Vec::new();
    for v in 0u32..65536 {
        s.evaluations += 1;
        let hrv = v as u16;
        let r = HandRank::from(hrv);
        let valid = (1..=7462).contains(&v);
        if valid { s.nontrivial += 1; }
        let (want_cat, want_class) = if valid { (oracle.cat_name[v as usize].clone(), oracle.class_name[v as usize].clone()) } else { ("Invalid".to_string(), "Invalid".to_string()) };
        let got = (format!("{:?}", r.name), format!("{:?}", r.class));
        if got != (want_cat.clone(), want_class.clone()) || r.value != hrv {
            s.fail("HandRank::from(value) does not describe the class of that strength ordinal", &v.to_string(), &format!("{want_cat} {want_class}"), &format!("{} {} value {}", got.0, got.1, r.value));
        }
        // every way of spelling the conversion: path call (binds to an inherent `from` if one exists), the `From` trait itself,
        // `Into`, and generic code
        fn generic_from<T: From<u16>>(v: u16) -> T { T::from(v) }
        let by_trait = <HandRank as From<u16>>::from(hrv);
        let by_into: HandRank = hrv.into();
        let by_generic: HandRank = generic_from(hrv);
        if by_trait != r || by_into != r || by_generic != r {
            s.fail("the conversion differs between HandRank::from, <HandRank as From<u16>>::from, .into() and generic T::from", &v.to_string(), &format!("{r:?}"), &format!("{by_trait:?} {by_into:?} {by_generic:?}"));
        }
        if r.is_invalid() == valid || !r.is_a_valid_hand_rank() {
            s.fail("is_invalid / is_a_valid_hand_rank", &v.to_string(), &format!("is_invalid = {}, consistent", !valid), &format!("is_invalid = {}, consistent = {}", r.is_invalid(), r.is_a_valid_hand_rank()));
        }
        if valid {
            if last_class.as_ref() != Some(&got.1) {
                if seen_classes.contains(&got.1) {
                    s.fail("a class covers two separate value ranges", &v.to_string(), "contiguous", &got.1);
                }
                seen_classes.push(got.1.clone());
                last_class = Some(got.1.clone());
            }
        }
    }
    if seen_classes.len() != 309 && s.failure_count == 0 {
        s.fail("number of non-Invalid classes with a non-empty value range", "1..=7462", "309", &seen_classes.len().to_string());
    }
    if HandRank::default() != HandRank::from(0) {
        s.fail("HandRank::default", "default", "from(0)", &format!("{:?}", HandRank::default()));
    }
    s.count("values", 65536);
    // link to the cards: every five-card hand's reported rank names the hand's own class
    let deck = layout_deck();
    let parts: Vec<Sweep> = par_ranges(48, 48, |lo, hi| {
        let mut p = Sweep::default();
        for a in lo as usize..hi as usize {
            for b in a + 1..52 { for c in b + 1..52 { for d in c + 1..52 { for e in d + 1..52 {
                let idx = [a, b, c, d, e];
                let (ord, _) = oracle.of_indices(&idx);
                // a rotated slot order, so that not only the canonical order is seen
                let arr = [deck[idx[(a + 1) % 5]], deck[idx[(a + 2) % 5]], deck[idx[(a + 3) % 5]], deck[idx[(a + 4) % 5]], deck[idx[a % 5]]];
                p.evaluations += 1;
                p.nontrivial += 1;
                match guarded(|| Five::from(arr).hand_rank()) {
                    Some(r) => {
                        let got = (format!("{:?}", r.name), format!("{:?}", r.class));
                        if got.0 != oracle.cat_name[ord as usize] || got.1 != oracle.class_name[ord as usize] || r.value != Five::from(arr).hand_rank_value() {
                            p.fail("the rank reported for a hand does not describe its cards", &join(arr), &format!("{} {}", oracle.cat_name[ord as usize], oracle.class_name[ord as usize]), &format!("{} {} value {}", got.0, got.1, r.value));
                        }
                    }
                    None => p.fail("hand_rank panics", &join(arr), "a rank", "panic"),
                }
            } } } }
        }
        p
    });
    for p in parts { s.merge(p); }
    s.count("five-card hands", 2_598_960);
    // the reported rank carries the value of unvalidated ranking for EVERY five-slot multiset over cards + blank
    // (duplicates included), and for seeded six/seven-slot ones
    let sym = deck_blank();
    let parts: Vec<Sweep> = par_ranges(53, 53, |lo, hi| {
        let mut p = Sweep::default();
        let mut rng = Rng::new(lo ^ 0x6C06);
        for a in lo as usize..hi as usize {
            for b in a..53 { for c in b..53 { for d in c..53 { for e in d..53 {
                let h = Five::from([sym[a], sym[b], sym[c], sym[d], sym[e]]);
                p.evaluations += 1;
                let r = guarded(|| (h.hand_rank(), h.hand_rank_value(), h.hand_rank_validated(), h.hand_rank_value_validated()));
                match r {
                    Some((hr, v, hrv, vv)) if hr == HandRank::from(v) && hrv == HandRank::from(vv) => {}
                    other => p.fail("the reported rank is not the conversion of the reported value", &join(h.to_arr()), "hand_rank() == HandRank::from(hand_rank_value())", &format!("{other:?}")),
                }
            } } } }
            for _ in 0..2_000 {
                let ws: Vec<u32> = (0..7).map(|_| sym[rng.below(53) as usize]).collect();
                let h = Seven::from([ws[0], ws[1], ws[2], ws[3], ws[4], ws[5], ws[6]]);
                let g = Six::from([ws[0], ws[1], ws[2], ws[3], ws[4], ws[5]]);
                p.evaluations += 2;
                let r = guarded(|| (h.hand_rank() == HandRank::from(h.hand_rank_value()), g.hand_rank() == HandRank::from(g.hand_rank_value()),
                    h.hand_rank_validated() == HandRank::from(h.hand_rank_value_validated()), g.hand_rank_validated() == HandRank::from(g.hand_rank_value_validated())));
                if r != Some((true, true, true, true)) {
                    p.fail("the reported rank of a six/seven-slot hand is not the conversion of the reported value", &join(&ws), "equal", &format!("{r:?}"));
                }
            }
        }
        p
    });
    for p in parts { s.merge(p); }
    s.count("five-slot multisets over cards + blank (rank carries value)", 4_187_106);
    s.rule = "all 65,536 values: name, class, value, is_invalid, consistency and contiguity against the category / class names written by the Lean specification for each strength ordinal; all 2,598,960 five-card hands (one rotated slot order each): the reported rank's names against the hand's own class; non-trivial = value in 1..=7462 or any hand".into();
    s.sample(format!("from(1) = {:?}", HandRank::from(1)));
    s.sample(format!("from(183) = {:?}", HandRank::from(183)));
    s.sample(format!("from(7463) = {:?}", HandRank::from(7463)));
    s
}

/// C07: comparison against the explicit integer key; enumerations in step with the value.
fn sweep_c07(seed: u64, thorough: bool) -> Sweep {
    let key = |v: u32| -> u32 { if v == 0 || v > 7462 { 65535 - v } else { 65536 + (7462 - v) } };
    let ranks: Vec<HandRank> = (0u32..65536).map(|v| HandRank::from(v as u16)).collect();
    let check = |a: u32, b: u32, s: &mut Sweep| {
        let (p, q) = (&ranks[a as usize], &ranks[b as usize]);
        let want = key(a).cmp(&key(b));
        let c = p.cmp(q);
        let ok = c == want
            && p.partial_cmp(q) == Some(c)
            && (p < q) == (c == std::cmp::Ordering::Less)
            && (p <= q) == (c != std::cmp::Ordering::Greater)
            && (p > q) == (c == std::cmp::Ordering::Greater)
            && (p >= q) == (c != std::cmp::Ordering::Less)
            && (p == q) == (a == b)
            && (c == std::cmp::Ordering::Equal) == (p == q)
            && Ord::max(*p, *q).value as u32 == (if key(a) >= key(b) { a } else { b })
            && Ord::min(*p, *q).value as u32 == (if key(a) <= key(b) { a } else { b })
            && core::cmp::max(*p, *q).value as u32 == (if key(a) >= key(b) { a } else { b })
            && p.clamp(q, q) == q;
        if !ok {
            s.fail("comparison is not the lawful total order (cmp, partial_cmp, <, <=, >, >=, ==, max, min, clamp against the integer key)", &format!("{a} {b}"), &format!("{want:?}"), &format!("cmp {c:?} partial {:?} == {}", p.partial_cmp(q), p == q));
        }
    };
    let mut s = Sweep::default();
    // enumerations: discriminants never decrease along v = 1..=7462, Invalid is greatest
    for v in 1u32..7462 {
        s.evaluations += 1;
        let (p, q) = (&ranks[v as usize], &ranks[v as usize + 1]);
        if !(p.name <= q.name && p.class <= q.class && (p.name as u8) <= (q.name as u8) && (p.class as u16) <= (q.class as u16)) {
            s.fail("category / class enumeration order contradicts strength order", &format!("{v} {}", v + 1), "non-decreasing", &format!("{:?} {:?} then {:?} {:?}", p.name, p.class, q.name, q.class));
        }
        if !(p.name < ranks[0].name && p.class < ranks[0].class) {
            s.fail("Invalid is not the greatest variant", &v.to_string(), "below Invalid", &format!("{:?} {:?}", p.name, p.class));
        }
    }
    if thorough {
        let parts: Vec<Sweep> = par_ranges(65536, 256, |lo, hi| {
            let mut p = Sweep::default();
            for a in lo as u32..hi as u32 {
                for b in 0u32..65536 {
                    check(a, b, &mut p);
                }
            }
            p.evaluations += (hi - lo) * 65536;
            p
        });
        for p in parts { s.merge(p); }
        s.exhaustive = true;
        s.nontrivial = 1u64 << 32;
        s.count("ordered pairs (all 2^32)", 1 << 32);
    } else {
        // every pair from the boundary set (each class boundary +-1) and seeded pairs
        let mut vals: Vec<u32> = vec![0, 1, 65535, 65534, 32768];
        for v in 1u32..7464 {
            if ranks[v as usize].class != ranks[v as usize - 1].class {
                vals.extend([v - 1, v, v + 1]);
            }
        }
        vals.sort_unstable();
        vals.dedup();
        for &a in &vals {
            for &b in &vals {
                check(a, b, &mut s);
            }
        }
        s.evaluations += (vals.len() * vals.len()) as u64;
        s.nontrivial += (vals.len() * vals.len()) as u64;
        s.count("boundary-set pairs", (vals.len() * vals.len()) as u64);
        let n = 20_000_000u64;
        let parts: Vec<Sweep> = par_ranges(n, threads(), |lo, hi| {
            let mut p = Sweep::default();
            let mut rng = Rng::new(seed ^ lo ^ 0xC07);
            for _ in lo..hi {
                let a = if rng.below(2) == 0 { rng.below(7500) } else { rng.below(65536) } as u32;
                let b = if rng.below(2) == 0 { rng.below(7500) } else { rng.below(65536) } as u32;
                check(a, b, &mut p);
            }
            p.evaluations += hi - lo;
            p
        });
        for p in parts { s.merge(p); }
        s.nontrivial += n;
        s.count("seeded pairs", n);
    }
    // the two enumerations, every pair, every way of comparing, against discriminant order (strongest first, Invalid last)
    {
        use ckc_rs::hand_rank::{HandRankClass, HandRankName};
        macro_rules! enum_pairs {
            ($ty:ty, $what:expr) => {{
                let all: Vec<$ty> = <$ty>::iter().collect();
                for (i, a) in all.iter().enumerate() {
                    for (j, b) in all.iter().enumerate() {
                        s.evaluations += 1;
                        let want = i.cmp(&j);
                        let got = (a.cmp(b), a.partial_cmp(b), a < b, a <= b, a > b, a >= b, a == b, Ord::max(*a, *b) == all[i.max(j)], Ord::min(*a, *b) == all[i.min(j)]);
                        let exp = (want, Some(want), i < j, i <= j, i > j, i >= j, i == j, true, true);
                        if got != exp || (*a as usize) != i {
                            s.fail($what, &format!("{a:?} {b:?}"), &format!("{exp:?}"), &format!("{got:?} discriminant {}", *a as usize));
                        }
                    }
                }
            }};
        }
        enum_pairs!(HandRankName, "category enumeration: cmp / partial_cmp / operators / max / min are not declaration (strength) order");
        enum_pairs!(HandRankClass, "class enumeration: cmp / partial_cmp / operators / max / min are not declaration (strength) order");
    }
    s.rule = "pairs of converted 16-bit values: cmp, partial_cmp, the four operators and == against comparison of an explicit injective integer key (transitivity over triples follows); quick: all pairs of the class-boundary set plus seeded pairs, thorough: all 2^32 pairs; plus the enumeration orders along all adjacent values; both enumerations, all 10^2 and 310^2 pairs, cmp / partial_cmp / operators / max / min against declaration order".into();
    s.sample(format!("from(0).cmp(from(7463)) = {:?}", ranks[0].cmp(&ranks[7463])));
    s.sample(format!("from(1).cmp(from(2)) = {:?}", ranks[1].cmp(&ranks[2])));
    s.sample(format!("from(7462).cmp(from(0)) = {:?}", ranks[7462].cmp(&ranks[0])));
    s
}

/// C02 / C03 / C09 on the implementation: all six-card hands (canonical order) and seven-card hands
/// (seeded in quick, all 133,784,560 in thorough), seeded slot orders on a sample.
fn sweep_sixseven(prop: &str, seed: u64, thorough: bool) -> Sweep {
    let oracle = Oracle5::load();
    let deck = layout_deck();
    // oracle value of five deck indices
    let o5 = |i: [usize; 5]| -> u16 { oracle.of_indices(&i).0 };
    let combos6 = index_combos(6, 5);
    let combos7 = index_combos(7, 5);
    let combos76 = index_combos(7, 6);
    let check = |idx: &[usize], s: &mut Sweep| {
        let n = idx.len();
        let ws: Vec<u32> = idx.iter().map(|i| deck[*i]).collect();
        s.evaluations += 1;
        let rows = if n == 6 { &combos6 } else { &combos7 };
        let best = rows.iter().map(|r| o5([idx[r[0]], idx[r[1]], idx[r[2]], idx[r[3]], idx[r[4]]])).min().unwrap();
        let got = guarded(|| {
            if n == 6 {
                let h = Six::from([ws[0], ws[1], ws[2], ws[3], ws[4], ws[5]]);
                (h.hand_rank_value_and_hand(), h.hand_rank_value(), h.hand_rank_value_validated(), h.hand_rank().value, h.hand_rank_validated().value)
            } else {
                let h = Seven::from([ws[0], ws[1], ws[2], ws[3], ws[4], ws[5], ws[6]]);
                (h.hand_rank_value_and_hand(), h.hand_rank_value(), h.hand_rank_value_validated(), h.hand_rank().value, h.hand_rank_validated().value)
            }
        });
        let Some(((v, hand), v2, vv, v3, v4)) = got else {
            s.fail("ranking panics on distinct real cards", &join(&ws), "a value", "panic");
            return;
        };
        if prop == "C02" && (idx[0] + idx[n - 1]) % 4 == 0 {
            // the same words written slot by slot into a hand that held other cards before
            let via = guarded(|| {
                if n == 6 {
                    let mut m = Six::from([deck[51 - idx[0]], deck[51 - idx[1]], deck[51 - idx[2]], deck[51 - idx[3]], deck[51 - idx[4]], deck[51 - idx[5]]]);
                    m.set_first(ws[0]); m.set_second(ws[1]); m.set_third(ws[2]); m.set_forth(ws[3]); m.set_fifth(ws[4]); m.set_sixth(ws[5]);
                    (m.hand_rank_value(), m.hand_rank_value_validated(), m.to_arr().to_vec())
                } else {
                    let mut m = Seven::from([deck[51 - idx[0]], deck[51 - idx[1]], deck[51 - idx[2]], deck[51 - idx[3]], deck[51 - idx[4]], deck[51 - idx[5]], deck[51 - idx[6]]]);
                    m.set_first(ws[0]); m.set_second(ws[1]); m.set_third(ws[2]); m.set_forth(ws[3]); m.set_fifth(ws[4]); m.set_sixth(ws[5]); m.set_seventh(ws[6]);
                    (m.hand_rank_value(), m.hand_rank_value_validated(), m.to_arr().to_vec())
                }
            });
            s.evaluations += 1;
            if via != Some((best, best, ws.clone())) {
                s.fail(&format!("{n}-card hand built with the setters: value is not the best five-card value it contains (value, validated, slots)"), &join(&ws), &best.to_string(), &format!("{via:?}"));
            }
        }
        match prop {
            "C02" => {
                if !(v == best && v2 == best && vv == best && v3 == best && v4 == best) {
                    // name the slot combination that holds the best five
                    let row = rows.iter().find(|r| o5([idx[r[0]], idx[r[1]], idx[r[2]], idx[r[3]], idx[r[4]]]) == best).unwrap();
                    s.fail(&format!("{n}-card value is not the best five-card value it contains (best five in slots {row:?})"), &join(&ws), &best.to_string(), &format!("{v} {v2} {vv} {v3} {v4}"));
                }
            }
            "C03" => {
                let h = hand.to_arr();
                let distinct = (0..5).all(|i| (i + 1..5).all(|j| h[i] != h[j]));
                let from_input = h.iter().all(|w| ws.contains(w));
                let sorted = h.windows(2).all(|p| p[0] >= p[1]);
                let rerank = guarded(|| Five::from(h).hand_rank_value());
                if !(distinct && from_input && sorted && rerank == Some(v)) {
                    s.fail("reported best hand is not a sorted five-card witness from the input (distinct, from input, descending, re-ranks to the value)", &join(&ws), &format!("value {v}"), &format!("hand {} distinct {distinct} from_input {from_input} sorted {sorted} rerank {rerank:?}", join(h)));
                }
            }
            "C06" => {
                // the rank reported for the hand carries the value of the best five cards and names their category and class
                let r = guarded(|| if n == 6 {
                    let h = Six::from([ws[0], ws[1], ws[2], ws[3], ws[4], ws[5]]);
                    (h.hand_rank(), h.hand_rank_validated())
                } else {
                    let h = Seven::from([ws[0], ws[1], ws[2], ws[3], ws[4], ws[5], ws[6]]);
                    (h.hand_rank(), h.hand_rank_validated())
                });
                let want = (best, oracle.cat_name[best as usize].clone(), oracle.class_name[best as usize].clone());
                match r {
                    Some((a, b)) if (a.value, format!("{:?}", a.name), format!("{:?}", a.class)) == want && (b.value, format!("{:?}", b.name), format!("{:?}", b.class)) == want => {}
                    other => s.fail(&format!("the rank reported for a {n}-card hand does not carry the value / category / class of its best five cards"), &join(&ws), &format!("{want:?}"), &format!("{other:?}")),
                }
            }
            _ => {
                // C09: no oracle, only the implementation's own values
                if n == 6 {
                    let mut m = u16::MAX;
                    for r in rows {
                        let f = Five::from([ws[r[0]], ws[r[1]], ws[r[2]], ws[r[3]], ws[r[4]]]).hand_rank_value();
                        if v > f {
                            s.fail("six-card value is weaker than one of its five-card sub-hands", &join(&ws), &format!("<= {f}"), &v.to_string());
                        }
                        m = m.min(f);
                    }
                    if v != m {
                        s.fail("six-card value is not the smallest of its six five-card values", &join(&ws), &m.to_string(), &v.to_string());
                    }
                } else {
                    let mut m = u16::MAX;
                    for r in &combos76 {
                        let g = Six::from([ws[r[0]], ws[r[1]], ws[r[2]], ws[r[3]], ws[r[4]], ws[r[5]]]).hand_rank_value();
                        if v > g {
                            s.fail("seven-card value is weaker than one of its six-card sub-hands", &join(&ws), &format!("<= {g}"), &v.to_string());
                        }
                        m = m.min(g);
                    }
                    if v != m {
                        s.fail("seven-card value is not the smallest of its seven six-card values", &join(&ws), &m.to_string(), &v.to_string());
                    }
                }
            }
        }
    };
    let mut total = Sweep { exhaustive: thorough, ..Default::default() };
    if prop == "C03" {
        // the identity clause: a five-slot input is reported unchanged (arrays compared, not `Five == Five`)
        let sym = deck_blank();
        let parts: Vec<Sweep> = par_ranges(53, 53, |lo, hi| {
            let mut s = Sweep::default();
            let mut rng = Rng::new(seed ^ (lo << 8) ^ 0x5C03);
            for a in lo as usize..hi as usize {
                for b in a..53 { for c in b..53 { for d in c..53 { for e in d..53 {
                    let mut arr = [sym[a], sym[b], sym[c], sym[d], sym[e]];
                    rng.shuffle(&mut arr);
                    s.evaluations += 1;
                    let r = guarded(|| { let (v, h) = Five::from(arr).hand_rank_value_and_hand(); (v, h.to_arr(), [h.first(), h.second(), h.third(), h.forth(), h.fifth()], Five::from(arr).hand_rank_value()) });
                    match r {
                        Some((v, h, acc, v2)) if h == arr && acc == arr && v == v2 => {}
                        other => s.fail("a five-slot input is not reported unchanged (value, to_arr, accessors, hand_rank_value)", &join(arr), &join(arr), &format!("{other:?}")),
                    }
                } } } }
            }
            s
        });
        for p in parts { total.merge(p); }
        total.count("five-slot multisets over cards + blank in a seeded order (identity clause)", 4_187_106);
    }
    // all six-card hands: a quarter in deck order, a quarter reversed, half in a per-hand seeded order
    // slot orders a caller is likely to use (and a shortcut is likely to key on): deck order, reversed deck
    // order, descending and ascending by card word (i.e. a sorted hand), and seeded shuffles
    let ordered = |h: &mut Vec<usize>, rng: &mut Rng| {
        match rng.below(8) {
            0 => {}
            1 => h.reverse(),
            2 | 3 => h.sort_unstable_by(|x, y| deck[*y].cmp(&deck[*x])),
            4 => h.sort_unstable_by(|x, y| deck[*x].cmp(&deck[*y])),
            _ => rng.shuffle(h),
        }
    };
    let parts: Vec<Sweep> = par_ranges(47, 47, |lo, hi| {
        let mut s = Sweep::default();
        let mut rng = Rng::new(seed ^ (lo << 16) ^ 0x66);
        for a in lo as usize..hi as usize {
            for b in a + 1..52 { for c in b + 1..52 { for d in c + 1..52 { for e in d + 1..52 { for f in e + 1..52 {
                let mut h = vec![a, b, c, d, e, f];
                ordered(&mut h, &mut rng);
                check(&h, &mut s);
            } } } } }
        }
        s
    });
    for p in parts { total.merge(p); }
    total.count("six-card hands (all; deck order, reversed or a per-hand seeded order)", 20_358_520);
    if thorough {
        let parts: Vec<Sweep> = par_ranges(46 * 52, 46 * 52, |lo, hi| {
            let mut s = Sweep::default();
            let mut rng = Rng::new(seed ^ (lo << 16) ^ 0x77);
            for ab in lo as usize..hi as usize {
                let (a, b) = (ab / 52, ab % 52);
                if b <= a { continue; }
                for c in b + 1..52 { for d in c + 1..52 { for e in d + 1..52 { for f in e + 1..52 { for g in f + 1..52 {
                    let mut h = vec![a, b, c, d, e, f, g];
                    ordered(&mut h, &mut rng);
                    check(&h, &mut s);
                } } } } }
            }
            s
        });
        for p in parts { total.merge(p); }
        total.count("seven-card hands (all; deck order, reversed or a per-hand seeded order)", 133_784_560);
    }
    // shape-rich hands in EVERY slot order: six or seven cards holding five, six or seven suited cards in a
    // row (the ace also low): several straight flushes at once, steel wheels, an extending sixth card ...
    // A shortcut keyed on such a shape and on the slot layout shows here and almost nowhere else.
    let checked_profile = std::env::var("CKC_PROFILE").map(|p| p != "release").unwrap_or(false);
    let mut shaped: Vec<Vec<usize>> = Vec::new();
    let idx_of = |r: usize, su: usize| (3 - su) * 13 + (12 - (r % 13));
    for su in 0..4usize {
        for len in [5usize, 6, 7] {
            for lo in 0..=(14 - len) {
                // ranks lo-1 .. lo+len-2, rank -1 being the ace playing low
                let run: Vec<usize> = (0..len).map(|k| if lo == 0 && k == 0 { idx_of(12, su) } else { idx_of(lo + k - 1, su) }).collect();
                if len == 7 { shaped.push(run.clone()); }
                if len >= 6 { shaped.push(run[..6].to_vec()); }
                if len == 6 {
                    for x in 0..52 { if !run.contains(&x) { let mut h = run.clone(); h.push(x); shaped.push(h); } }
                }
                if len == 5 {
                    // a straight flush plus one card (six slots); plus two cards (seven slots) for a thinned-out set of extras
                    for x in 0..52 {
                        if run.contains(&x) { continue; }
                        let mut h = run.clone(); h.push(x); shaped.push(h.clone());
                        for y in (x + 1..52).step_by(if thorough { 1 } else if checked_profile { 23 } else { 7 }) {
                            if !run.contains(&y) { let mut g = h.clone(); g.push(y); shaped.push(g); }
                        }
                    }
                }
            }
        }
    }
    shaped.sort();
    shaped.dedup();
    let n_shaped = shaped.len() as u64;
    let parts: Vec<Sweep> = par_ranges(n_shaped, threads() * 4, |lo, hi| {
        let mut s = Sweep::default();
        for h in &shaped[lo as usize..hi as usize] {
            // all permutations (Heap's algorithm)
            let mut a = h.clone();
            let n = a.len();
            let mut c = vec![0usize; n];
            check(&a, &mut s);
            let mut i = 0;
            while i < n {
                if c[i] < i {
                    if i % 2 == 0 { a.swap(0, i); } else { a.swap(c[i], i); }
                    check(&a, &mut s);
                    c[i] += 1;
                    i = 0;
                } else {
                    c[i] = 0;
                    i += 1;
                }
            }
        }
        s
    });
    for p in parts { total.merge(p); }
    total.count("hands with 5/6/7 suited cards in a row (+ extras), every slot order (720 / 5040 each)", n_shaped);
    // seeded hands in seeded slot orders
    let n_seeded: u64 = if thorough { 40_000_000 } else if checked_profile { 2_000_000 } else { 8_000_000 };
    let parts: Vec<Sweep> = par_ranges(n_seeded, threads(), |lo, hi| {
        let mut s = Sweep::default();
        let mut rng = Rng::new(seed ^ lo ^ 0x67);
        let mut idx: Vec<usize> = (0..52).collect();
        for k in lo..hi {
            rng.shuffle(&mut idx);
            let n = if k % 4 == 0 { 6 } else { 7 };
            let mut h = idx[..n].to_vec();
            // half of the seeded hands are put into one of the "natural" orders, half stay shuffled
            if k % 2 == 1 { ordered(&mut h, &mut rng); }
            check(&h, &mut s);
            if k % 8 == 0 {
                // a "twin" ranked right after: two cards trade suits (same ranks, same multiset of suits, same XOR /
                // sum / OR of the words) - a result remembered from the previous call under such a key shows here;
                // then the first hand again
                let (i, j) = (rng.below(n as u64) as usize, rng.below(n as u64) as usize);
                let (ci, cj) = (h[i], h[j]);
                let (ti, tj) = ((cj / 13) * 13 + ci % 13, (ci / 13) * 13 + cj % 13);
                if ci / 13 != cj / 13 && ci % 13 != cj % 13 && !h.contains(&ti) && !h.contains(&tj) {
                    let mut t = h.clone();
                    t[i] = ti;
                    t[j] = tj;
                    check(&t, &mut s);
                    check(&h, &mut s);
                }
            }
        }
        s
    });
    for p in parts { total.merge(p); }
    total.count("seeded six/seven-card hands (half shuffled, half in deck / reversed / sorted orders)", n_seeded);
    total.nontrivial = total.evaluations;
    total.rule = match prop {
        "C02" => "value of every six-card hand (and seeded / all seven-card hands, seeded slot orders) against the minimum over its five-card subsets of the spec-derived strength ordinal; every hand is distinct and non-trivial",
        "C03" => "the (value, hand) pair reported for every six-card hand (and seeded / all seven-card hands, seeded slot orders): five distinct words from the input, descending, re-ranking to the value",
        _ => "for every six-card hand: value <= each of its six five-card values and = their minimum; for seven-card hands (seeded / all): value <= each of its seven six-card values and = their minimum; implementation values only, no oracle",
    }.into();
    let h = Seven::from([deck[51], deck[0], deck[20], deck[1], deck[2], deck[3], deck[4]]);
    total.sample(format!("2C AS 7H KS QS JS TS -> {:?}", guarded(|| { let (v, f) = h.hand_rank_value_and_hand(); (v, f.to_arr()) })));
    total
}

/// validated ranking through a `&mut` binding (a hand that was just edited in place), a `&&mut` one and a reborrow
#[allow(clippy::needless_borrow)]
fn via_mut<T: HandRanker>(mut f: T) -> [u16; 3] {
    let m = &mut f;
    let a = m.hand_rank_value_validated();
    let b = (&m).hand_rank_validated().value;
    let c = (&mut *m).hand_rank_value_validated();
    [a, b, c]
}

/// C04: validators and validated ranking against "52-card words, pairwise distinct".
fn sweep_c04(seed: u64, thorough: bool) -> Sweep {
    let mut s = Sweep::default();
    let deck = layout_deck();
    let mut sorted = deck;
    sorted.sort_unstable();
    let is_card = |w: u32| sorted.binary_search(&w).is_ok();
    let mut rng = Rng::new(seed ^ 0xC04);
    for (kind, h) in c04_hands(&mut rng, thorough) {
        s.evaluations += 1;
        s.count(&format!("n={} {kind}", h.len()), 1);
        let want_valid = h.iter().all(|w| is_card(*w)) && (0..h.len()).all(|i| (i + 1..h.len()).all(|j| h[i] != h[j]));
        if !want_valid { s.nontrivial += 1; }
        let hh = H::mk(&h).unwrap();
        let got = guarded(|| (hh.is_valid(), hh.contain_blank(), hh.is_corrupt()));
        let want = (want_valid, h.contains(&0), h.iter().any(|w| !is_card(*w)));
        if got != Some(want) {
            s.fail("is_valid / contain_blank / is_corrupt differ from '52-card words, pairwise distinct'", &join(&h), &format!("{want:?}"), &format!("{got:?}"));
        }
        if h.len() >= 5 {
            #[allow(clippy::needless_borrow)]
            let vv = guarded(|| match hh {
                H::T5(f) => (f.hand_rank_value_validated(), ckc_rs::evaluate::five_cards(f.to_arr()), (&&f).hand_rank_validated().value, via_mut(f)),
                H::T6(f) => (f.hand_rank_value_validated(), (&&f).hand_rank_value_validated(), f.hand_rank_validated().value, via_mut(f)),
                H::T7(f) => (f.hand_rank_value_validated(), (&&f).hand_rank_value_validated(), f.hand_rank_validated().value, via_mut(f)),
                _ => unreachable!(),
            });
            match vv {
                None => s.fail("validated ranking panics", &join(&h), "returns", "panic"),
                Some((a, b, c, d)) => {
                    if a != b || a != c || d != [a; 3] {
                        s.fail("validated entry points disagree (value, second entry point, hand_rank_validated, then through &mut / &&mut receivers)", &join(&h), &a.to_string(), &format!("{b} {c} {d:?}"));
                    }
                    if want_valid {
                        let plain = guarded(|| match hh {
                            H::T5(f) => f.hand_rank_value(),
                            H::T6(f) => f.hand_rank_value(),
                            H::T7(f) => f.hand_rank_value(),
                            _ => unreachable!(),
                        });
                        if plain != Some(a) || a == 0 {
                            s.fail("validated ranking of a valid hand is 0 or differs from unvalidated ranking", &join(&h), &format!("{plain:?} (non-zero)"), &a.to_string());
                        }
                    } else if a != 0 {
                        s.fail("validated ranking of a non-hand is not 0", &join(&h), "0", &a.to_string());
                    }
                }
            }
        }
    }
    // every cross-field hybrid word in every slot of a hand of every size: corrupt, not valid, validated rank 0
    let hyb = hybrid_words();
    for &w in &hyb {
        for n in 2..=7usize {
            for slot in [0, n - 1] {
                let mut h: Vec<u32> = (0..n).map(|i| deck[(i * 11 + 3) % 52]).collect();
                h[slot] = w;
                s.evaluations += 1;
                let hh = H::mk(&h).unwrap();
                let r = guarded(|| (hh.is_corrupt(), hh.is_valid(), match hh { H::T5(f) => f.hand_rank_value_validated(), H::T6(f) => f.hand_rank_value_validated(), H::T7(f) => f.hand_rank_value_validated(), _ => 0 }));
                if r != Some((true, false, 0)) {
                    s.fail("a word assembled from the fields of two different cards is accepted (is_corrupt, is_valid, validated value)", &join(&h), "(true, false, 0)", &format!("{r:?}"));
                }
            }
        }
    }
    s.count("cross-field hybrid words x sizes x 2 slots", (hyb.len() * 12) as u64);
    // valid hands at scale: validated ranking must equal unvalidated ranking (no oracle needed) and be non-zero
    let valid_check = |ws: &[u32], p: &mut Sweep| {
        p.evaluations += 1;
        // the fourth component goes through a `&&T` receiver (what closures in iterator adaptors get)
        #[allow(clippy::needless_borrow)]
        let r = guarded(|| match H::mk(ws).unwrap() {
            H::T5(f) => (f.is_valid(), f.hand_rank_value_validated(), f.hand_rank_value(), ckc_rs::evaluate::five_cards(f.to_arr()), (&&f).hand_rank_validated().value),
            H::T6(f) => (f.is_valid(), f.hand_rank_value_validated(), f.hand_rank_value(), (&&f).hand_rank_value_validated(), (&&f).hand_rank_validated().value),
            H::T7(f) => (f.is_valid(), f.hand_rank_value_validated(), f.hand_rank_value(), (&&f).hand_rank_value_validated(), (&&f).hand_rank_validated().value),
            _ => unreachable!(),
        });
        match r {
            Some((true, a, b, c, d)) if a == b && a == c && a == d && a != 0 => {}
            other => p.fail("validated ranking of distinct real cards differs from unvalidated ranking (valid, validated, unvalidated, free fn / validated again, hand_rank_validated)", &join(ws), "valid, equal, non-zero", &format!("{other:?}")),
        }
    };
    let parts: Vec<Sweep> = par_ranges(47, 47, |lo, hi| {
        let mut p = Sweep::default();
        let mut rng = Rng::new(seed ^ lo ^ 0x4C04);
        for a in lo as usize..hi as usize {
            for b in a + 1..52 { for c in b + 1..52 { for d in c + 1..52 { for e in d + 1..52 {
                if (a + b + c + d + e) % 4 == 0 {
                    valid_check(&[deck[e], deck[a], deck[d], deck[b], deck[c]], &mut p);
                }
                for f in e + 1..52 {
                    if (a + b + c + d + e + f) % 8 == 0 {
                        valid_check(&[deck[a], deck[b], deck[c], deck[d], deck[e], deck[f]], &mut p);
                    }
                }
            } } } }
        }
        let mut idx: Vec<usize> = (0..52).collect();
        for _ in 0..(if thorough { 1_000_000 } else { 100_000 }) {
            rng.shuffle(&mut idx);
            let ws: Vec<u32> = idx[..7].iter().map(|i| deck[*i]).collect();
            valid_check(&ws, &mut p);
        }
        p
    });
    for p in parts { s.merge(p); }
    // six or seven cards holding more than one straight flush (six or seven suited cards in a row, the ace
    // playing low as well), every such run with every extra card, in deck, reversed and seeded slot orders
    let word = |r: usize, su: usize| deck[(3 - su) * 13 + (12 - (r % 13))];
    for su in 0..4usize {
        for len in [6usize, 7] {
            for lo in 0..=(13 - len + 1) {
                // ranks lo-1 .. lo+len-2 with -1 meaning the ace low
                let run: Vec<u32> = (0..len).map(|k| if lo == 0 && k == 0 { word(12, su) } else { word(lo + k - 1, su) }).collect();
                let extras: Vec<Option<u32>> = if len == 7 { vec![None] } else { std::iter::once(None).chain(deck.iter().filter(|w| !run.contains(w)).map(|w| Some(*w))).collect() };
                for ex in extras {
                    let mut ws = run.clone();
                    if let Some(x) = ex { ws.push(x); }
                    if ws.len() < 6 { continue; }
                    let mut orders = vec![ws.clone()];
                    let mut r = ws.clone(); r.reverse(); orders.push(r);
                    let mut srt = ws.clone(); srt.sort_unstable(); orders.push(srt.clone()); srt.reverse(); orders.push(srt);
                    for _ in 0..4 { let mut t = ws.clone(); rng.shuffle(&mut t); orders.push(t); }
                    for o in orders { valid_check(&o, &mut s); }
                }
            }
        }
    }
    s.count("valid hands: validated vs unvalidated", 0);
    // the per-slot recogniser over all 2^32 words
    let bad: Vec<(u32, u32)> = par_ranges(1 << 32, threads() * 4, |lo, hi| {
        let mut v = Vec::new();
        for w in lo..hi {
            let w = w as u32;
            let want = if sorted.binary_search(&w).is_ok() { w } else { 0 };
            let got = CardNumber::filter(w);
            if got != want && v.len() < 4 {
                v.push((w, got));
            }
        }
        v
    }).concat();
    s.evaluations += 1 << 32;
    s.count("filter/all-2^32-words", 1 << 32);
    for (w, got) in bad {
        s.fail("card recogniser (filter)", &w.to_string(), "identity on the 52 cards, blank elsewhere", &got.to_string());
    }
    s.rule = "every fourth five-card and eighth six-card hand, seeded seven-card hands and every six/seven-card hand holding several straight flushes (8 slot orders each): validated = unvalidated != 0; hands of sizes 2..7 over {52 cards, blank, single-bit corruptions, flagged cards, 0xFFFFFFFF, small integers}: a duplicate planted at every slot pair, a near-miss at every slot, seeded arrangements and arbitrary words; validators and validated ranking against membership in the 52 layout words and pairwise inequality; the recogniser over all 2^32 words; non-trivial = the hand is not valid".into();
    s.sample(format!("[JC 2C 23 KS TS] valid = {:?}", guarded(|| Five::from([deck[48], deck[51], 23, deck[1], deck[4]]).is_valid())));
    s.sample(format!("five_cards([JC 2C 3C KS JC]) = {:?}", guarded(|| ckc_rs::evaluate::five_cards([deck[48], deck[51], deck[50], deck[1], deck[48]]))));
    s
}

/// all 24 permutations of the four suits
fn suit_perms() -> Vec<[u32; 4]> {
    let mut out = Vec::new();
    for a in 0..4 { for b in 0..4 { for c in 0..4 { for d in 0..4 {
        if a != b && a != c && a != d && b != c && b != d && c != d { out.push([a, b, c, d]); }
    } } } }
    out
}

/// C08: the 4-cycle on 53 words, slot-wise container shift, and value invariance.
fn sweep_c08(seed: u64, thorough: bool) -> Sweep {
    let mut s = Sweep { exhaustive: true, ..Default::default() };
    let deck = layout_deck();
    for rank in 0u32..13 {
        for suit in 0u32..4 {
            let w = layout_word(rank, suit);
            s.evaluations += 1;
            let want = layout_word(rank, (suit + 3) % 4);
            let got = w.shift_suit();
            let four = w.shift_suit().shift_suit().shift_suit().shift_suit();
            if got != want || four != w {
                s.fail("shift_suit is not the rank-preserving cycle S->H->D->C->S", &w.to_string(), &format!("{want}, four shifts {w}"), &format!("{got}, four shifts {four}"));
            }
        }
    }
    if 0u32.shift_suit() != 0 {
        s.fail("shifting blank", "0", "0", &0u32.shift_suit().to_string());
    }
    let sym = deck_blank();
    let mut rng = Rng::new(seed ^ 0xC08);
    for n in 2..=7usize {
        for _ in 0..20_000 {
            let ws: Vec<u32> = (0..n).map(|_| sym[rng.below(53) as usize]).collect();
            s.evaluations += 1;
            let got = H::mk(&ws).unwrap().shifted();
            let want: Vec<u32> = ws.iter().map(|w| w.shift_suit()).collect();
            if got != want {
                s.fail(&format!("shifting a {n}-slot hand is not slot-wise"), &join(&ws), &join(&want), &join(&got));
            }
        }
    }
    // structured hands: one rank in every sequence of suits (all four suits of a rank in every slot order, pairs, repeats),
    // suited runs in three orders, a full rank group plus extras in seeded orders
    let mut structured: Vec<Vec<u32>> = Vec::new();
    for n in 2..=7usize {
        for rank in 0u32..13 {
            for code in 0..4usize.pow(n as u32) {
                structured.push((0..n).map(|k| layout_word(rank, (code / 4usize.pow(k as u32) % 4) as u32)).collect());
            }
        }
        for suit in 0u32..4 {
            for lo in 0u32..13 {
                let run: Vec<u32> = (0..n as u32).map(|k| layout_word((lo + k) % 13, suit)).collect();
                let mut rev = run.clone();
                rev.reverse();
                let mut sh = run.clone();
                rng.shuffle(&mut sh);
                structured.extend([run, rev, sh]);
            }
        }
        if n > 4 {
            for rank in 0u32..13 {
                for _ in 0..40 {
                    let mut h: Vec<u32> = (0..4).map(|su| layout_word(rank, su)).collect();
                    while h.len() < n { h.push(sym[rng.below(53) as usize]); }
                    rng.shuffle(&mut h);
                    structured.push(h);
                }
            }
        }
    }
    for ws in &structured {
        s.evaluations += 1;
        let n = ws.len();
        let got = H::mk(ws).unwrap().shifted();
        let want: Vec<u32> = ws.iter().map(|w| w.shift_suit()).collect();
        if got != want {
            s.fail(&format!("shifting a {n}-slot hand is not slot-wise"), &join(ws), &join(&want), &join(&got));
        }
    }
    // five cards: every hand, three shifts (and all 24 relabellings in thorough)
    let perms = suit_perms();
    let parts: Vec<Sweep> = par_ranges(48, 48, |lo, hi| {
        let mut p = Sweep::default();
        for a in lo as usize..hi as usize {
            for b in a + 1..52 { for c in b + 1..52 { for d in c + 1..52 { for e in d + 1..52 {
                let idx = [a, b, c, d, e];
                let h = Five::from([deck[a], deck[b], deck[c], deck[d], deck[e]]);
                let Some(v) = guarded(|| h.hand_rank_value()) else { p.fail("ranking panics", &join(h.to_arr()), "a value", "panic"); continue; };
                let mut x = h;
                for k in 1..4 {
                    x = x.shift_suit();
                    p.evaluations += 1;
                    if guarded(|| x.hand_rank_value()) != Some(v) {
                        p.fail(&format!("value changes after {k} shift(s)"), &join(h.to_arr()), &v.to_string(), &format!("{:?}", guarded(|| x.hand_rank_value())));
                    }
                }
                if thorough {
                    for sp in &perms {
                        let arr: Vec<u32> = idx.iter().map(|i| layout_word(12 - (*i as u32 % 13), sp[(3 - i / 13) as usize])).collect();
                        p.evaluations += 1;
                        let r = guarded(|| Five::from([arr[0], arr[1], arr[2], arr[3], arr[4]]).hand_rank_value());
                        if r != Some(v) {
                            p.fail("value changes under a relabelling of the suits", &format!("{} relabelled {sp:?}", join(h.to_arr())), &v.to_string(), &format!("{r:?}"));
                        }
                    }
                }
            } } } }
        }
        p
    });
    for p in parts { s.merge(p); }
    s.count("five-card hands x 3 shifts", 2_598_960 * 3);
    // six and seven cards, seeded
    let n_seeded: u64 = if thorough { 20_000_000 } else { 2_000_000 };
    let parts: Vec<Sweep> = par_ranges(n_seeded, threads(), |lo, hi| {
        let mut p = Sweep::default();
        let mut rng = Rng::new(seed ^ lo ^ 0x8C08);
        let mut idx: Vec<usize> = (0..52).collect();
        for k in lo..hi {
            rng.shuffle(&mut idx);
            p.evaluations += 3;
            if k % 2 == 0 {
                let h = Six::from([deck[idx[0]], deck[idx[1]], deck[idx[2]], deck[idx[3]], deck[idx[4]], deck[idx[5]]]);
                let v = h.hand_rank_value();
                let (a, b) = (h.shift_suit(), h.shift_suit().shift_suit());
                if a.hand_rank_value() != v || b.hand_rank_value() != v || b.shift_suit().hand_rank_value() != v {
                    p.fail("six-card value changes under shifting", &join(h.to_arr()), &v.to_string(), &format!("{} {} {}", a.hand_rank_value(), b.hand_rank_value(), b.shift_suit().hand_rank_value()));
                }
            } else {
                let h = Seven::from([deck[idx[0]], deck[idx[1]], deck[idx[2]], deck[idx[3]], deck[idx[4]], deck[idx[5]], deck[idx[6]]]);
                let v = h.hand_rank_value();
                let (a, b) = (h.shift_suit(), h.shift_suit().shift_suit());
                if a.hand_rank_value() != v || b.hand_rank_value() != v || b.shift_suit().hand_rank_value() != v {
                    p.fail("seven-card value changes under shifting", &join(h.to_arr()), &v.to_string(), &format!("{} {} {}", a.hand_rank_value(), b.hand_rank_value(), b.shift_suit().hand_rank_value()));
                }
            }
        }
        p
    });
    for p in parts { s.merge(p); }
    s.count("seeded six/seven-card hands x 3 shifts", n_seeded);
    if thorough {
        // EVERY six- and seven-card hand against its shifted copy, through the unvalidated and the validated entry point.
        // Shifting permutes the set of hands, so value(h) == value(shift h) for all h gives invariance under all three
        // shifts by transitivity.  Slot order: deck order or sorted descending by card word, per hand.
        let six: Vec<Sweep> = par_ranges(47, 47, |lo, hi| {
            let mut p = Sweep::default();
            for a in lo as usize..hi as usize {
                for b in a + 1..52 { for c in b + 1..52 { for d in c + 1..52 { for e in d + 1..52 { for f in e + 1..52 {
                    let mut w = [deck[a], deck[b], deck[c], deck[d], deck[e], deck[f]];
                    if (a + b + f) % 2 == 1 { w.sort_unstable_by(|x, y| y.cmp(x)); }
                    let h = Six::from(w);
                    let x = h.shift_suit();
                    p.evaluations += 2;
                    let r = guarded(|| (h.hand_rank_value(), x.hand_rank_value(), h.hand_rank_value_validated(), x.hand_rank_value_validated()));
                    match r {
                        Some((v, v1, vv, vv1)) if v == v1 && vv == vv1 && v == vv => {}
                        other => p.fail("six-card value changes under a shift (unvalidated / validated entry point)", &join(h.to_arr()), "equal values", &format!("{other:?}")),
                    }
                } } } } }
            }
            p
        });
        for p in six { s.merge(p); }
        s.count("every six-card hand vs its shifted copy, two entry points", 20_358_520);
        let seven: Vec<Sweep> = par_ranges(46 * 52, 46 * 52, |lo, hi| {
            let mut p = Sweep::default();
            for ab in lo as usize..hi as usize {
                let (a, b) = (ab / 52, ab % 52);
                if b <= a { continue; }
                for c in b + 1..52 { for d in c + 1..52 { for e in d + 1..52 { for f in e + 1..52 { for g in f + 1..52 {
                    let mut w = [deck[a], deck[b], deck[c], deck[d], deck[e], deck[f], deck[g]];
                    if (a + c + g) % 2 == 1 { w.sort_unstable_by(|x, y| y.cmp(x)); }
                    let h = Seven::from(w);
                    let x = h.shift_suit();
                    p.evaluations += 2;
                    let r = guarded(|| (h.hand_rank_value(), x.hand_rank_value(), h.hand_rank_value_validated(), x.hand_rank_value_validated()));
                    match r {
                        Some((v, v1, vv, vv1)) if v == v1 && vv == vv1 && v == vv => {}
                        other => p.fail("seven-card value changes under a shift (unvalidated / validated entry point)", &join(h.to_arr()), "equal values", &format!("{other:?}")),
                    }
                } } } } }
            }
            p
        });
        for p in seven { s.merge(p); }
        s.count("every seven-card hand vs its shifted copy, two entry points", 133_784_560);
    }
    s.nontrivial = s.evaluations;
    s.rule = "52 cards + blank: the cycle and four-shift identity; sizes 2..7: container shift against slot-wise shift; every five-card hand under the three non-trivial shifts (all 24 suit relabellings in thorough); seeded six/seven-card hands under the three shifts; thorough: EVERY six- and seven-card hand against its shifted copy through hand_rank_value and hand_rank_value_validated".into();
    s.sample(format!("AS.shift_suit() = {}", deck[0].shift_suit()));
    s
}

/// C11: card order against (rank, suit); sort output checked directly.
fn sweep_c11(seed: u64, thorough: bool) -> Sweep {
    let mut s = Sweep::default();
    for r in 0u32..13 { for su in 0u32..4 { for r2 in 0u32..13 { for su2 in 0u32..4 {
        s.evaluations += 1;
        s.nontrivial += 1;
        let (a, b) = (layout_word(r, su), layout_word(r2, su2));
        let named = named_cards();
        // use the crate's own constants for the comparison (they are the layout words by C10)
        let (ca, cb) = (named[((3 - su) * 13 + (12 - r)) as usize].1, named[((3 - su2) * 13 + (12 - r2)) as usize].1);
        if (ca < cb) != ((r, su) < (r2, su2)) || ca == 0 || (a < b) != (ca < cb) {
            s.fail("numeric card order is not rank-then-suit", &format!("{ca} {cb}"), &format!("{}", (r, su) < (r2, su2)), &format!("{}", ca < cb));
        }
    } } } }
    let mut rng = Rng::new(seed ^ 0xC11);
    for h in c11_hands(&mut rng, thorough) {
        s.evaluations += 1;
        let hh = H::mk(&h).unwrap();
        let Some((a, b)) = guarded(|| (hh.sorted(), hh.sorted_in_place())) else { s.fail("sort panics", &join(&h), "returns", "panic"); continue; };
        let mut want = h.clone();
        want.sort_unstable_by(|x, y| y.cmp(x));
        let again = guarded(|| H::mk(&a).unwrap().sorted());
        if want.windows(2).any(|p| p[0] != p[1]) { s.nontrivial += 1; }
        if a != want || b != want || again != Some(a.clone()) || hh.vec() != h {
            s.fail("sort is not the non-increasing rearrangement (sort, sort_in_place, sort twice, input untouched)", &join(&h), &join(&want), &format!("{} | {} | {:?}", join(&a), join(&b), again));
        }
    }
    // every hand of 2, 3, 4 and 5 distinct real cards (one seeded slot order each), seeded six/seven-card hands
    let deck = layout_deck();
    let check_real = |idx: &[usize], rng: &mut Rng, p: &mut Sweep| {
        let mut h: Vec<u32> = idx.iter().map(|i| deck[*i]).collect();
        rng.shuffle(&mut h);
        p.evaluations += 1;
        p.nontrivial += 1;
        let hh = H::mk(&h).unwrap();
        let mut want = h.clone();
        want.sort_unstable_by(|x, y| y.cmp(x));
        let got = guarded(|| (hh.sorted(), hh.sorted_in_place()));
        if got != Some((want.clone(), want.clone())) {
            p.fail("sorting real cards is not the non-increasing rearrangement (sort, sort_in_place)", &join(&h), &join(&want), &format!("{got:?}"));
        }
    };
    let parts: Vec<Sweep> = par_ranges(52, 52, |lo, hi| {
        let mut p = Sweep::default();
        let mut rng = Rng::new(seed ^ lo ^ 0x11C);
        for a in lo as usize..hi as usize {
            for b in a + 1..52 {
                check_real(&[a, b], &mut rng, &mut p);
                for c in b + 1..52 {
                    check_real(&[a, b, c], &mut rng, &mut p);
                    for d in c + 1..52 {
                        check_real(&[a, b, c, d], &mut rng, &mut p);
                        for e in d + 1..52 {
                            check_real(&[a, b, c, d, e], &mut rng, &mut p);
                        }
                    }
                }
            }
        }
        let mut idx: Vec<usize> = (0..52).collect();
        for k in 0..(if thorough { 400_000 } else { 40_000 }) {
            rng.shuffle(&mut idx);
            check_real(&idx[..6 + k % 2], &mut rng, &mut p);
        }
        p
    });
    for p in parts { s.merge(p); }
    s.count("every hand of 2..5 distinct real cards, one seeded order each", 1326 + 22100 + 270725 + 2598960);
    s.rule = "all 52 x 52 card pairs for the numeric order; every hand of 2, 3, 4, 5 distinct real cards and seeded six/seven-card hands in seeded orders; for sizes 2..7 all arrangements (n <= 4) or all multisets in canonical and a seeded arrangement over {3 cards, blank, a flagged card, 0xFFFFFFFF, 1} plus seeded arbitrary-word hands: output must be the same multiset, non-increasing, idempotent, copy and in-place forms equal; non-trivial = not all slots equal".into();
    s.sample(format!("Five[2C AS 0 KS 2C].sort() = {:?}", H::mk(&[layout_word(0, 0), layout_word(12, 3), 0, layout_word(11, 3), layout_word(0, 0)]).unwrap().sorted()));
    s
}

/// C17: every ordered pair of distinct cards against Bill Chen's formula written out independently.
fn sweep_c17() -> Sweep {
    let mut s = Sweep { exhaustive: true, ..Default::default() };
    let chen = |hi: u32, lo: u32, suited: bool| -> i32 {
        // hi >= lo as pips 2..14; work in half-points
        let base2: i32 = match hi { 14 => 20, 13 => 16, 12 => 14, 11 => 12, r => r as i32 };
        let mut p2 = if hi == lo {
            (2 * base2).max(10)
        } else {
            let gap = hi - lo - 1;
            let pen2 = match gap { 0 => 0, 1 => 2, 2 => 4, 3 => 8, _ => 10 };
            base2 - pen2 + if gap < 2 && hi < 12 { 2 } else { 0 }
        };
        if suited { p2 += 4; }
        (p2 + 1).div_euclid(2)
    };
    for r1 in 0u32..13 { for s1 in 0u32..4 { for r2 in 0u32..13 { for s2 in 0u32..4 {
        if (r1, s1) == (r2, s2) { continue; }
        s.evaluations += 1;
        s.nontrivial += 1;
        let (a, b) = (layout_word(r1, s1), layout_word(r2, s2));
        let t = Two::new(a, b);
        let (hi, lo) = (r1.max(r2) + 2, r1.min(r2) + 2);
        let gap = if hi == lo { 0 } else { hi - lo - 1 };
        let want = (chen(hi, lo, s1 == s2) as i8, gap as u8, hi - lo <= 1, r1 == r2, s1 == s2, s1 == s2 && hi - lo <= 1, a.max(b));
        let got = guarded(|| (t.chen_formula(), t.get_gap(), t.is_connector(), t.is_pocket_pair(), t.is_suited(), t.is_suited_connector(), t.high_card()));
        if got != Some(want) {
            s.fail("chen_formula / helpers differ from the Chen formula (score, gap, connector, pair, suited, suited connector, high card)", &format!("{a} {b}"), &format!("{want:?}"), &format!("{got:?}"));
        }
        // the same pair reached through every constructor and through the setters (from a hand that held two other cards)
        let other = (layout_word((r1 + 5) % 13, (s1 + 1) % 4), layout_word((r2 + 7) % 13, (s2 + 2) % 4));
        let built = guarded(|| {
            let mut m = Two::new(other.0, other.1);
            m.set_first(a);
            m.set_second(b);
            let mut n = Two::default();
            n.set_second(b);
            n.set_first(a);
            [Two::from([a, b]), Two::from(&[a, b]), m, n].map(|t| (t.to_arr(), t.chen_formula(), t.get_gap(), t.is_connector(), t.is_pocket_pair(), t.is_suited(), t.is_suited_connector(), t.high_card()))
        });
        match built {
            Some(rows) if rows.iter().all(|r| *r == ([a, b], want.0, want.1, want.2, want.3, want.4, want.5, want.6)) => {}
            other => s.fail("a pair built with From / the setters: slots, score or helpers differ from the Chen formula", &format!("{a} {b}"), &format!("{want:?}"), &format!("{other:?}")),
        }
        let swapped = guarded(|| Two::new(b, a).chen_formula());
        let shifted = guarded(|| t.shift_suit().chen_formula());
        if swapped != Some(want.0) || shifted != Some(want.0) {
            s.fail("score depends on slot order or suit shifting", &format!("{a} {b}"), &want.0.to_string(), &format!("swapped {swapped:?} shifted {shifted:?}"));
        }
    } } } }
    for r in 0u32..13 {
        for su in 0u32..4 {
            s.evaluations += 1;
            let want = match r + 2 { 14 => 10.0, 13 => 8.0, 12 => 7.0, 11 => 6.0, p => p as f32 / 2.0 };
            let got = layout_word(r, su).get_chen_points();
            if got != want {
                s.fail("per-card Chen points", &layout_word(r, su).to_string(), &want.to_string(), &got.to_string());
            }
        }
    }
    s.rule = "all 52 x 51 ordered pairs of distinct cards: score and six helpers against the Chen formula written out independently in integer half-points, plus swap and shift invariance; all 52 cards for per-card points; every pair is non-trivial".into();
    s.sample(format!("AKs = {}", Two::new(layout_word(12, 3), layout_word(11, 3)).chen_formula()));
    s.sample(format!("72o = {}", Two::new(layout_word(5, 3), layout_word(0, 0)).chen_formula()));
    s.sample(format!("22 = {}", Two::new(layout_word(0, 3), layout_word(0, 0)).chen_formula()));
    s
}

/// C15: the crate's set operations against bit-level set semantics.
fn sweep_c15(seed: u64, thorough: bool) -> Sweep {
    let mut s = Sweep::default();
    let deck = layout_deck();
    let sym = deck_blank();
    let all: u64 = (1u64 << 52) - 1;
    let bit_of = |w: u32| -> u64 { deck.iter().position(|d| *d == w).map(|i| 1u64 << (51 - i)).unwrap_or(0) };
    let mut rng = Rng::new(seed ^ 0xC15);
    for n in 2..=7usize {
        for _ in 0..(if thorough { 300_000 } else { 30_000 }) {
            let ws: Vec<u32> = (0..n).map(|_| if rng.below(5) == 0 { sym[rng.below(n as u64) as usize] } else { sym[rng.below(53) as usize] }).collect();
            s.evaluations += 1;
            s.nontrivial += 1;
            let want = ws.iter().fold(0u64, |a, w| a | bit_of(*w));
            let got = H::mk(&ws).unwrap().bc();
            if got != want {
                s.fail("set built from a hand is not the set of its real cards", &join(&ws), &want.to_string(), &got.to_string());
            }
        }
    }
    // a word that is not a card in every slot in turn: it contributes nothing
    let bad = not_card_words(&mut rng, if thorough { 20_000 } else { 2_000 });
    for n in 2..=7usize {
        for slot in 0..n {
            for &b in &bad {
                let mut ws: Vec<u32> = (0..n).map(|_| sym[rng.below(52) as usize]).collect();
                ws[slot] = b;
                s.evaluations += 1;
                s.nontrivial += 1;
                let want = ws.iter().fold(0u64, |a, w| a | bit_of(*w));
                let got = H::mk(&ws).unwrap().bc();
                if got != want {
                    s.fail("set built from a hand is not the set of its real cards (a slot holds a word that is not a card)", &join(&ws), &want.to_string(), &got.to_string());
                }
            }
        }
    }
    let sets = bit_sets(&mut rng, if thorough { 2_000_000 } else { 200_000 });
    for (k, &x) in sets.iter().enumerate() {
        s.evaluations += 1;
        let y = match k % 4 { 0 => sets[(k * 7 + 3) % sets.len()], 1 => x & rng.next(), 2 => 1u64 << rng.below(64), _ => x | (1u64 << rng.below(64)) };
        let got = (x.fold_in(y), x.has(y), x.number_of_cards(), x.is_single_card(), BC64::is_valid(&x));
        let want = (x | y, y & !x == 0, (0..64).filter(|i| x >> i & 1 == 1).count() as u32, x != 0 && x & (x - 1) == 0, x != 0 && x & !all == 0);
        if got != want {
            s.fail("fold_in / has / number_of_cards / is_single_card / is_valid differ from set semantics", &format!("{x} {y}"), &format!("{want:?}"), &format!("{got:?}"));
        }
        // peel to exhaustion and two more
        let members: Vec<u64> = (0..52).rev().filter(|i| x >> i & 1 == 1).map(|i| 1u64 << i).collect();
        if !members.is_empty() { s.nontrivial += 1; }
        let mut cur = x;
        let mut ok = true;
        let mut trace = Vec::new();
        for step in 0..members.len() + 2 {
            let before = cur;
            let b = cur.peel();
            trace.push(b);
            let want_b = members.get(step).copied().unwrap_or(0);
            let want_after = if want_b != 0 { before & !want_b } else { before };
            if b != want_b || cur != want_after { ok = false; }
        }
        if !ok {
            s.fail("peel sequence is not 'members in deck order, then blank without changing the set'", &x.to_string(), &format!("{members:?} then 0 0"), &format!("{trace:?} final {cur}"));
        }
    }
    {
        let parts: Vec<Sweep> = par_ranges(0x110000, threads() * 2, |lo, hi| {
            let mut p = Sweep::default();
            for cp in lo as u32..hi as u32 {
                let Some(ch) = char::from_u32(cp) else { continue };
                let text = format!("AS{ch}KS{ch}{ch}QH x{ch}JD");
                p.evaluations += 1;
                let want = spec_tokens(&text).iter().fold(0u64, |a, x| a | bit_of(spec_token(x)));
                let got = guarded(|| <BinaryCard as BC64>::from_index(&text));
                if got != Some(want) {
                    p.fail("set built from text: only white space separates tokens", &format!("{text:?} (U+{cp:04X} between tokens)"), &want.to_string(), &format!("{got:?}"));
                }
            }
            p
        });
        for p in parts { s.merge(p); }
    }
    for t in long_card_texts(&mut rng, if thorough { 4_000 } else { 400 }) {
        s.evaluations += 1;
        s.nontrivial += 1;
        let want = spec_tokens(&t).iter().fold(0u64, |a, x| a | bit_of(spec_token(x)));
        let got = guarded(|| <BinaryCard as BC64>::from_index(&t));
        if got != Some(want) {
            s.fail("set built from a long text is not the set of the cards its tokens name", &format!("{} tokens: {}...{}", spec_tokens(&t).len(), &t[..24.min(t.len())], &t[t.len().saturating_sub(12)..]), &want.to_string(), &format!("{got:?}"));
        }
    }
    // very many tokens: a count kept in a narrow integer, a cap on the number of tokens looked at
    for count in [255usize, 256, 65_535, 65_536, 1 << 20, (1 << 22) + 1, 5_000_000] {
        let mut t = "2c ".repeat(count);
        t.push_str("AS KD");
        s.evaluations += 1;
        s.nontrivial += 1;
        let want = bit_of(layout_word(0, 0)) | bit_of(layout_word(12, 3)) | bit_of(layout_word(11, 1));
        let got = guarded(|| <BinaryCard as BC64>::from_index(&t));
        if got != Some(want) {
            s.fail("set built from a text with very many tokens is not the set of the cards its tokens name", &format!("\"2c \" x {count} followed by \"AS KD\""), &want.to_string(), &format!("{got:?}"));
        }
    }
    // every Unicode scalar before, between and after card tokens: only white space separates
    for cp in 0u32..0x11_0000 {
        let Some(c) = char::from_u32(cp) else { continue };
        for t in [format!("{c}AS"), format!("AS{c}KD"), format!("AS {c} KD"), format!("KD{c}")] {
            s.evaluations += 1;
            let want = spec_tokens(&t).iter().fold(0u64, |a, x| a | bit_of(spec_token(x)));
            let got = guarded(|| <BinaryCard as BC64>::from_index(&t));
            if got != Some(want) {
                s.fail("set built from text: a character that is not white space separates tokens (or white space does not)", &format!("{t:?} (U+{cp:04X})"), &want.to_string(), &format!("{got:?}"));
            }
        }
    }
    s.rule = "hands of sizes 2..7 over {52 cards, blank} with repeats, and hands with a word that is not a card (every marked card, one-bit neighbours, hybrids, constants) in every slot in turn: from_n against the OR of the layout bit of every real card; structured (empty, full, singletons, rank groups, overflow bits, boundaries) and seeded 64-bit sets: fold_in, has, number_of_cards, is_single_card, is_valid against bit-level semantics and the full peel sequence (to exhaustion + 2) step by step; texts: seeded, long, up to 5,000,000 tokens, and every Unicode scalar before / between / after card tokens; non-trivial = non-empty".into();
    let mut x = 0b1011u64;
    s.sample(format!("peel x4 from 0b1011: {:?} leaving {}", [x.peel(), x.peel(), x.peel(), x.peel()], x));
    s
}

/// C16: Two::try_from(BinaryCard) against the statement of the property.
fn sweep_c16(seed: u64, thorough: bool) -> Sweep {
    let mut s = Sweep::default();
    let deck = layout_deck();
    let mut check = |x: u64, s: &mut Sweep| {
        s.evaluations += 1;
        let got = guarded(|| Two::try_from(x).map(|t| (t.to_arr(), <BinaryCard as BC64>::from_two(t))));
        let pop = x.count_ones();
        let want: Result<([u32; 2], u64), HandError> = if pop < 2 {
            Err(HandError::NotEnoughCards)
        } else if pop > 2 {
            Err(HandError::TooManyCards)
        } else {
            let hi = 63 - x.leading_zeros() as usize;
            let lo = x.trailing_zeros() as usize;
            if hi < 52 { Ok(([deck[51 - hi], deck[51 - lo]], x)) } else { Err(HandError::InvalidBinaryFormat) }
        };
        if pop == 2 { s.nontrivial += 1; }
        if got.as_ref() != Some(&want) {
            s.fail("Two::try_from(BinaryCard)", &x.to_string(), &format!("{want:?}"), &format!("{got:?}"));
        }
    };
    check(0, &mut s);
    for i in 0..64 {
        check(1 << i, &mut s);
        for j in 0..i {
            check((1 << i) | (1 << j), &mut s);
        }
    }
    s.count("all one- and two-bit values", 64 + 2016);
    let mut rng = Rng::new(seed ^ 0xC16);
    for pop in 0..=64u32 {
        for _ in 0..(if thorough { 100_000 } else { 10_000 }) {
            let mut bits: Vec<u32> = (0..64).collect();
            rng.shuffle(&mut bits);
            let x = bits[..pop as usize].iter().fold(0u64, |a, b| a | (1u64 << b));
            check(x, &mut s);
        }
    }
    for x in bit_sets(&mut rng, 100_000) {
        check(x, &mut s);
    }
    s.rule = "all 64 one-bit and 2,016 two-bit values exhaustively, seeded values of every population count 0..64, structured sets: result, error kind, card order and round trip through from_two; non-trivial = exactly two bits".into();
    s.sample(format!("try_from(3) = {:?}", Two::try_from(3u64).map(|t| t.to_arr())));
    s.sample(format!("try_from(2^52 + 1) = {:?}", Two::try_from((1u64 << 52) + 1).map(|t| t.to_arr())));
    s
}

/// C12: parsers against the token grammar.
fn sweep_c12(seed: u64, thorough: bool) -> Sweep {
    let mut s = Sweep::default();
    // the two symbol tables over every Unicode scalar value
    for cp in 0u32..=0x10FFFF {
        if let Some(c) = char::from_u32(cp) {
            s.evaluations += 1;
            let r = CardRank::from_char(c) as u32;
            let su = CardSuit::from_char(c) as u32;
            let want_r = spec_rank(c).map(|x| x + 2).unwrap_or(0);
            let want_s = spec_suit(c).map(|x| x + 1).unwrap_or(0);
            if r != want_r || su != want_s {
                s.fail("rank / suit symbol table", &format!("U+{cp:04X}"), &format!("{want_r} {want_s}"), &format!("{r} {su}"));
            }
        }
    }
    s.count("unicode scalar values", 1_112_064);
    let mut rng = Rng::new(seed ^ 0xC12);
    for (kind, t) in c12_strings(&mut rng, thorough) {
        s.evaluations += 1;
        s.count(&kind, 1);
        let want = spec_token(&t);
        if want != 0 { s.nontrivial += 1; }
        match guarded(|| <CKCNumber as PokerCard>::from_index(&t)) {
            Some(g) if g == want => {}
            Some(g) => s.fail("card token", &show_text(&t), &want.to_string(), &g.to_string()),
            None => s.fail("card token parsing panics", &show_text(&t), &want.to_string(), "panic"),
        }
        let toks = spec_tokens(&t);
        for n in 2..=7u64 {
            let want_h = if toks.len() < n as usize { "none".to_string() } else { join(toks[..n as usize].iter().map(|x| spec_token(x))) };
            let got = guarded(|| parse_hand(n, &t));
            if got.as_deref() != Some(&want_h) {
                s.fail(&format!("{n}-slot hand parser"), &show_text(&t), &want_h, &format!("{got:?}"));
            }
        }
        let want_bc = toks.iter().fold(0u64, |a, x| a | <BinaryCard as BC64>::from_ckc(spec_token(x)));
        match guarded(|| <BinaryCard as BC64>::from_index(&t)) {
            Some(g) if g == want_bc => {}
            other => s.fail("bit-set from text", &show_text(&t), &want_bc.to_string(), &format!("{other:?}")),
        }
    }
    // every Unicode scalar as the first character (before a suit symbol) and as the second character (after a
    // rank symbol) of a token, through EVERY text entry point: the card token, the six hand parsers,
    // parse::five_from_index and the text bit-set (a transformation applied by one parser only is seen here)
    let parts: Vec<Sweep> = par_ranges(0x110000, threads() * 2, |lo, hi| {
        let mut p = Sweep::default();
        for cp in lo as u32..hi as u32 {
            let Some(ch) = char::from_u32(cp) else { continue };
            // the scalar in the first and in the second position of a token; before, inside and after a complete
            // card token; and between two card tokens with nothing else in the text
            let templates = [
                (format!("{ch}s"), 0usize, true), (format!("A{ch}"), 1, true),
                (format!("{ch}AS"), 0, true), (format!("A{ch}S"), 1, true), (format!("AS{ch}"), 2, true),
                (format!("AS{ch}KS"), 2, false), (format!("{ch}AS"), 0, false), (format!("AS{ch}"), 2, false),
            ];
            for (tok, slot, filler) in templates {
                let text = if filler { format!("{tok} KS QS JS TS 9S 8S") } else { tok.clone() };
                let toks = spec_tokens(&text);
                p.evaluations += 1;
                // the card token entry point takes the whole string as one token (no splitting)
                let want_tok = spec_token(&tok);
                let got_tok = guarded(|| <CKCNumber as PokerCard>::from_index(&tok));
                if got_tok != Some(want_tok) {
                    p.fail("card token", &format!("{tok:?} (U+{cp:04X} in position {slot})"), &want_tok.to_string(), &format!("{got_tok:?}"));
                }
                for n in 2..=7u64 {
                    let want_h = if toks.len() < n as usize { "none".to_string() } else { join(toks[..n as usize].iter().map(|x| spec_token(x))) };
                    let got = guarded(|| parse_hand(n, &text));
                    if got.as_deref() != Some(&want_h) {
                        p.fail(&format!("{n}-slot hand parser"), &format!("{text:?} (U+{cp:04X} in position {slot})"), &want_h, &format!("{got:?}"));
                    }
                }
                let want_bc = toks.iter().fold(0u64, |a, x| a | <BinaryCard as BC64>::from_ckc(spec_token(x)));
                let got_bc = guarded(|| <BinaryCard as BC64>::from_index(&text));
                if got_bc != Some(want_bc) {
                    p.fail("bit-set from text", &format!("{text:?} (U+{cp:04X} in position {slot})"), &want_bc.to_string(), &format!("{got_bc:?}"));
                }
            }
        }
        p
    });
    for p in parts { s.merge(p); }
    s.count("every scalar as 1st / 2nd character of a token, through all nine text entry points", 2 * 1_112_064);
    // every Unicode scalar as a would-be SEPARATOR between two card tokens (and after a token): only white
    // space separates tokens, through every text entry point
    let parts: Vec<Sweep> = par_ranges(0x110000, threads() * 2, |lo, hi| {
        let mut p = Sweep::default();
        for cp in lo as u32..hi as u32 {
            let Some(ch) = char::from_u32(cp) else { continue };
            let text = format!("AS{ch}KS 2C{ch} 3C 4C 5C 6C 7C");
            let toks = spec_tokens(&text);
            p.evaluations += 1;
            for n in 2..=7u64 {
                let want_h = if toks.len() < n as usize { "none".to_string() } else { join(toks[..n as usize].iter().map(|x| spec_token(x))) };
                let got = guarded(|| parse_hand(n, &text));
                if got.as_deref() != Some(&want_h) {
                    p.fail(&format!("{n}-slot hand parser (separator test)"), &format!("{text:?} (U+{cp:04X} between tokens)"), &want_h, &format!("{got:?}"));
                }
            }
            let want_bc = toks.iter().fold(0u64, |a, x| a | <BinaryCard as BC64>::from_ckc(spec_token(x)));
            let got_bc = guarded(|| <BinaryCard as BC64>::from_index(&text));
            if got_bc != Some(want_bc) {
                p.fail("bit-set from text (separator test)", &format!("{text:?} (U+{cp:04X} between tokens)"), &want_bc.to_string(), &format!("{got_bc:?}"));
            }
        }
        p
    });
    for p in parts { s.merge(p); }
    s.count("every scalar as a separator candidate between card tokens", 1_112_064);
    for w in layout_deck() {
        s.evaluations += 2;
        s.nontrivial += 2;
        let a: String = [w.get_rank_char(), w.get_suit_char()].iter().collect();
        let b: String = [w.get_rank_char(), w.get_suit_letter()].iter().collect();
        if <CKCNumber as PokerCard>::from_index(&a) != w || <CKCNumber as PokerCard>::from_index(&b) != w {
            s.fail("rendering a card and parsing it back", &format!("{a} / {b}"), &w.to_string(), &format!("{} {}", <CKCNumber as PokerCard>::from_index(&a), <CKCNumber as PokerCard>::from_index(&b)));
        }
    }
    s.rule = "both symbol tables over all 1,112,064 scalar values; every pair of leading characters from {35 symbols, separators, multi-byte characters, NUL, non-symbols} x 4 tails, hand strings with 0..9 tokens and mixed separators, seeded Unicode strings: card token, the six hand parsers (incl. parse::five_from_index) and the text bit-set against a hand-written token grammar; 52 cards x 2 renderings round trip; non-trivial = the string starts with a card token".into();
    s.sample(format!("from_index(\"tc!\") = {}", <CKCNumber as PokerCard>::from_index("tc!")));
    s.sample(format!("Two::try_from(\"AS\\u{{a0}}K♠\") = {}", parse_hand(2, "AS\u{a0}K♠")));
    s
}

/// C19: containers against a plain array receiving the same writes.
fn sweep_c19(seed: u64, thorough: bool) -> Sweep {
    let mut s = Sweep::default();
    let mut rng = Rng::new(seed ^ 0xC19);
    for n in 2..=7usize {
        for round in 0..(if thorough { 200_000 } else { 20_000 }) {
            let small = round % 2 == 1;
            let word = |rng: &mut Rng| -> u32 {
                if small { [0u32, 1, 2, 268471337, 69634, u32::MAX, 268471337 | (1 << 29), 69634 | (3 << 30), 134253349 | (1 << 31)][rng.below(9) as usize] } else { rng.next() as u32 }
            };
            let init: Vec<u32> = (0..n).map(|_| word(&mut rng)).collect();
            let mut model = init.clone();
            let Some(mut h) = H::mk(&init) else { continue };
            let len = if round < n { 1 } else { 1 + rng.below(40) as usize };
            let mut hist = Vec::new();
            for step in 0..len {
                let k = if round < n { round } else { rng.below(n as u64) as usize };
                let x = word(&mut rng);
                hist.push(format!("set_{k}({x})"));
                h.set_named(k as u64, x);
                model[k] = x;
                s.evaluations += 1;
                s.nontrivial += 1;
                if h.vec() != model || h.named() != model || h.iter_vec() != model || h.first_via_trait() != model[0] || h.first_generic() != model[0] {
                    s.fail(&format!("{n}-slot container differs from an array with the same writes after step {step}"), &format!("{:?} {}", init, hist.join(" ")), &format!("{model:?}"), &format!("to_arr {:?} accessors {:?} iter {:?} <T as HandValidator>::first {} generic first {}", h.vec(), h.named(), h.iter_vec(), h.first_via_trait(), h.first_generic()));
                    break;
                }
            }
        }
    }
    for _ in 0..20_000 {
        let w: Vec<u32> = (0..7).map(|_| rng.next() as u32).collect();
        s.evaluations += 2;
        let six = Six::from_1_and_2_and_3(w[0], Two::new(w[1], w[2]), Three::from([w[3], w[4], w[5]])).to_arr();
        let seven = Seven::new(Two::new(w[0], w[1]), Five::new(w[2], w[3], w[4], w[5], w[6])).to_arr();
        if six[..] != w[..6] || seven[..] != w[..] {
            s.fail("constructor from parts", &join(&w), &join(&w), &format!("{six:?} {seven:?}"));
        }
    }
    for n in [6usize, 7] {
        let ws: Vec<u32> = (0..n).map(|i| 7000 + i as u32).collect();
        let total = n.pow(5);
        for t in 0..total {
            let row: Vec<usize> = (0..5).map(|k| (t / n.pow(4 - k as u32)) % n).collect();
            let perm = [row[0] as u8, row[1] as u8, row[2] as u8, row[3] as u8, row[4] as u8];
            s.evaluations += 1;
            let got = if n == 6 {
                Six::from([ws[0], ws[1], ws[2], ws[3], ws[4], ws[5]]).five_from_permutation(perm).to_arr()
            } else {
                Seven::from([ws[0], ws[1], ws[2], ws[3], ws[4], ws[5], ws[6]]).five_from_permutation(perm).to_arr()
            };
            let want: Vec<u32> = row.iter().map(|i| ws[*i]).collect();
            if got[..] != want[..] {
                s.fail("five_from_permutation", &format!("{n} slots, row {row:?}"), &join(&want), &join(got));
            }
        }
    }
    s.rule = "seeded histories (constructor from an array of arbitrary words, then 1..40 named-setter calls) on Two..Seven compared after every step, read three ways (to_arr, named accessors, iter); the first histories of every size write each slot once; both composite constructors; every in-range index 5-tuple for slot selection from six and seven slots (6^5 + 7^5)".into();
    let mut t = Three::from([1, 2, 3]);
    t.set_third(9);
    s.sample(format!("Three[1,2,3].set_third(9) -> {:?}", t.to_arr()));
    s
}

// ------------------------------------------------------------------------------------------------------------------
// History search.  Run only when the source scan found state carried between calls (a static cache, an atomic …):
// the crate is then no longer a function of its arguments, so single calls from a cold state prove nothing.  Pairs of
// calls on *related* hands (the second one a small edit of the first: a suit moved, two slots swapped, a slot replaced
// by a deck neighbour, a blank or a word that is not a card) are what a stale one-entry cache gets wrong.
fn spec_best(oracle: &Oracle5, deck: &[u32; 52], w: &[u32]) -> u16 {
    let idx: Vec<usize> = w.iter().map(|x| deck.iter().position(|d| d == x).unwrap()).collect();
    let n = idx.len();
    let mut best = u16::MAX;
    for mask in 0u32..1 << n {
        if mask.count_ones() != 5 { continue; }
        let mut five = [0usize; 5];
        let mut k = 0;
        for i in 0..n { if mask >> i & 1 == 1 { five[k] = idx[i]; k += 1; } }
        best = best.min(oracle.of_indices(&five).0);
    }
    best
}

fn history_check(s: &mut Sweep, oracle: &Oracle5, deck: &[u32; 52], before: &[u32], w: &[u32], free_fn: bool) {
    let n = w.len();
    let valid = w.iter().all(|x| deck.contains(x)) && (0..n).all(|i| (0..i).all(|j| w[i] != w[j]));
    let cards_or_blank = w.iter().all(|x| *x == 0 || deck.contains(x));
    let want = if valid { spec_best(oracle, deck, w) } else { 0 };
    let inp = format!("after ranking {} : {}", join(before), join(w));
    s.evaluations += 1;
    if valid { s.nontrivial += 1; }
    macro_rules! go {
        ($h:expr) => {{
            let h = $h;
            match guarded(|| (h.hand_rank_value_validated(), h.hand_rank_validated().value)) {
                Some((a, b)) if a == want && b == want => {}
                other => s.fail("validated ranking depends on the call before it", &inp, &want.to_string(), &format!("{other:?}")),
            }
            if valid || cards_or_blank {
                match guarded(|| { let (v, f) = h.hand_rank_value_and_hand(); (v, f.to_arr(), h.hand_rank_value(), h.hand_rank().value) }) {
                    Some((v, f, a, b)) => {
                        if valid && [v, a, b] != [want; 3] {
                            s.fail("ranking depends on the call before it", &inp, &want.to_string(), &format!("{:?}", [v, a, b]));
                        }
                        if valid {
                            let ok = f.iter().all(|x| w.contains(x)) && (n == 5 || f.windows(2).all(|p| p[0] > p[1]))
                                && guarded(|| Five::from(f).hand_rank_value()) == Some(v);
                            if !ok { s.fail("reported best hand depends on the call before it", &inp, &format!("five of the input with value {v}"), &format!("{f:?}")); }
                        }
                        if n == 5 && w.contains(&0) && [v, a, b] != [0; 3] {
                            s.fail("a five-slot hand with a blank got a value", &inp, "0", &format!("{:?}", [v, a, b]));
                        }
                    }
                    None => s.fail("ranking panics on card-or-blank slots", &inp, "returns", "panic"),
                }
            }
        }};
    }
    match n {
        5 => {
            go!(Five::from([w[0], w[1], w[2], w[3], w[4]]));
            if free_fn {
                #[allow(deprecated)]
                match guarded(|| ckc_rs::evaluate::five_cards([w[0], w[1], w[2], w[3], w[4]])) {
                    Some(v) if v == want => {}
                    other => s.fail("evaluate::five_cards depends on the call before it", &inp, &want.to_string(), &format!("{other:?}")),
                }
            }
        }
        6 => go!(Six::from([w[0], w[1], w[2], w[3], w[4], w[5]])),
        _ => go!(Seven::from([w[0], w[1], w[2], w[3], w[4], w[5], w[6]])),
    }
}

/// the Chen score of two distinct real cards given as (rank 0..13, suit) pairs, in integer half-points
fn chen_spec(r1: u32, s1: u32, r2: u32, s2: u32) -> i8 {
    let (hi, lo) = (r1.max(r2) + 2, r1.min(r2) + 2);
    let base2: i32 = match hi { 14 => 20, 13 => 16, 12 => 14, 11 => 12, r => r as i32 };
    let mut p2 = if hi == lo {
        (2 * base2).max(10)
    } else {
        let gap = hi - lo - 1;
        let pen2 = match gap { 0 => 0, 1 => 2, 2 => 4, 3 => 8, _ => 10 };
        base2 - pen2 + if gap < 2 && hi < 12 { 2 } else { 0 }
    };
    if s1 == s2 { p2 += 4; }
    (p2 + 1).div_euclid(2) as i8
}

/// C17 with state in the source: score one pair (also pairs holding a blank or a word that is not a card), then every
/// ordered pair of real cards, in a fresh process; a score that depends on what was scored before shows here
fn history_c17(seed: u64) -> Sweep {
    let mut s = Sweep::default();
    s.rule = "one call of chen_formula on a first pair (every ordered pair over cards, blank and words that are not cards), then all 2,652 ordered pairs of real cards against the Chen formula".into();
    let mut rng = Rng::new(seed ^ 0x4117);
    let mut firsts: Vec<(u32, u32)> = Vec::new();
    let mut sym: Vec<u32> = vec![0];
    sym.extend(not_card_words(&mut rng, 6));
    let cards: Vec<(u32, u32, u32)> = (0u32..13).flat_map(|r| (0u32..4).map(move |su| (r, su, layout_word(r, su)))).collect();
    for (_, _, w) in &cards {
        for x in &sym {
            firsts.push((*w, *x));
            firsts.push((*x, *w));
        }
    }
    for x in &sym { for y in &sym { firsts.push((*x, *y)); } }
    for (_, _, a) in &cards { for (_, _, b) in &cards { if a != b { firsts.push((*a, *b)); } } }
    let t0 = std::time::Instant::now();
    for (fa, fb) in firsts {
        if s.failure_count >= 8 || t0.elapsed().as_secs() > 60 { break; }
        let _ = guarded(|| Two::new(fa, fb).chen_formula());
        for (r1, s1, a) in &cards {
            for (r2, s2, b) in &cards {
                if a == b { continue; }
                s.evaluations += 1;
                let want = chen_spec(*r1, *s1, *r2, *s2);
                let got = guarded(|| Two::new(*a, *b).chen_formula());
                if got != Some(want) {
                    s.fail("the score depends on the call before it", &format!("after scoring {fa} {fb} : {a} {b}"), &want.to_string(), &format!("{got:?}"));
                    break;
                }
            }
        }
    }
    s.nontrivial = s.evaluations;
    s.sample(format!("{} scored pairs in {:.1} s", s.evaluations, t0.elapsed().as_secs_f64()));
    s
}

pub fn history(prop: &str, seed: u64) -> Sweep {
    let mut s = Sweep::default();
    if prop == "C17" {
        return history_c17(seed);
    }
    if !matches!(prop, "C01" | "C02" | "C03" | "C04" | "C05" | "C06" | "C08" | "C09" | "C13") {
        s.rule = "no history search is defined for this property".into();
        s.samples.push(Json::esc("(none)"));
        return s;
    }
    s.rule = "pairs of consecutive ranking calls on related hands of 5, 6 and 7 slots (the second a 1-3 step edit of the first: suit of a slot changed, two slots swapped, a slot replaced by a deck neighbour / another card / blank / a word that is not a card), every entry point, against the class oracle; single thread, bounded time".into();
    let oracle = Oracle5::load();
    let deck = layout_deck();
    let mut rng = Rng::new(seed ^ 0x4157);
    let junk = not_card_words(&mut rng, 50);
    let t0 = std::time::Instant::now();
    let budget = std::time::Duration::from_secs(std::env::var("CKC_HISTORY_SECS").ok().and_then(|x| x.parse().ok()).unwrap_or(30));
    let sizes: &[usize] = match prop { "C01" | "C13" => &[5], "C02" | "C03" | "C09" => &[6, 7], _ => &[5, 6, 7] };
    let with_junk = matches!(prop, "C04" | "C05");
    let mut round = 0u64;
    while t0.elapsed() < budget && s.failure_count < 8 {
        round += 1;
        let n = sizes[(round % sizes.len() as u64) as usize];
        let mut idx: Vec<usize> = (0..52).collect();
        rng.shuffle(&mut idx);
        let mut x: Vec<u32> = idx[..n].iter().map(|i| deck[*i]).collect();
        match rng.below(4) { 0 => x.sort_unstable_by(|a, b| b.cmp(a)), 1 => x.sort_unstable(), _ => {} }
        history_check(&mut s, &oracle, &deck, &[], &x, true);
        // a short chain of relatives, each ranked right after the one it was derived from
        let mut cur = x.clone();
        for _ in 0..6 {
            let mut y = cur.clone();
            for _ in 0..1 + rng.below(3) {
                let k = rng.below(n as u64) as usize;
                let pos = deck.iter().position(|d| *d == y[k]);
                y[k] = match (rng.below(if with_junk { 9 } else { 6 }), pos) {
                    (0, Some(p)) => deck[(p + 13 * (1 + rng.below(3) as usize)) % 52],
                    (1, Some(p)) => deck[(p + 1) % 52],
                    (2, Some(p)) => deck[(p + 51) % 52],
                    (3, _) => { let j = rng.below(n as u64) as usize; let t = y[j]; y[j] = y[k]; t }
                    (4, _) => deck[rng.below(52) as usize],
                    (5, Some(p)) => deck[(p / 13) * 13 + rng.below(13) as usize],
                    (6, _) => 0,
                    (7, _) => junk[rng.below(junk.len() as u64) as usize],
                    (8, _) => 0,
                    (_, None) => deck[rng.below(52) as usize],
                    _ => unreachable!(),
                };
            }
            if y == cur { continue; }
            history_check(&mut s, &oracle, &deck, &cur, &y, true);
            cur = y;
        }
    }
    s.sample(format!("{round} chains of 7 related hands in {:.1} s", t0.elapsed().as_secs_f64()));
    s
}
