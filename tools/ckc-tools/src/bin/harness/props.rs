//! Per-property request answering, case generation and implementation-vs-property sweeps.
use crate::{fmt_opt, guarded, join, Cases, Sweep};
use ckc_rs::cards::binary_card::{BinaryCard, BC64};
use ckc_rs::deck::Deck;
use ckc_rs::{CKCNumber, CardNumber, CardRank, CardSuit, PokerCard, Shifty};
use ckc_tools::*;
use strum::IntoEnumIterator;

fn rank_of_disc(d: u64) -> Option<CardRank> {
    CardRank::iter().find(|r| *r as u64 == d)
}
fn suit_of_disc(d: u64) -> Option<CardSuit> {
    CardSuit::iter().find(|s| *s as u64 == d)
}

fn chen2_exact(p: f32) -> String {
    let d = p * 2.0;
    if d.fract() == 0.0 && d.abs() < 1000.0 { format!("{}", d as i64) } else { format!("inexact({p})") }
}

/// The crate's answer to one driver request.
pub fn answer(req: &str) -> String {
    let mut it = req.split_whitespace();
    let cmd = match it.next() {
        Some(c) => c,
        None => return "bad-request".into(),
    };
    let args: Option<Vec<u64>> = it.map(|t| t.parse::<u64>().ok()).collect();
    let args = match args {
        Some(a) => a,
        None => return "bad-request".into(),
    };
    match (cmd, args.as_slice()) {
        ("acc", [w]) if *w < (1 << 32) => {
            let w = *w as u32;
            fmt_opt(guarded(|| {
                join([
                    (w.get_card_rank() as u8).to_string(),
                    (w.get_card_suit() as u8).to_string(),
                    w.get_rank_prime().to_string(),
                    w.get_rank_bit().to_string(),
                    w.get_rank_flag().to_string(),
                    w.get_suit_bit().to_string(),
                    w.get_suit_flag().to_string(),
                    (w.get_rank_char() as u32).to_string(),
                    (w.get_suit_char() as u32).to_string(),
                    (w.get_suit_letter() as u32).to_string(),
                    chen2_exact(w.get_chen_points()),
                    (w.next_suit() as u8).to_string(),
                    (w.is_blank() as u8).to_string(),
                    CardNumber::filter(w).to_string(),
                    w.shift_suit().to_string(),
                    w.flag_as_pair().to_string(),
                    w.flag_as_trips().to_string(),
                    w.flag_as_quads().to_string(),
                    w.strip_multiples_flags().to_string(),
                    <BinaryCard as BC64>::from_ckc(w).to_string(),
                ])
            }))
        }
        ("create", [r, s]) => match (rank_of_disc(*r), suit_of_disc(*s)) {
            (Some(r), Some(s)) => fmt_opt(guarded(|| <CKCNumber as PokerCard>::create(r, s))),
            _ => "bad-request".into(),
        },
        ("deck", [i]) => fmt_opt(guarded(|| Deck::get(*i as usize))),
        ("frombc", [x]) => fmt_opt(guarded(|| <CKCNumber as PokerCard>::from_binary_card(*x))),
        _ => "bad-request".into(),
    }
}

/// words worth looking at: the 52 cards, blank, every multiples-flag combination on them,
/// single-bit corruptions, field-boundary patterns
pub fn structured_words() -> Vec<u32> {
    let mut v = vec![0u32, 1, 2, 23, u32::MAX, 0x1FFF0000, 0xF000, 0x3F, 0xF00];
    let deck = layout_deck();
    for w in deck {
        v.push(w);
        for m in 1u32..8 {
            v.push(w | (m << 29));
        }
    }
    for &w in &[deck[0], deck[17], deck[51]] {
        for b in 0..32 {
            v.push(w ^ (1 << b));
        }
    }
    v
}

pub fn cases(prop: &str, thorough: bool, seed: u64, c: &mut Cases) {
    let mut rng = Rng::new(seed ^ 0xC0DE);
    match prop {
        "C10" => {
            for w in structured_words() {
                c.emit("acc/structured", &format!("acc {w}"));
            }
            // every rank-field value with a few suit fields, every suit field with a few rank fields
            for m in 0u32..8192 {
                for s in [0u32, 1, 8, 5] {
                    c.emit("acc/rank-field", &format!("acc {}", (m << 16) | (s << 12) | (m & 0xFFF)));
                }
            }
            for s in 0u32..16 {
                for m in [0u32, 1, 4096, 3, 8191] {
                    c.emit("acc/suit-field", &format!("acc {}", (m << 16) | (s << 12)));
                }
            }
            let n = if thorough { 400_000 } else { 40_000 };
            for _ in 0..n {
                c.emit("acc/seeded", &format!("acc {}", rng.next() as u32));
            }
            for r in CardRank::iter() {
                for s in CardSuit::iter() {
                    c.emit("create", &format!("create {} {}", r as u8, s as u8));
                }
            }
        }
        _ => panic!("no cases for {prop}"),
    }
}

pub fn sweep(prop: &str, thorough: bool, seed: u64) -> Sweep {
    let _ = (thorough, seed);
    match prop {
        "C10" => sweep_c10(),
        _ => panic!("no sweep for {prop}"),
    }
}

const RANK_CHARS: [char; 13] = ['2', '3', '4', '5', '6', '7', '8', '9', 'T', 'J', 'Q', 'K', 'A'];
const SUIT_GLYPHS: [char; 4] = ['♣', '♦', '♥', '♠'];
const SUIT_LETTERS: [char; 4] = ['C', 'D', 'H', 'S'];

/// C10, implementation against the documented layout (no model involved).
fn sweep_c10() -> Sweep {
    let mut s = Sweep { exhaustive: true, ..Default::default() };
    s.rule = "52 named constants, deck entries, 70 constructor pairs and all accessors against the documented layout; \
              filter over all 2^32 words against membership in the 52 layout words; a case is non-trivial when the word is \
              one of the 52 cards or within one bit of one"
        .into();
    let named = named_cards();
    let deck = layout_deck();
    for (i, (name, w, _)) in named.iter().enumerate() {
        s.evaluations += 1;
        s.nontrivial += 1;
        if *w != deck[i] {
            s.fail("named constant differs from layout word", name, &deck[i].to_string(), &w.to_string());
        }
        if Deck::get(i) != deck[i] {
            s.fail("deck entry differs from layout word", &i.to_string(), &deck[i].to_string(), &Deck::get(i).to_string());
        }
    }
    for rank in 0u32..13 {
        for suit in 0u32..4 {
            let w = layout_word(rank, suit);
            s.evaluations += 1;
            s.nontrivial += 1;
            let r = CardRank::iter().find(|r| *r as u32 == rank + 2).unwrap();
            let su = CardSuit::iter().find(|x| *x as u32 == suit + 1).unwrap();
            let got = (
                <CKCNumber as PokerCard>::create(r, su),
                w.get_card_rank() as u32,
                w.get_card_suit() as u32,
                w.get_rank_prime(),
                w.get_rank_bit(),
                w.get_suit_bit(),
                w.get_rank_char(),
                w.get_suit_char(),
                w.get_suit_letter(),
                w.is_blank(),
            );
            let want = (
                w,
                rank + 2,
                suit + 1,
                PRIMES[rank as usize],
                1 << rank,
                1 << suit,
                RANK_CHARS[rank as usize],
                SUIT_GLYPHS[suit as usize],
                SUIT_LETTERS[suit as usize],
                false,
            );
            if got != want {
                s.fail("constructor/accessor differs from layout", &format!("rank {rank} suit {suit} word {w}"), &format!("{want:?}"), &format!("{got:?}"));
            }
            if s.samples.len() < 3 {
                s.sample(format!("rank {rank} suit {suit} word {w}: {got:?}"));
            }
        }
    }
    for r in CardRank::iter() {
        for su in CardSuit::iter() {
            if r == CardRank::BLANK || su == CardSuit::BLANK {
                s.evaluations += 1;
                let w = <CKCNumber as PokerCard>::create(r, su);
                if w != 0 {
                    s.fail("create with a blank member is not blank", &format!("{r:?} {su:?}"), "0", &w.to_string());
                }
            }
        }
    }
    // filter over all 2^32 words
    let mut sorted = deck;
    sorted.sort_unstable();
    let parts = threads() * 4;
    let bad: Vec<Vec<(u32, u32)>> = par_ranges(1 << 32, parts, |lo, hi| {
        let mut v = Vec::new();
        for w in lo..hi {
            let w = w as u32;
            let want = if sorted.binary_search(&w).is_ok() { w } else { 0 };
            let got = CardNumber::filter(w);
            if got != want && v.len() < 4 {
                v.push((w, got));
            }
        }
        v
    });
    s.evaluations += 1 << 32;
    s.nontrivial += 52 * 33;
    s.count("filter/all-2^32-words", 1 << 32);
    for (w, got) in bad.concat() {
        let want = if sorted.binary_search(&w).is_ok() { w } else { 0 };
        s.fail("filter differs from 'identity on the 52 cards, blank elsewhere'", &w.to_string(), &want.to_string(), &got.to_string());
    }
    s.sample(format!("filter({}) = {}", deck[0], CardNumber::filter(deck[0])));
    s.sample(format!("filter({}) = {}", deck[0] ^ 1, CardNumber::filter(deck[0] ^ 1)));
    s
}
