//! Shared helpers for the two verification binaries (`extract`, `harness`).
//!
//! Nothing in here knows anything about poker: a list of the crate's 52 named
//! constants (so that the dump is taken from the *names*, not from the deck), a
//! seeded PRNG, a tiny JSON writer and a parallel range sweep.

use ckc_rs::cards::binary_card::{BinaryCard, BC64};
use ckc_rs::CardNumber;

/// (name, word constant, bit constant) for the 52 named cards, spades..clubs, ace..deuce.
pub fn named_cards() -> Vec<(&'static str, u32, u64)> {
    macro_rules! cards {
        ($($n:ident),* $(,)?) => { vec![ $( (stringify!($n), CardNumber::$n, <BinaryCard as BC64>::$n) ),* ] };
    }
    cards![
        ACE_SPADES, KING_SPADES, QUEEN_SPADES, JACK_SPADES, TEN_SPADES, NINE_SPADES, EIGHT_SPADES,
        SEVEN_SPADES, SIX_SPADES, FIVE_SPADES, FOUR_SPADES, TREY_SPADES, DEUCE_SPADES,
        ACE_HEARTS, KING_HEARTS, QUEEN_HEARTS, JACK_HEARTS, TEN_HEARTS, NINE_HEARTS, EIGHT_HEARTS,
        SEVEN_HEARTS, SIX_HEARTS, FIVE_HEARTS, FOUR_HEARTS, TREY_HEARTS, DEUCE_HEARTS,
        ACE_DIAMONDS, KING_DIAMONDS, QUEEN_DIAMONDS, JACK_DIAMONDS, TEN_DIAMONDS, NINE_DIAMONDS, EIGHT_DIAMONDS,
        SEVEN_DIAMONDS, SIX_DIAMONDS, FIVE_DIAMONDS, FOUR_DIAMONDS, TREY_DIAMONDS, DEUCE_DIAMONDS,
        ACE_CLUBS, KING_CLUBS, QUEEN_CLUBS, JACK_CLUBS, TEN_CLUBS, NINE_CLUBS, EIGHT_CLUBS,
        SEVEN_CLUBS, SIX_CLUBS, FIVE_CLUBS, FOUR_CLUBS, TREY_CLUBS, DEUCE_CLUBS,
    ]
}

/// The documented layout, computed independently of every crate constant:
/// rank 0..12 (deuce..ace), suit 0..3 (clubs..spades).
pub const PRIMES: [u32; 13] = [2, 3, 5, 7, 11, 13, 17, 19, 23, 29, 31, 37, 41];
pub fn layout_word(rank: u32, suit: u32) -> u32 {
    (1u32 << (16 + rank)) | (rank << 8) | (1u32 << (12 + suit)) | PRIMES[rank as usize]
}
/// layout deck in the documented deck order: index i -> suit 3 - i/13, rank 12 - i%13
pub fn layout_deck() -> [u32; 52] {
    let mut d = [0u32; 52];
    for (i, slot) in d.iter_mut().enumerate() {
        *slot = layout_word(12 - (i as u32 % 13), 3 - (i as u32 / 13));
    }
    d
}

/// splitmix64: every random choice in the harness derives from one of these.
#[derive(Clone)]
pub struct Rng(pub u64);
impl Rng {
    pub fn new(seed: u64) -> Self {
        Rng(seed ^ 0x9E37_79B9_7F4A_7C15)
    }
    pub fn next(&mut self) -> u64 {
        self.0 = self.0.wrapping_add(0x9E37_79B9_7F4A_7C15);
        let mut z = self.0;
        z = (z ^ (z >> 30)).wrapping_mul(0xBF58_476D_1CE4_E5B9);
        z = (z ^ (z >> 27)).wrapping_mul(0x94D0_49BB_1331_11EB);
        z ^ (z >> 31)
    }
    pub fn below(&mut self, n: u64) -> u64 {
        if n == 0 { 0 } else { self.next() % n }
    }
    pub fn shuffle<T>(&mut self, v: &mut [T]) {
        for i in (1..v.len()).rev() {
            let j = self.below(i as u64 + 1) as usize;
            v.swap(i, j);
        }
    }
    pub fn fork(&mut self) -> Rng {
        Rng(self.next())
    }
}

/// Run `f(lo, hi)` over `0..n` split into `parts` contiguous ranges on scoped threads and
/// collect the results in range order.
pub fn par_ranges<T: Send, F: Fn(u64, u64) -> T + Sync>(n: u64, parts: u64, f: F) -> Vec<T> {
    let step = n.div_ceil(parts);
    let mut out: Vec<Option<T>> = (0..parts).map(|_| None).collect();
    std::thread::scope(|s| {
        let mut hs = Vec::new();
        for p in 0..parts {
            let lo = (p * step).min(n);
            let hi = ((p + 1) * step).min(n);
            let f = &f;
            hs.push(s.spawn(move || f(lo, hi)));
        }
        for (p, h) in hs.into_iter().enumerate() {
            out[p] = Some(h.join().expect("worker panicked"));
        }
    });
    out.into_iter().map(|x| x.unwrap()).collect()
}

pub fn threads() -> u64 {
    std::thread::available_parallelism().map(|n| n.get() as u64).unwrap_or(4).min(16)
}

/// Minimal JSON text builder (numbers, strings, arrays, objects).
#[derive(Default)]
pub struct Json {
    pub s: String,
}
impl Json {
    pub fn esc(x: &str) -> String {
        let mut o = String::from("\"");
        for c in x.chars() {
            match c {
                '"' => o.push_str("\\\""),
                '\\' => o.push_str("\\\\"),
                '\n' => o.push_str("\\n"),
                c if (c as u32) < 0x20 => o.push_str(&format!("\\u{:04x}", c as u32)),
                c => o.push(c),
            }
        }
        o.push('"');
        o
    }
    pub fn arr<I: IntoIterator<Item = String>>(items: I) -> String {
        let v: Vec<String> = items.into_iter().collect();
        format!("[{}]", v.join(","))
    }
    pub fn nums<T: std::fmt::Display, I: IntoIterator<Item = T>>(items: I) -> String {
        Json::arr(items.into_iter().map(|x| x.to_string()))
    }
    pub fn obj(fields: &[(String, String)]) -> String {
        let v: Vec<String> = fields.iter().map(|(k, v)| format!("{}:{}", Json::esc(k), v)).collect();
        format!("{{{}}}", v.join(",\n"))
    }
}

// ---- the card-token grammar, written out independently of the crate (used by the harness sweeps and by the
// ---- fuzz targets as the specification side)
pub fn spec_rank(c: char) -> Option<u32> {
    Some(match c {
        'A' | 'a' => 12, 'K' | 'k' => 11, 'Q' | 'q' => 10, 'J' | 'j' => 9, 'T' | 't' | '0' => 8,
        '9' => 7, '8' => 6, '7' => 5, '6' => 4, '5' => 3, '4' => 2, '3' => 1, '2' => 0,
        _ => return None,
    })
}
pub fn spec_suit(c: char) -> Option<u32> {
    Some(match c {
        'S' | 's' | '♠' | '♤' => 3, 'H' | 'h' | '♥' | '♡' => 2, 'D' | 'd' | '♦' | '♢' => 1, 'C' | 'c' | '♣' | '♧' => 0,
        _ => return None,
    })
}
pub fn spec_token(t: &str) -> u32 {
    let mut it = t.chars();
    match (it.next().and_then(spec_rank), it.next().and_then(spec_suit)) {
        (Some(r), Some(s)) => layout_word(r, s),
        _ => 0,
    }
}
/// whitespace-separated tokens, written out by hand over `char::is_whitespace`
pub fn spec_tokens(t: &str) -> Vec<String> {
    let mut out = Vec::new();
    let mut cur = String::new();
    for c in t.chars() {
        if c.is_whitespace() {
            if !cur.is_empty() { out.push(std::mem::take(&mut cur)); }
        } else {
            cur.push(c);
        }
    }
    if !cur.is_empty() { out.push(cur); }
    out
}

/// The spec-derived oracle (written by the Lean driver from `Spec.strength` only): class -> ordinal.
pub struct Oracle5 {
    pub ord: Vec<u16>,       // index: class code
    pub strength: Vec<u32>,  // index: class code
    pub classes: usize,
    pub cat_name: Vec<String>,   // index: ordinal (1..=7462)
    pub class_name: Vec<String>, // index: ordinal
}
pub fn class_code(sorted_desc: [u32; 5], flush: bool) -> usize {
    let mut e = 0usize;
    for r in sorted_desc {
        e = e * 13 + r as usize;
    }
    e * 2 + flush as usize
}
impl Oracle5 {
    pub fn load() -> Oracle5 {
        let path = std::env::var("CKC_ORACLE5").unwrap_or_else(|_| "build/oracle5.txt".into());
        let text = std::fs::read_to_string(&path).unwrap_or_else(|e| panic!("oracle file {path}: {e}"));
        let toks: Vec<&str> = text.split_whitespace().collect();
        assert!(toks.len() % 10 == 0, "oracle format");
        let mut ord = vec![0u16; 13usize.pow(5) * 2];
        let mut strength = vec![0u32; 13usize.pow(5) * 2];
        let mut cat_name = vec![String::new(); 7463];
        let mut class_name = vec![String::new(); 7463];
        for t in toks.chunks(10) {
            let ch: Vec<u64> = t[..8].iter().map(|x| x.parse().expect("oracle number")).collect();
            let code = class_code([ch[0] as u32, ch[1] as u32, ch[2] as u32, ch[3] as u32, ch[4] as u32], ch[5] == 1);
            ord[code] = ch[6] as u16;
            strength[code] = ch[7] as u32;
            if (ch[6] as usize) < cat_name.len() {
                cat_name[ch[6] as usize] = t[8].to_string();
                class_name[ch[6] as usize] = t[9].to_string();
            }
        }
        Oracle5 { ord, strength, classes: toks.len() / 10, cat_name, class_name }
    }
    /// deck indices (documented deck order) -> (ordinal, class code)
    pub fn of_indices(&self, idx: &[usize; 5]) -> (u16, usize) {
        let mut ranks = [0u32; 5];
        let mut flush = true;
        for k in 0..5 {
            ranks[k] = 12 - (idx[k] as u32 % 13);
            if idx[k] / 13 != idx[0] / 13 {
                flush = false;
            }
        }
        ranks.sort_unstable_by(|a, b| b.cmp(a));
        let code = class_code(ranks, flush);
        (self.ord[code], code)
    }
}
