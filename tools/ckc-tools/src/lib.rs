//! Shared helpers for the two verification binaries (`extract`, `harness`).
//!
//! Nothing in here knows anything about poker: a list of the crate's 52 named
//! constants (so that the dump is taken from the *names*, not from the deck), a
//! seeded PRNG, a tiny JSON writer and a parallel range sweep.

use ckc_rs::cards::binary_card::{BinaryCard, BC64};
use ckc_rs::CardNumber;

/// (name, word constant, bit constant) for the 52 named cards, spades..clubs, ace..deuce.
pub fn named_cards() -> Vec<(&'static str, u32, u64)> {
    macro_rules! cards {
        ($($n:ident),* $(,)?) => { vec![ $( (stringify!($n), CardNumber::$n, <BinaryCard as BC64>::$n) ),* ] };
    }
    cards![
        ACE_SPADES, KING_SPADES, QUEEN_SPADES, JACK_SPADES, TEN_SPADES, NINE_SPADES, EIGHT_SPADES,
        SEVEN_SPADES, SIX_SPADES, FIVE_SPADES, FOUR_SPADES, TREY_SPADES, DEUCE_SPADES,
        ACE_HEARTS, KING_HEARTS, QUEEN_HEARTS, JACK_HEARTS, TEN_HEARTS, NINE_HEARTS, EIGHT_HEARTS,
        SEVEN_HEARTS, SIX_HEARTS, FIVE_HEARTS, FOUR_HEARTS, TREY_HEARTS, DEUCE_HEARTS,
        ACE_DIAMONDS, KING_DIAMONDS, QUEEN_DIAMONDS, JACK_DIAMONDS, TEN_DIAMONDS, NINE_DIAMONDS, EIGHT_DIAMONDS,
        SEVEN_DIAMONDS, SIX_DIAMONDS, FIVE_DIAMONDS, FOUR_DIAMONDS, TREY_DIAMONDS, DEUCE_DIAMONDS,
        ACE_CLUBS, KING_CLUBS, QUEEN_CLUBS, JACK_CLUBS, TEN_CLUBS, NINE_CLUBS, EIGHT_CLUBS,
        SEVEN_CLUBS, SIX_CLUBS, FIVE_CLUBS, FOUR_CLUBS, TREY_CLUBS, DEUCE_CLUBS,
    ]
}

/// The documented layout, computed independently of every crate constant:
/// rank 0..12 (deuce..ace), suit 0..3 (clubs..spades).
pub const PRIMES: [u32; 13] = [2, 3, 5, 7, 11, 13, 17, 19, 23, 29, 31, 37, 41];
pub fn layout_word(rank: u32, suit: u32) -> u32 {
    (1u32 << (16 + rank)) | (rank << 8) | (1u32 << (12 + suit)) | PRIMES[rank as usize]
}
/// layout deck in the documented deck order: index i -> suit 3 - i/13, rank 12 - i%13
pub fn layout_deck() -> [u32; 52] {
    let mut d = [0u32; 52];
    for (i, slot) in d.iter_mut().enumerate() {
        *slot = layout_word(12 - (i as u32 % 13), 3 - (i as u32 / 13));
    }
    d
}

/// splitmix64: every random choice in the harness derives from one of these.
#[derive(Clone)]
pub struct Rng(pub u64);
impl Rng {
    pub fn new(seed: u64) -> Self {
        Rng(seed ^ 0x9E37_79B9_7F4A_7C15)
    }
    pub fn next(&mut self) -> u64 {
        self.0 = self.0.wrapping_add(0x9E37_79B9_7F4A_7C15);
        let mut z = self.0;
        z = (z ^ (z >> 30)).wrapping_mul(0xBF58_476D_1CE4_E5B9);
        z = (z ^ (z >> 27)).wrapping_mul(0x94D0_49BB_1331_11EB);
        z ^ (z >> 31)
    }
    pub fn below(&mut self, n: u64) -> u64 {
        if n == 0 { 0 } else { self.next() % n }
    }
    pub fn shuffle<T>(&mut self, v: &mut [T]) {
        for i in (1..v.len()).rev() {
            let j = self.below(i as u64 + 1) as usize;
            v.swap(i, j);
        }
    }
    pub fn fork(&mut self) -> Rng {
        Rng(self.next())
    }
}

/// Run `f(lo, hi)` over `0..n` split into `parts` contiguous ranges on scoped threads and
/// collect the results in range order.
pub fn par_ranges<T: Send, F: Fn(u64, u64) -> T + Sync>(n: u64, parts: u64, f: F) -> Vec<T> {
    let step = n.div_ceil(parts);
    let mut out: Vec<Option<T>> = (0..parts).map(|_| None).collect();
    std::thread::scope(|s| {
        let mut hs = Vec::new();
        for p in 0..parts {
            let lo = (p * step).min(n);
            let hi = ((p + 1) * step).min(n);
            let f = &f;
            hs.push(s.spawn(move || f(lo, hi)));
        }
        for (p, h) in hs.into_iter().enumerate() {
            out[p] = Some(h.join().expect("worker panicked"));
        }
    });
    out.into_iter().map(|x| x.unwrap()).collect()
}

pub fn threads() -> u64 {
    std::thread::available_parallelism().map(|n| n.get() as u64).unwrap_or(4).min(16)
}

/// Minimal JSON text builder (numbers, strings, arrays, objects).
#[derive(Default)]
pub struct Json {
    pub s: String,
}
impl Json {
    pub fn esc(x: &str) -> String {
        let mut o = String::from("\"");
        for c in x.chars() {
            match c {
                '"' => o.push_str("\\\""),
                '\\' => o.push_str("\\\\"),
                '\n' => o.push_str("\\n"),
                c if (c as u32) < 0x20 => o.push_str(&format!("\\u{:04x}", c as u32)),
                c => o.push(c),
            }
        }
        o.push('"');
        o
    }
    pub fn arr<I: IntoIterator<Item = String>>(items: I) -> String {
        let v: Vec<String> = items.into_iter().collect();
        format!("[{}]", v.join(","))
    }
    pub fn nums<T: std::fmt::Display, I: IntoIterator<Item = T>>(items: I) -> String {
        Json::arr(items.into_iter().map(|x| x.to_string()))
    }
    pub fn obj(fields: &[(String, String)]) -> String {
        let v: Vec<String> = fields.iter().map(|(k, v)| format!("{}:{}", Json::esc(k), v)).collect();
        format!("{{{}}}", v.join(",\n"))
    }
}
