#!/usr/bin/env python3
"""Re-run the quick check of the broken property against seeded changes already confirmed and kept in seeded/.

  seed_recheck.py all | <name> [<name> ...]

Applies seeded/<name>/patch.diff to /repo, runs ./check <property> quick, restores /repo, rewrites the
`checks_with_change` / `caught_by` fields of meta.json and the replay copy.  Never commits anything to /repo.
"""
import json, os, re, shutil, subprocess, sys, time

ROOT = "/verif"
env = dict(os.environ, CARGO_NET_OFFLINE="true")


def sh(cmd, cwd, timeout=7200):
    p = subprocess.run(cmd, cwd=cwd, shell=True, capture_output=True, text=True, env=env, timeout=timeout)
    return p.returncode, p.stdout + p.stderr


names = sys.argv[1:]
if names == ["all"]:
    names = sorted(n for n in os.listdir(f"{ROOT}/seeded") if os.path.isdir(f"{ROOT}/seeded/{n}") and not n.startswith("harmless"))
missed = []
for n in names:
    d = f"{ROOT}/seeded/{n}"
    meta = json.load(open(f"{d}/meta.json"))
    pid = meta["property"]
    rc, out = sh("git status --porcelain", "/repo")
    assert out.strip() == "", "/repo is not clean: " + out
    rc, out = sh(f"git apply {d}/patch.diff", "/repo")
    assert rc == 0, out
    try:
        t0 = time.time()
        rc, out = sh(f"./check {pid} quick", ROOT)
        lines = [l for l in out.split("\n") if l.startswith("[check]") or l.startswith("VIOLATION") or l.startswith("KNOWN")]
        res = {"exit": rc, "wall_s": round(time.time() - t0, 1), "output": lines[-12:]}
        for l in lines:
            m = re.match(r"VIOLATION property=\S+ replay=(\S+)", l)
            if m and os.path.exists(m.group(1)):
                shutil.copy(m.group(1), f"{d}/replay-{pid}.json")
                os.remove(m.group(1))
    finally:
        sh("git checkout -- .", "/repo")
    meta["checks_with_change"] = {pid: res}
    meta["caught_by"] = [pid] if rc != 0 else []
    json.dump(meta, open(f"{d}/meta.json", "w"), indent=1, ensure_ascii=False)
    tail = [l for l in lines if l.startswith("VIOLATION")]
    print(n, pid, "exit", rc, res["wall_s"], "s", "NO-INPUT" if tail and tail[0].endswith("no-failing-input-found") else "", flush=True)
    if rc == 0:
        missed.append(n)
print("missed:", missed)
