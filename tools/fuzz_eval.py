#!/usr/bin/env python3
"""Measure what the coverage-guided support stage alone sees of the seeded changes.

  fuzz_eval.py                 every seeded change whose property has fuzz targets (quick budget: 4 x 6 s per target)
  fuzz_eval.py harmless        the harmless refactorings: every target, unconfined, must stay silent

Applies each patch to /repo, rebuilds the targets, runs them, undoes the patch.  Writes seeded/fuzz_eval.json.
"""
import importlib.machinery, importlib.util, json, os, subprocess, sys, time

ROOT = "/verif"
loader = importlib.machinery.SourceFileLoader("check", os.path.join(ROOT, "check"))
spec = importlib.util.spec_from_loader("check", loader)
check = importlib.util.module_from_spec(spec)
loader.exec_module(check)


def sh(cmd, cwd):
    p = subprocess.run(cmd, cwd=cwd, shell=True, capture_output=True, text=True)
    return p.returncode, p.stdout + p.stderr


harmless = len(sys.argv) > 1 and sys.argv[1] == "harmless"
out = {}
names = sorted(n for n in os.listdir(os.path.join(ROOT, "seeded")) if os.path.isdir(os.path.join(ROOT, "seeded", n)))
for n in names:
    if n.startswith("harmless") != harmless:
        continue
    meta = json.load(open(os.path.join(ROOT, "seeded", n, "meta.json")))
    pid = meta.get("property")
    targets = ["text", "words", "sets", "rank", "hist"] if harmless else check.PROPS.get(pid, {}).get("fuzz", [])
    if not targets:
        continue
    rc, o = sh("git status --porcelain", "/repo")
    assert o.strip() == "", "/repo not clean"
    rc, o = sh(f"git apply {os.path.join(ROOT, 'seeded', n, 'patch.diff')}", "/repo")
    assert rc == 0, o
    t0 = time.time()
    try:
        why = check.stage_fuzz()
        res = []
        if why is None:
            for t in targets:
                if harmless:
                    os.environ.pop("CKC_FUZZ_PROP", None)
                r = check.run_fuzz("ALL" if harmless else pid, t, "quick", 1)
                res.append({"target": t, "executions": r["executions"], "failures": r["failures"][:2]})
        out[n] = {"property": pid, "build": why, "results": res, "detected": any(r["failures"] for r in res),
                  "wall_s": round(time.time() - t0, 1)}
        print(n, pid, "DETECTED" if out[n]["detected"] else "-", [f["what"] for r in res for f in r["failures"]][:2], flush=True)
    finally:
        sh("git checkout -- .", "/repo")
json.dump(out, open(os.path.join(ROOT, "seeded", "fuzz_eval_harmless.json" if harmless else "fuzz_eval.json"), "w"), indent=1)
check.stage_fuzz()
