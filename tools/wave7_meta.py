#!/usr/bin/env python3
"""Summaries of the seventh-wave seeded changes (S*, T*), merged into seeded/<name>/meta.json (fields summary,
needs_to_manifest, history).  The agents that wrote the changes were given the text of one property and a scratch worktree
only; the summaries are condensed from their notes.md."""
import json, os, sys

S = {
 "S1-1": ("Seven::hand_rank_value_and_hand gets a fast path for an already sorted hand whose first five slots are a straight flush; `is_sorted` checks slots 0..5 only",
          "slots 0-4 a suited run in descending order, slot 5 lower, slot 6 the suited card one rank above the run (one slot order of 502 hands, 7e-10 of the (hand, order) space)"),
 "S1-2": ("Seven overrides hand_rank_value with a one-entry static memo keyed on the product of the rank primes and the cards-per-suit counts",
          "the call right before must be a different seven with the same ranks and suit counts but the suits assigned to other ranks"),
 "S2-1": ("Seven::hand_rank_value_validated validates with a private bit-layout test instead of is_valid; the prime table has 16 entries and the rank < 13 guard is missing",
          "a slot holding one of 12 non-card words (rank nibble 13-15 = a flag bit, prime byte 0) next to six real cards; only the Seven validated entry points"),
 "S2-2": ("Seven::are_unique gets a fast path for hands already non-increasing by rank flag: 'all neighbouring slots differ'",
          "two equal cards separated only by cards of the same rank, slots in rank order (A♠ A♥ A♠ …); every duplicate-free hand is unaffected"),
 "S3-1": ("Seven::hand_rank_value_validated takes a flush shortcut on the sorted hand; the wheel test reads the ace from first() instead of from the suited cards",
          "A-5-4-3-2 of a suit plus a sixth card of it in 7..K plus an ace of a higher-sorting suit (42 of 133,784,560 hands), validated entry points of Seven only"),
 "S3-2": ("Seven overrides hand_rank_value with a one-entry static memo keyed on the XOR of the seven words",
          "the preceding evaluation must be another hand with the same XOR (two ranks trading suits) and a different value"),
 "S4-1": ("Five::sort_in_place places cards by the number of rank bits above their own when or_rank_bits().count_ones() == 5; or_rank_bits includes the flag bits",
          "four distinct ranks plus one multiples-flag bit (e.g. a flagged pair): two cards land in one slot, a word is lost"),
 "S4-2": ("Five::sort_in_place rotates a wheel so that the ace comes last",
          "the OR of the rank bits is exactly the wheel (1,024 hands, any order); also visible in the hand reported by Six/Seven"),
 "S5-1": ("parse::get_rank_and_suit lower-cases the characters first (flat_map(char::to_lowercase))",
          "a token starting with U+212A KELVIN SIGN (lower-cases to 'k'); every entry point that parses text"),
 "S5-2": ("Seven::from_index returns None early when the text is shorter than 14 bytes",
          "exactly seven one-byte tokens separated by single one-byte blanks (13 bytes); Seven::try_from only"),
 "S6-1": ("BinaryCard::from_index splits with split_ascii_whitespace",
          "two card tokens separated by non-ASCII white space or U+000B; from_index of the bit-set only"),
 "S6-2": ("BinaryCard::from_ckc computes the bit from filter(ckc.strip_multiples_flags())",
          "one of the 364 flagged card words in a slot (8.5e-8 of the words): it now contributes a bit"),
 "S7-1": ("Six/Seven::five_from_permutation pass every selected word through a helper that strips the multiples flags when what remains is a card",
          "a slot holding card|PAIR/TRIPS/QUADS read through slot-index selection; accessors, to_arr and iter are unchanged"),
 "S7-2": ("Seven::new and Six::from_1_and_2_and_3 fill from an iterator after `log::trace!(… cards.next())`",
          "the process-wide log level must be Trace: the argument is then evaluated and eats the first card"),
 "S8-1": ("Seven::hand_rank_value_and_hand, for slots already in strictly descending order, stops at the first straight flush it meets and skips the sort",
          "A-2-3-4-5-6 of one suit in the hand and the slots sorted descending (184 hands, one order each, 3e-10)"),
 "S8-2": ("Seven overrides hand_rank_value with a static memo keyed on the prime product and the flush suit",
          "two sevens with the same ranks and flush suit but other suited ranks, ranked back to back"),
 "T1-1": ("Five::hand_rank_value_and_hand consults a one-entry static memo whose key is built from card >> 8 without the byte mask",
          "two particular different hands ranked back to back in particular slot orders (3e-11 per random consecutive pair)"),
 "T1-2": ("Five::hand_rank_value_validated cross-checks the table result against is_flush / is_straight in a debug_assert with the straight-flush range written 1..10",
          "debug assertions on, validated entry points, the four steel wheels (value 10)"),
 "T2-1": ("Seven::hand_rank_value_and_hand keeps a one-entry static memo whose 42-bit key is squeezed into 40 bits",
          "two sevens equal in slots 1-6 whose first cards share a suit and differ in rank by 4, 8 or 12, ranked back to back"),
 "T2-2": ("Six and Seven return a royal flush candidate unsorted when the hand `is_descending`; Seven's helper stops at slot 5",
          "a royal flush in the hand, slots 0-5 strictly descending, slot 6 holding the A, K, Q or J of it (2.6e-8 per random ordered seven)"),
 "T3-1": ("Five::find_in_products becomes PRODUCTS.binary_search(&(key as u32)) with a debug_assert that the hit equals the key",
          "a direct call with a key >= 2^32 whose low 32 bits are a table product other than the first, debug assertions on"),
 "T3-2": ("Five::hand_rank_value_and_hand remembers the last non-zero result in a static keyed by 6-bit card codes (blank and T♣ share code 32)",
          "rank a hand holding T♣ in slot p, then the same hand with slot p blank"),
 "T4-1": ("Six and Seven override hand_rank_validated: sort once, stop at the first straight flush",
          "A-2-3-4-5-6 of one suit in the hand (4 six-card, 184 seven-card hands), hand_rank_validated only"),
 "T4-2": ("the trait default hand_rank is built from hand_rank_value_and_hand().0 while Six/Seven override hand_rank_value with a loop that drops the `best == 0 ||` arm",
          "a blank (or certain duplicates) among slots 0-4 of a Six/Seven: hand_rank() and hand_rank_value() disagree"),
 "T5-1": ("impl Ord for HandRank compares a private ordinal() that saturates at the top",
          "the pair {65534, 65535} compares Equal although the ranks differ (2 of 2^32 ordered pairs)"),
 "T5-2": ("HandRankName gets explicit discriminants with Invalid = 0",
          "any comparison of categories involving Invalid: derived Ord follows the discriminants"),
 "T6-1": ("the fall-through arm of the 52-way filter match gets a debug_assert for flagged cards",
          "debug assertions on and one of the 364 flagged card words"),
 "T6-2": ("impl PokerCard for CKCNumber overrides filter field-wise; the prime check masks with 0x3F",
          "the 156 words card | {0x40, 0x80, 0xC0} pass the filter"),
 "T7-1": ("Five caches the OR of its five cards at construction; the setters update the cache with |=",
          "a Five changed through a setter so that the replaced card's rank leaves the hand, then queried (predicates, ranking)"),
 "T7-2": ("is_straight becomes rank_bits == 0b11111 << (top - 4) with top = 31 - leading_zeros",
          "overflow checks on and all ranks within {2,3,4,5} (4,368 hands): top - 4 underflows"),
 "T8-1": ("BinaryCard::from_ckc matches on ckc.strip_multiples_flags()",
          "one of the 364 flagged card words converts to a card bit"),
 "T8-2": ("CKCNumber::from_binary_card becomes Deck::get(bc.leading_zeros() as usize - 12) for single bits",
          "overflow checks on and one of the twelve single bits 52..=63"),
 "T9-1": ("Two::try_from(BinaryCard) asserts in debug that the peeled pair is sorted",
          "debug assertions on and a valid pair whose card earlier in deck order has the lower rank (468 of 1,326 pairs)"),
 "T9-2": ("Two::try_from(BinaryCard) keeps a one-entry static memo; a hit ignores the twelve non-card bits",
          "try_from(P) for a valid pair P, then try_from(P | h) with h non-card bits: Ok instead of TooManyCards"),
 "T10-1": ("Two::chen_formula memoises scores in a static table keyed by (high rank, low rank, suited); BLANK shares the index of TWO",
           "score a hand with a blank slot first, then the real hand of the colliding class in the same process"),
 "T10-2": ("Two::new / From store the higher card first; get_gap drops its sort and high_card returns first()",
           "a hand edited with set_first / set_second so that the lower card sits in slot 0"),
 "T11-1": ("Deck::get(index) calls a new card_at(index as u32)",
           "an index k*2^32 + j with j < 52 on a 64-bit target"),
 "T11-2": ("Deck::get gains a debug_assert that the index is not one of the 52 card numbers",
           "debug assertions on and an index equal to a card word"),
 "T12-1": ("flag_as_pair / flag_as_trips debug_assert that no higher mark is present",
           "debug assertions on and a lower mark applied on top of a higher one"),
 "T12-2": ("get_chen_points branches on leading_zeros() of the raw word",
           "a word carrying a multiples flag, read through get_chen_points"),
}

HISTORY = {}
if os.path.exists("/verif/seeded/wave7_history.json"):
    HISTORY = json.load(open("/verif/seeded/wave7_history.json"))

for name, (what, needs) in S.items():
    p = f"/verif/seeded/{name}/meta.json"
    if not os.path.exists(p):
        continue
    d = json.load(open(p))
    d["summary"], d["needs_to_manifest"] = what, needs
    if name in HISTORY:
        d["history"] = HISTORY[name]
    json.dump(d, open(p, "w"), indent=1, ensure_ascii=False)
print("updated", sum(os.path.exists(f"/verif/seeded/{n}/meta.json") for n in S), "meta files")
