"""Per-property configuration of ./check (what to build, which harness streams exist)."""

TRUSTED_BASE = [
    "Lean 4.33.0 kernel (GMP Nat arithmetic); axioms propext, Classical.choice, Quot.sound only; no native_decide, sorry or user axioms",
    "Spec/*.lean: the specifications the theorems are stated against (documented layout, rules of poker, Chen formula, set semantics, token grammar)",
    "translator: rustc + tools/ckc-tools extract (dumps the compiled current tree) + tools/gen_lean.py (packs the dump into Lean literals)",
    "correspondence check for the hand-written model functions: tools/ckc-tools harness (real crate, in-process) vs lean/Driver.lean (compiled model)",
]

PROPS = {
    "C10": {
        "technique": "Lean 4 kernel evaluation (decide) over constants and complete function graphs regenerated from the compiled crate",
        "level_text": "Machine-checked Lean 4 theorems: the 52 named constants, the deck, construction over all 14x5 enumeration pairs and every accessor equal the documented layout, and the filter graph over ALL 2^32 words is the identity on exactly those 52 words (general lemma over the dumped graph). The data are re-extracted from the compiled current tree on every run, so a changed constant, arm or mask changes the Lean definitions and the theorems are re-checked.",
        "level_note": "Trusts: Lean kernel; rustc; the extractor's exhaustive 2^32 sweeps; gen_lean.py packing. Mask/shift readers are formulas compared with the crate on all 2^32 words by the extractor and on 73k structured+seeded words by the driver correspondence.",
        "trusted": ["the extractor's sweeps of all 2^32 words (filter, from_ckc, is_blank, accessor factorisation) are complete"],
        "assumptions": ["mask/shift field readers are hand-modelled formulas; the extractor compares them with the crate on all 2^32 words"],
    },
}
