"""Per-property configuration of ./check (what to build, which harness streams exist)."""

TRUSTED_BASE = [
    "Lean 4.33.0 kernel (GMP Nat arithmetic); axioms propext, Classical.choice, Quot.sound only; no native_decide, sorry or user axioms",
    "Spec/*.lean: the specifications the theorems are stated against (documented layout, rules of poker, Chen formula, set semantics, token grammar)",
    "translator: rustc + tools/ckc-tools extract (dumps the compiled current tree) + tools/gen_lean.py (packs the dump into Lean literals)",
    "correspondence check for the hand-written model functions: tools/ckc-tools harness (real crate, in-process) vs lean/Driver.lean (compiled model)",
    "source translator tools/rsparse.py + tools/rs2lean.py: its reading of the Rust subset (DESIGN.md 15.1: integers as Nat with checked subtraction and unbounded + and *, panics as none, loops with fuel, core library functions given their documented meaning); the tie theorems Tie.* state that each translated function equals the model definition for all arguments",
]

# every property is run against two builds of the crate: release (wrapping arithmetic, no debug assertions) and
# "checked" (overflow checks and debug assertions on), so that a change that only misbehaves in one profile is seen
DEFAULT_PROFILES = ["checked"]

PROPS = {
    "C10": {
        "technique": "Lean 4 kernel evaluation (decide) over constants and complete function graphs regenerated from the compiled crate",
        "level_text": "Machine-checked Lean 4 theorems: the 52 named constants, the deck, construction over all 14x5 enumeration pairs and every accessor equal the documented layout, and the filter graph over ALL 2^32 words is the identity on exactly those 52 words (general lemma over the dumped graph). The data are re-extracted from the compiled current tree on every run, so a changed constant, arm or mask changes the Lean definitions and the theorems are re-checked.",
        "level_note": "Trusts: Lean kernel; rustc; the extractor's exhaustive 2^32 sweeps; gen_lean.py packing. Mask/shift readers are formulas compared with the crate on all 2^32 words by the extractor and on 73k structured+seeded words by the driver correspondence.",
        "trusted": ["the extractor's sweeps of all 2^32 words (filter, from_ckc, is_blank, accessor factorisation) are complete"],
        "assumptions": ["mask/shift field readers are hand-modelled formulas; the extractor compares them with the crate on all 2^32 words"],
    },
    "C18": {
        "technique": "Lean 4 kernel evaluation (decide) over the regenerated deck, preset and slot tables + general lemma mem_combos; Deck::get by a general theorem over all indices",
        "level_text": "Machine-checked Lean 4 theorems over the tables regenerated from the compiled crate: the deck equals the documented order and holds each card exactly once; Deck.get is blank for EVERY index >= 52 (general theorem over Nat); each preset table equals the independently specified list of combinations; the three slot tables equal combos 2 (range 4), combos 5 (range 6), combos 5 (range 7), which by mem_combos is every strictly increasing tuple exactly once.",
        "level_note": "Trusts: Lean kernel; rustc; extractor; gen_lean.py. Deck::get's bounds test is hand-modelled (one line) and compared with the crate on 0..=60, all 2^k and 2^k+-1, usize::MAX and seeded indices.",
    },
    "C14": {
        "technique": "Lean 4 kernel evaluation over the regenerated from_ckc graph (all 2^32 words) and bit tables + general lemma for the default arm of the table model",
        "level_text": "Machine-checked Lean 4 theorems: the bit deck and the 52 bit constants are 2^(51-i) in deck order; word->bit is that assignment on the 52 cards and 0 on EVERY other word (general lemma over the graph dumped from all 2^32 words); bit->word inverts it on the 52 card bits and is blank on every other number (theorem about the exact-match-table model); round trips both ways.",
        "level_note": "Trusts: Lean kernel; rustc; extractor sweeps; gen_lean.py. The default arm of from_binary_card on the 2^64 domain is tied to the crate by sampling only (0, 64 single bits, all 2,016 two-bit values, 2^k+-1, card|overflow mixes, seeded values) - stated as partial in DESIGN.md.",
        "assumptions": ["from_binary_card is an exact-match table with default blank off the 65 dumped points (sampled on 2^64, not swept)"],
    },
    "C20": {
        "technique": "Lean 4 kernel evaluation over 52 cards x 8 mark combinations + arithmetic (omega) for the order clauses + bit-level general lemma for words < 2^29",
        "level_text": "Machine-checked Lean 4 theorems: the flag constants are bits 29, 30, 31; on all 52 cards x 8 mark combinations marking equals OR-ing m<<29, all field accessors (regenerated graphs) read the same, marking is idempotent, stripping returns the card (also after any further marks); the three order clauses hold for all 52x8x52x8 combinations by arithmetic from those facts; stripping and domination also proved for ANY word below 2^29.",
        "level_note": "Trusts: Lean kernel; rustc; extractor; gen_lean.py. The four one-line flag functions are hand-modelled and compared with the crate on all 416 marked cards and seeded marked words.",
    },
    "C01": {
        "technique": "Lean 4 proof: general bridge/permutation/order lemmas + kernel evaluation (decide +kernel) of all 7,462 hand classes against the regenerated lookup tables and the poker-rules specification",
        "level_text": "Machine-checked Lean 4 theorems for EVERY list of five distinct real cards (hence every slot order) and all five-card entry points: no panic, value in 1..7462, all entry points agree; lower value iff the first hand beats the second and equal value iff they tie under the rules-of-poker specification Spec.strength; independent of slot order; every value 1..7462 is produced; royal flush = 1, 7-5-4-3-2 = 7462. The four lookup tables are regenerated from the compiled crate on every run and the kernel facts A, B, W are re-proved when they change; the evaluator algorithm (bit ops, binary search) is hand-modelled and compared with the crate on all 2,598,960 hands x slot orders.",
        "level_note": "Trusts: Lean kernel; Spec/Poker.lean as the meaning of poker strength; rustc; extractor; gen_lean.py; the driver correspondence for the hand-written evaluator model (exhaustive over all five-card hands in >= 3 slot orders, all 120 in thorough, plus the binary search on every table key +-1).",
    },
    "C13": {
        "technique": "Lean 4 proof: bridge lemmas + testBit characterisation of rank masks + kernel evaluation over all 8,192 rank masks and the 7,462 classes",
        "level_text": "Machine-checked Lean 4 theorems for every list of five distinct real cards (any order): the flush predicate equals 'all suits equal'; the (repaired) straight predicate equals 'the ranks present are exactly one of the ten straight sets' (kernel pass over all 8,192 masks of the model of count_ones/leading_zeros/trailing_zeros + general testBit lemma); straight-flush and wheel likewise; all agree with the category digit of the hand's strength under the poker specification (kernel pass over the 7,462 classes); the deprecated free functions equal the methods for any five words. The unrepaired predicate is refuted on 6-5-4-2-2.",
        "level_note": "Trusts: Lean kernel; Spec; models of count_ones/leading_zeros/trailing_zeros (documented meaning; compared with the crate through is_straight on every hand); rustc; extractor; driver correspondence (all hands x slot orders, flags included in the bulk enum5 stream).",
    },
    "C05": {
        "technique": "Lean 4 proof: induction on fuel for the binary search (every key), popcount sub-additivity + kernel evaluation over 8,192 masks and 7,937 table cells, fold invariant for the best-of loop",
        "level_text": "Machine-checked Lean 4 theorems about the model of the repaired code, where a panic (bounds check / arithmetic overflow) is the value none: the product search returns an in-range index for EVERY key; every five-, six- and seven-slot entry point returns some value for EVERY hand whose slots are real cards or blanks with any repetition (unbounded statement over all such lists); a five holding a blank has value 0 through every entry point and rank Invalid; the only multiplication stays below 2^32. The pinned (unrepaired) definitions are refuted in Lean on the recorded inputs.",
        "level_note": "Trusts: Lean kernel; rustc; extractor; the correspondence (all 4,187,106 five-slot multisets over cards+blank, seeded six/seven-slot hands, every table key +-1) run against BOTH a release build and a build with overflow checks. Partial: the model exhibits index and arithmetic panics only; absence of recursion/allocation in the crate is argued, not proved.",
        "assumptions": ["checked and wrapping arithmetic agree because no operation overflows on this domain (proved for the model, observed on both builds)"],
    },
    "C06": {
        "technique": "Lean 4 kernel evaluation over the regenerated complete graphs of determine_name/determine_class (all 65,536 values) against a specification of the 309 class names, linked to cards through the C01 class theorems",
        "level_text": "Machine-checked Lean 4 theorems over graphs regenerated from the compiled crate: name and class are Invalid iff the value is 0 or above 7462 (for every value); the variant names equal the specification's names (309 generated descriptors + Invalid; 9 categories + Invalid) with discriminants 0,1,2,...; for every value 1..7462 the class variant is the descriptor, and the name variant the category, of the hand class the lookup tables send to that value (kernel pass over 7,462 values); every class is one contiguous non-empty range; converted ranks are self-consistent; for every five distinct real cards the reported rank's name and class strings are those of the hand's strength under the rules of poker.",
        "level_note": "Trusts: Lean kernel; Spec/Names.lean as the meaning of the class names; rustc; extractor (graphs over all 65,536 values, variant lists by EnumIter + Debug); HandRank::from / is_invalid / is_a_valid_hand_rank are one-line hand models compared with the crate on all 65,536 values.",
    },
    "C07": {
        "technique": "Lean 4 proof: comparison equals comparison of an explicit injective integer key (case analysis + omega) using the regenerated validity ranges; kernel evaluation of the derived enum orders on all 10^2 + 310^2 pairs",
        "level_text": "Machine-checked Lean 4 theorems about the model of the repaired Ord: for ALL pairs of 16-bit values cmp (from a) (from b) = compare (keyOf a) (keyOf b) with keyOf injective, hence equal only when equal, antisymmetric, transitive over all triples; valid ranks with lower value greater, invalid below valid; operators agree; the derived order of both enumerations is discriminant order on every pair (regenerated comparison matrices) and both discriminants never decrease along v = 1..7462. The pinned (unrepaired) cmp is refuted at (0, 7463).",
        "level_note": "Trusts: Lean kernel; rustc; extractor (validity ranges from the complete determine_name graph; Ord/PartialOrd/Eq of the enums on every pair); the five-branch cmp is a hand model compared with the crate on boundary and seeded pairs (all 2^32 pairs against the key in the thorough sweep).",
    },
    "C02": {
        "technique": "Lean 4 proof: loop invariant of the best-of fold over an arbitrary candidate list, candidates = all 5-element sublists (combos lemmas + decide on the regenerated slot tables), order independence via permutation lemmas; rests on the C01 class theorems",
        "level_text": "Machine-checked Lean 4 theorem for EVERY list of six or seven distinct real cards (any slot order): plain and validated ranking return the value of a five-card sub-hand, no five-card sub-hand has a smaller value, that sub-hand has the greatest strength under the poker specification (= Spec.bestStrength, the rule-based reading), and the value is independent of slot order. The slot tables are regenerated from the crate and proved equal to combos 5 (range 6/7).",
        "level_note": "Trusts: as C01, plus the correspondence for five_from_permutation / the loop / trait defaults (value AND reported hand compared on hands with the best five in each of the 6 + 21 rows, 60k seeded six- and seven-card hands in seeded orders; all 20,358,520 six-card hands in thorough).",
    },
    "C03": {
        "technique": "Lean 4 proof: the C02 loop invariant extended to the remembered hand; insertion-sort model of sort+reverse proved a sorted permutation; permutation invariance of the five-card evaluator for any five words",
        "level_text": "Machine-checked Lean 4 theorems: for a five-card input the reported hand is the input; for EVERY six or seven distinct real cards (any order) the reported hand is a rearrangement of the words of a five-card sub-hand of the input (so: five distinct words, all from the input), is non-increasing, and ranking it alone returns exactly the reported value.",
        "level_note": "Trusts: as C02. core's sort_unstable+reverse is modelled as the (unique) non-increasing rearrangement.",
    },
    "C09": {
        "technique": "Lean 4 proof from the C02 characterisation: sub-hands of a sub-hand are sub-hands (mem_combos, Sublist.trans) and a sublist-interpolation lemma",
        "level_text": "Machine-checked Lean 4 theorems for EVERY seven distinct real cards, every six of them and every five of those: value7 <= value6 <= value5; value7 equals the least of its seven six-card values and value6 the least of its six five-card values.",
        "level_note": "Trusts: as C02. The implementation sweep needs no oracle (it compares the crate's own values).",
    },
    "C04": {
        "technique": "Lean 4 proof: each of the six differently written uniqueness tests is Nodup (unfolding / omega / sorted-scan lemma over insertion sort), corruption read off the regenerated filter graph over all 2^32 words; validated ranking from C01/C02",
        "level_text": "Machine-checked Lean 4 theorems for EVERY list of 2..7 words below 2^32: valid iff every slot is one of the 52 card words and no two slots are equal (pairwise clauses of Two/Three/Four, the windowed contains of Five, the sort-then-scan of Six/Seven each proved equivalent to Nodup); the recogniser is the identity on exactly the 52 words for every word; validated ranking of 5, 6 or 7 arbitrary words never panics, is 0 exactly when the hand is not valid and otherwise equals unvalidated ranking, whose value is in 1..7462; the free function is the five-slot validated ranking.",
        "level_note": "Trusts: as C01/C02; the validators are hand-modelled and compared with the crate on the near-miss alphabet with a duplicate planted at every slot pair and a bad word at every slot of every size, seeded arrangements and arbitrary words (validated ranking included, under catch_unwind).",
    },
    "C08": {
        "technique": "Lean 4 kernel evaluation over the regenerated next_suit / get_card_rank / create graphs (53 words) + general proof of relabelling invariance from the C01/C02 theorems",
        "level_text": "Machine-checked Lean 4 theorems: shifting a real card gives the card of the same rank and the next suit in S->H->D->C->S, four shifts restore it, three or fewer do not, blank stays blank (kernel evaluation over graphs regenerated from the crate); a container shift is the slot-wise shift; for ANY injective relabelling of the four suits (all 24) and EVERY five, six or seven distinct real cards in any order the value is unchanged (ranks and same-suit-ness are preserved, so the hands tie, so by C01/C02 the values agree); shifting is the instance sigma = next suit.",
        "level_note": "Trusts: as C01/C02; shift_suit = create(get_card_rank, next_suit) is a hand-modelled composition of regenerated graphs, compared with the crate on the 53 words, every rank-field x suit-bit combination and seeded hands of sizes 2..7.",
    },
    "C11": {
        "technique": "Lean 4 kernel evaluation over all 52 x 52 layout words + general proofs about an insertion-sort model (permutation, sortedness, uniqueness of the sorted permutation)",
        "level_text": "Machine-checked Lean 4 theorems: for all 52 x 52 pairs of real cards word order is (rank, suit) lexicographic order and every card is above blank; for EVERY list of words of any length the sort output is a permutation of the input, non-increasing, idempotent, of the same length, and is the unique list with those properties (so the copying and in-place forms, and any correct sorting algorithm, agree).",
        "level_note": "Trusts: Lean kernel; that the crate's card words are the layout words (C10); core's sort_unstable + reverse modelled as the non-increasing rearrangement and compared with the crate on all arrangements/multisets of a small alphabet and seeded arbitrary-word hands of every size.",
    },
    "C17": {
        "technique": "Lean 4 kernel evaluation over all 52 x 51 ordered pairs of the model (regenerated rank/suit/points graphs + hand-modelled formula) against a specification of the Chen formula in exact half-points",
        "level_text": "Machine-checked Lean 4 theorem: for ALL ordered pairs of distinct real cards the model's chen_formula equals Spec.chenSpec (high-card points, pair doubling with minimum 5, gap penalties 0/1/2/4/5, +1 for a 0/1-gap below a queen, +2 suited, round half up), get_gap / is_connector / is_pocket_pair / is_suited / is_suited_connector / high_card equal their definitions, and the score is invariant under swapping the slots and under suit shifting; per-card points for all 52 cards. The property's domain is finite and is covered completely by both the theorem and the correspondence.",
        "level_note": "Trusts: Lean kernel; Spec/Chen.lean; rustc; extractor (get_chen_points graph, recorded doubled and checked to be exact multiples of 0.5); f32 arithmetic on multiples of 0.5 of small magnitude is exact and ceil(p/2) = floor((p+1)/2) (assumption, checked by comparing integer results on all 53 x 53 slot pairs).",
        "assumptions": ["IEEE f32 is exact on the multiples of 0.5 in [-5, 22] the formula can produce"],
    },
    "C15": {
        "technique": "Lean 4 proof: testBit-level set semantics (core bit lemmas), OR-fold lemma, find?-based peel over a deck of distinct powers of two proved generally, tied to the regenerated bit deck and from_ckc graph by kernel evaluation",
        "level_text": "Machine-checked Lean 4 theorems for EVERY list of words / every natural number x: a set built from a hand (or from text) has bit 51-i iff the word of deck card i occurs among the slots (tokens), and no other bit; fold_in is union; has is the subset test; the count is the number of set bits; is_valid iff non-zero with no bit above 51 (every x < 2^64); peel returns the first deck bit contained in x and removes exactly it, or blank leaving x unchanged; k successive peels return the members in deck order followed by blanks (induction over k, for any deck of distinct powers of two; the crate's deck is shown to be 2^51..2^0).",
        "level_note": "Trusts: Lean kernel; rustc; extractor (from_ckc graph over all 2^32 words, bit deck, constants); the one-line set operations and the peel loop are hand-modelled and compared with the crate on hands of every size, structured + seeded 64-bit sets and full peel sequences step by step. The 2^64 domain is sampled.",
    },
    "C16": {
        "technique": "Lean 4 proof: popcount-2 characterisation (x = 2^i ||| 2^j) proved generally + kernel evaluation over all 2,016 two-bit values",
        "level_text": "Machine-checked Lean 4 theorems for EVERY x < 2^64: fewer than two bits gives not-enough-cards, more than two too-many-cards; exactly two bits means x = 2^i ||| 2^j with j < i < 64 (general lemma) and then the result is Ok [deck[51-i], deck[51-j]] with from_two of it equal to x when i < 52, and invalid-binary-format otherwise (kernel pass over the 2,016 pairs through the model of peel, from_binary_card and is_valid); success iff the set is two real card bits.",
        "level_note": "Trusts: Lean kernel; rustc; extractor; the model of try_from (count, two peels, from_binary_card, is_valid) compared with the crate on all 64 x 64 one- and two-bit values and seeded values of every population count. from_binary_card's default arm is sampled on 2^64 (C14).",
    },
    "C12": {
        "technique": "Lean 4 kernel evaluation over the regenerated character graphs (all 1,112,064 scalars) and the create graph + proofs by cases / induction over arbitrary strings for tokens and parsers",
        "level_text": "Machine-checked Lean 4 theorems: the rank, suit and whitespace graphs dumped over every Unicode scalar value equal the documented symbol tables; for EVERY string a card token is the card of its first two characters when they are a rank symbol and a suit symbol and blank otherwise, and is always a real card word or blank; hand parsing fails iff the text has fewer tokens than slots and otherwise fills the slots in token order; tokens are non-empty whitespace-free runs and whitespace-free text is one token; all 52 cards x 2 renderings parse back. PARTIAL: 'never panics' is observed on the real code (catch_unwind on every stream) and argued (no index or arithmetic in the parsing code); the model has no panic path.",
        "level_note": "Trusts: Lean kernel; Spec/Symbols.lean; rustc; extractor; the model of split_whitespace / chars().next() glue compared with the crate on every pair of leading characters from a 47-character alphabet x 4 tails, hand strings with 0..9 tokens and 9 separator kinds, seeded Unicode strings; TryFrom<&'static str> reached with leaked strings.",
    },
    "C19": {
        "technique": "Lean 4 proof: refinement of the slot-list model to List.set (frame law per setter, induction over arbitrary histories: last write wins), tied to the real containers by step-by-step differential histories",
        "level_text": "Machine-checked Lean 4 theorems about the slot-list model: a setter changes exactly the named slot and nothing else; after ANY history of setters the size is unchanged and every slot holds the last word written to it or its initial word (induction over the history); constructors from parts lay words out in order; slot-index selection returns the named slots for every in-range 5-tuple. Which Rust setter / accessor name means which index is the part no theorem can carry: it is tied by histories compared after every step on all six container types, with all 27 setters, three read paths and every slot of every size.",
        "level_note": "Trusts: Lean kernel; the correspondence (seeded histories of 1..40 setter calls with arbitrary words, every slot of every size, both composite constructors, all 6^5 + 7^5 selection tuples and out-of-range selection indices).",
    },
}

for _p in PROPS.values():
    _p.setdefault("profiles", list(DEFAULT_PROFILES))

# coverage-guided differential runs (tools/ckc-fuzz) that SUPPORT the sampled parts of the implementation-vs-property
# sweep; each target compares the crate with a specification written out in the target, confined to one property's
# comparisons by CKC_FUZZ_PROP.  Never a proof, never the deciding method.
FUZZ = {
    "C01": ["rank"], "C02": ["rank"], "C03": ["rank"], "C06": ["rank"], "C08": ["rank", "words"], "C09": ["rank"],
    "C04": ["words"], "C05": ["words"], "C10": ["words"], "C11": ["words"], "C19": ["hist", "words"],
    "C12": ["text"], "C14": ["sets", "words"], "C15": ["sets", "text", "words"], "C16": ["sets"],
}
for _k, _v in FUZZ.items():
    PROPS[_k]["fuzz"] = _v

# files whose non-test code a property depends on beyond its `anchors.files` (source-drift escalation, state scan)
PROPS["C06"]["extra_anchors"] = ["src/cards/five.rs", "src/cards/six.rs", "src/cards/seven.rs"]
# the traits through which hands are ranked, validated, sorted and shifted are declared in src/cards/mod.rs: a method added
# there can shadow or re-bind the calls of every property that observes a hand
for _k in ("C01", "C02", "C03", "C05", "C08", "C09", "C11", "C13", "C19"):
    PROPS[_k].setdefault("extra_anchors", []).append("src/cards/mod.rs")
